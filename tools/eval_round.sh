#!/bin/sh
# tools/eval_round.sh <prefix> <suffix> <mode> <Cxx>...   — confirm and evaluate freshly written seeds.
# For each id: the worktree /tmp/<prefix>_<Cxx> is reset and seed/patch.diff applied (git stash is shared between
# worktrees, so the worktree's own diff is not trusted); the 273 tests must pass with the change, demo.py must exit 1
# with it and 0 without; the seed is copied to seeded/<Cxx><suffix>/; then the property's quick check (mode "one") or
# every quick check (mode "all") runs against a scratch copy of /repo with the patch applied (VERIF_REPO).  Runs in
# the framework directory this script lives in, so a copy of /verif can be used while /verif itself is being edited.
set -u
PREFIX="$1"; SUF="$2"; MODE="$3"; shift 3
V="$(cd "$(dirname "$0")/.." && pwd)"
for P in "$@"; do
  W=/tmp/${PREFIX}_$P
  C=/root/work/evalrepo_$P
  echo "##### $P$SUF"
  [ -f "$W/seed/patch.diff" ] || { echo "no seed for $P"; continue; }
  git -C "$W" checkout -q -- . ; git -C "$W" clean -fdq -- src
  git -C "$W" apply "$W/seed/patch.diff" || { echo "patch does not apply"; continue; }
  echo "tests:   $(cd "$W" && PYTHONPATH=$W/src /venv/bin/python -m pytest -q -p no:cacheprovider --no-cov 2>&1 | tail -1)"
  (cd "$W" && PYTHONPATH=$W/src timeout 300 /venv/bin/python seed/demo.py > /tmp/eval_$P.with.txt 2>&1); echo "demo with change (expect 1): exit $?"
  git -C "$W" diff -- src > /tmp/eval_$P.patch
  git -C "$W" checkout -q -- . ; git -C "$W" clean -fdq -- src
  (cd "$W" && PYTHONPATH=$W/src timeout 300 /venv/bin/python seed/demo.py > /tmp/eval_$P.without.txt 2>&1); echo "demo without   (expect 0): exit $?"
  git -C "$W" apply /tmp/eval_$P.patch
  mkdir -p "$V/seeded/$P$SUF"; cp /tmp/eval_$P.patch "$V/seeded/$P$SUF/patch.diff"; cp "$W/seed/demo.py" "$W/seed/meta.json" "$V/seeded/$P$SUF/"
  rm -f /tmp/eval_$P.patch /tmp/eval_$P.with.txt /tmp/eval_$P.without.txt
  rm -rf "$C"; mkdir -p "$C"; (cd /repo && git archive HEAD) | tar -x -C "$C"
  (cd "$C" && git init -q && git add -A >/dev/null 2>&1 && git -c user.email=x@x -c user.name=x commit -qm base >/dev/null)
  git -C "$C" apply "$V/seeded/$P$SUF/patch.diff" || { echo "patch does not apply to the copy"; rm -rf "$C"; continue; }
  if [ "$MODE" = all ]; then LIST=$(python3 -c "import json;print(' '.join(c['property_id'] for c in json.load(open('$V/MANIFEST.json'))['checks']))"); else LIST="$P"; fi
  for c in $LIST; do (cd "$V" && VERIF_REPO="$C" ./check "$c" 2>&1 | grep -E "^VIOLATION|-> exit" | cut -c1-400 | tr '\n' ' '); echo; cp "$V/replays/$c-quick-0.json" "$V/seeded/$P$SUF/replay-$c.json" 2>/dev/null; done
  rm -rf "$C"
done
(cd "$V" && /venv/bin/python tools/extract.py --repo /repo --out lean/AioMySensors/Generated/Tables.lean --json tools/tables.json | tail -1)
