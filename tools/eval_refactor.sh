#!/bin/sh
# tools/eval_refactor.sh <Rxx> — a behaviour-preserving refactoring from /tmp/refac_<Rxx>: tests must pass; every
# quick check is run against a scratch copy of /repo with the patch applied; any check that does not exit 0 is a
# false alarm (or the refactoring is not behaviour-preserving after all: look at the replay).
set -u
R="$1"
W=/tmp/refac_$R
V="$(cd "$(dirname "$0")/.." && pwd)"
C=/root/work/evalrefac_$R
[ -f "$W/seed/patch.diff" ] || { echo "no refactoring for $R"; exit 2; }
echo "== tests with the refactoring"; (cd "$W" && PYTHONPATH=$W/src /venv/bin/python -m pytest -q -p no:cacheprovider --no-cov 2>&1 | tail -1)
mkdir -p "$V/seeded/refactor-$R"; git -C "$W" diff -- src > "$V/seeded/refactor-$R/patch.diff"; cp "$W/seed/meta.json" "$V/seeded/refactor-$R/meta.json"
rm -rf "$C"; mkdir -p "$C"; (cd /repo && git archive HEAD) | tar -x -C "$C"
(cd "$C" && git init -q && git add -A >/dev/null 2>&1 && git -c user.email=x@x -c user.name=x commit -qm base >/dev/null)
git -C "$C" apply "$V/seeded/refactor-$R/patch.diff" || { echo "patch does not apply"; exit 2; }
cd "$V"
for c in $(python3 -c "import json;print(' '.join(c['property_id'] for c in json.load(open('MANIFEST.json'))['checks']))"); do
  VERIF_REPO="$C" ./check "$c" > /tmp/evalrefac_$R.out 2>&1; rc=$?
  if [ $rc -ne 0 ]; then echo "ALARM $c rc=$rc: $(grep -E '^VIOLATION|-> exit' /tmp/evalrefac_$R.out | tr '\n' ' ' | cut -c1-300)"; cp replays/$c-quick-0.json /tmp/evalrefac_${R}_$c.json 2>/dev/null; fi
done
rm -f /tmp/evalrefac_$R.out
rm -rf "$C"
/venv/bin/python tools/extract.py --repo /repo --out lean/AioMySensors/Generated/Tables.lean --json tools/tables.json | tail -1
git checkout -q -- evidence 2>/dev/null
echo "== done $R"
