#!/usr/bin/env python3
"""Write MANIFEST.json from the table below (kept in one place so it always validates)."""
import json, os

HERE = os.path.dirname(os.path.dirname(os.path.abspath(__file__)))
props = {}
with open(os.path.join(HERE, "properties.jsonl")) as f:
    for line in f:
        p = json.loads(line)
        props[p["id"]] = p

NOTE_COMMON = ("Trusted: Lean 4.33 kernel; axioms within {propext, Classical.choice, Quot.sound} (audited each run); "
               "tools/extract.py (regenerates Generated/Tables.lean from the live code each run); the differential "
               "correspondence harness that ties the hand-written model to the implementation (testing, not proof). ")

CLAIMED = {
    "C01": dict(
        text="Lean theorems decode_encode (all five versions, every well-formed message, payloads with ';'), encode_shape, "
             "encode_single_newline and encode_decode about the codec model, which reads delimiter/ranges/cross-field "
             "constants from tables regenerated from the code on every run; the model itself is tied to "
             "MessageSchema.dump/load and Gateway.send/listen by a differential run over the boundary product.",
        design="7 C01", technique="Lean 4 proof (induction over strings; round-trip law) + generated tables + differential correspondence",
        note=NOTE_COMMON + "Modelled, not verified: str.rstrip/split/join, int(), str(int), marshmallow field validation order."),
    "C02": dict(
        text="Lean theorem decode_ok_iff characterises the accept set of the decoder model exactly (iff) in the property's own "
             "words for every version, with fieldsOK_iff proving the generated protocol constants equal the stated cross-field "
             "rules; the malformed stream (40 numeral classes x 5 positions, 0-8 fields, all Python whitespace) ties the model "
             "to the code and to an independent restatement of the property.",
        design="7 C02", technique="Lean 4 proof (iff characterisation of the accept set) + generated tables + differential correspondence",
        note=NOTE_COMMON + "'Integer' is CPython's int(str) as modelled by pyInt? (Unicode digits, underscores, digit limit); "
             "that no failure other than ValidationError exists is checked by the correspondence run only."),
    "C03": dict(
        text="Lean theorems recv_lib_only / history_lib_only: from every state satisfying the reachable-state invariant, for every "
             "line, configuration, local time and write-fault schedule, one iteration of listen never ends in a non-library "
             "exception and re-establishes the invariant (so the gateway stays usable), by induction over histories of receives "
             "and sends; proved compositionally (one lemma per combinator, handler, decorator, dispatch) over the handler chains, "
             "message_buffer flags and except tuples regenerated from the code, with the conversions' error classes shown caught. "
             "The model is tied to the real Gateway by differential histories (absurd payloads, malformed stream, probes after every error).",
        design="7 C03", technique="Lean 4 proof (invariant + induction over histories, compositional safety judgement) + generated chains/except tuples + differential correspondence",
        note=NOTE_COMMON + "Modelled: exception propagation through try/finally/except, awesomeversion outside the release grammar is "
             "unmodelled (not generated). Stream-transport bytes are covered by C17's model; here they are exercised on the real code only."),
    "C18": dict(
        text="Lean theorems write_topic, echo_round_trip/echo_decodes (every prefix, payloads with ';' and '/'), subscribed_iff "
             "(the five generated filters match exactly commands 0-4), fifo_exactly_once/kth_read over all interleavings of arrivals "
             "and reads, never_deaf (undecodable payload or MqttError is queued, later messages still delivered) and disconnect_clean, "
             "with the except/suppress clauses read from the generated tables; tied to MQTTTransport and MQTTClient (with a fake "
             "aiomqtt client) by a differential run over all interleavings of <= 4 arrivals and <= 4 reads.",
        design="7 C18", technique="Lean 4 proof (round-trip laws, filter characterisation, queue invariant over all interleavings) + generated except tuples + differential correspondence",
        note=NOTE_COMMON + "Partial: aiomqtt, the broker, asyncio.Queue and task cancellation are modelled, not verified; '#' filters are not modelled."),
    "C05": dict(
        text="Lean theorems select_spec (selectVer is the newest supported protocol whose major.minor does not exceed the reported "
             "one, default 1.4; over the generated PROTOCOL_VERSIONS keys, all naturals), select_examples, coherent_history (the "
             "reported version and the active protocol agree after every history of receives and sends, including rejected reports "
             "and every error outcome, via the generic receive traversal), accepted_report / rejected_report, and the type-gate "
             "theorems over the generated Internal/Stream tables; tied to get_protocol and the real Gateway by the complete version "
             "grid, version reports in all orders mixed with traffic, and the gate over types -1..40 x 5 versions.",
        design="7 C05", technique="Lean 4 proof (decision-list characterisation, invariant by generic traversal + induction over histories) + generated tables + differential correspondence",
        note=NOTE_COMMON + "The comparison of release strings is delegated by the code to awesomeversion; the model covers the grammar "
             "d+(.d+){1,3} and the rejected class, other accepted spellings ('latest', 'v2.1', '2') are unmodelled and not generated."),
    "C17": dict(
        text="Lean theorems reads_eq_lines / chunking_independent (for every byte stream, every chunking and every interleaving of "
             "feeds and reads the results are exactly the newline-terminated lines, decoded or a transport error; over-long line and "
             "end of stream are transport errors on every later read), read_lib_only, write_bytes_in_order, connect/disconnect/"
             "not-connected theorems, with the except clauses read from the generated tables; tied to StreamTransport (direct, TCP, "
             "serial flavours) over a real asyncio.StreamReader by all chunkings of short streams and a fault grid.",
        design="7 C17", technique="Lean 4 proof (chunking independence of a framing function over all schedules) + generated except tuples + differential correspondence",
        note=NOTE_COMMON + "Partial: asyncio.StreamReader.readuntil, the OS and UTF-8 decoding (a parameter in the theorems, "
             "String.fromUTF8? in the driver) are modelled, not verified; lone surrogates in write are outside the model."),
    "C09": dict(
        text="Lean small-step model of the flush loop and buffered sends (steps = the atomic blocks between transport-write "
             "suspension points, scheduler choices of any length); invariant Inv (J1-J6) proved for init and every step, lifted "
             "by induction over all schedules; no_lost_update, writes_were_sent, written_at_most_as_often_as_sent for every "
             "schedule followed by a final wake; lost_update_old keeps the negative result for the pre-repair loop. Tied to the "
             "real Gateway under a gated transport: every interleaving of one wake with <= 3 sends and <= 2 parked commands, step by step.",
        design="7 C09", technique="Lean 4 proof (inductive invariant of an interleaving semantics over all schedules) + differential correspondence under a schedule-controlled transport",
        note=NOTE_COMMON + "Scope stated in the theorems: buffered sends to the sleeping woken node, one listener, writes succeed "
             "(failures are C08). asyncio's cooperative scheduling (atomicity between awaits) is the modelling assumption."),
    "C10": dict(
        text="Lean theorems all_missing_paths_wrapped (from the generated chains: from 2.0 on every handler that can fail with a "
             "missing node/child runs inside the decorator, before 2.0 none), request_when_unmarked, failed_request_not_recorded, "
             "silent_when_marked, presentation_rearms (with the no-duplicate-marker invariant proved along all histories), "
             "independent (a message from one node never touches another node's marker, for every version and fault schedule, via "
             "the generic traversal); tied to the real Gateway by histories over known/unknown nodes with write faults on the request.",
        design="7 C10", technique="Lean 4 proof (exact decorator semantics + frame invariants by generic traversal) + generated chains + differential correspondence",
        note=NOTE_COMMON + "The history-level 'at most one request per episode' is composed from these step theorems by the oracle of "
             "the correspondence run, not yet by a single Lean induction; 'never before 2.0' is checked on the real code only."),
    "C11": dict(
        text="Lean theorems nextId_fresh / id_in_range_and_fresh (the id is above every registered id, 1..254), id_handed_out "
             "(placeholder registered and the answer addressed like the request with the id as payload), registered_before_written "
             "(also when the write fails), too_many / too_many_only_when_full, id_request_dispatch (generated chains, all versions), "
             "keys_monotone_history and never_handed_out_twice (no operation ever removes a node, by the generic traversal and "
             "induction over histories); tied to the real Gateway over every subset of {0,1,2,253,254,255} and random registries.",
        design="7 C11", technique="Lean 4 proof (freshness from max, monotone registry invariant over histories) + generated constants/chains + differential correspondence",
        note=NOTE_COMMON + "The lower bound 1 <= id assumes registered ids are not negative (0-255 from the wire and from persistence)."),
    "C15": dict(
        text="Lean model of the file-system operation sequence of save with torn writes; crash_states_are_prefixes, "
             "every_prefix_is_a_crash_state, crash_load_classes; not_crash_safe PROVES THE PROPERTY FALSE of today's operation "
             "sequence (the recorded known finding truncate-in-place), atomic_if_renamed proves it for temp-file+rename. The real "
             "save is instrumented at the file opener, its logged operations must equal the model's, and every crash state is "
             "materialised and loaded by the real load; only crash states of the known class are tolerated (KNOWN-FINDING).",
        design="7 C15", technique="Lean 4 proof (prefix closure over crash points; refutation with witness) + operation-sequence correspondence + crash-state enumeration",
        note=NOTE_COMMON + "Known finding: the property does not hold on the unchanged tree (see known-findings.txt). Not modelled: "
             "OS page cache / fsync ordering, executor threads."),
    "C16": dict(
        text="Lean small-step model of the gateway context (load, start, connect, body, disconnect, stop) and the saver task with "
             "CPython cancellation semantics and the generated suppress/except clauses and SAVE_INTERVAL; exit_clean, "
             "connect_failure_leaves_nothing, load_failure_starts_nothing, cadence, enter_loads_then_saves, exit_completes for all "
             "fault combinations and ALL schedules; tied to the real Gateway with gated file operations (exit placed before the saver "
             "starts, inside each file operation, during the sleep), virtual time, and every built-in transport kind.",
        design="7 C16", technique="Lean 4 proof (invariants of a small-step lifecycle model over all schedules and fault combinations) + generated constants/clauses + gated differential correspondence",
        note=NOTE_COMMON + "Partial: an executor thread still writing after its coroutine was cancelled cannot be exhibited by the model; "
             "a failing *periodic* save (outside the property's fault positions) is reported as an observation only."),
    "C04": dict(
        text="Lean theorems yield_is_decoded, missing_node_names_it, missing_child_names_it, rejected_line_changes_nothing for "
             "EVERY line, version, state and fault schedule (a third traversal of the generated dispatch: the Faithful judgement), "
             "other_records_untouched (a message changes at most the record of the node it is from, or adds a fresh placeholder), "
             "send_keeps_registry, and the explicit registry update per kind of report (node/child presentation, set, battery, "
             "sketch name/version, heartbeat incl. the rejected-payload cases); tied to the real Gateway on the registry view by "
             "histories with interleaved re-presentations, with an independently maintained reference registry as oracle.",
        design="7 C04", technique="Lean 4 proof (outcome-faithfulness judgement over the generated dispatch, frame invariant, exact handler semantics) + differential correspondence",
        note=NOTE_COMMON + "The history-level statement 'the stored value is the payload of the last accepted set since the last "
             "presentation' is composed from the step theorems by the oracle's reference registry, not by one Lean induction."),
    "C06": dict(
        text="Lean theorems reactions_not_parked (no receive ever adds to the sleep buffer: every reaction call site passes "
             "message_buffer=False, generated), only_presentation_markers_added, the exact version-query rule of the decorator "
             "(no_query_when_known, query_when_unknown, query_after_error, no_query_for_log_and_ready, version_reply_needs_no_query), "
             "and one theorem per reaction (config, time incl. calendar.timegm, value reply / no value, discover broadcast, reboot) "
             "plus the no-write theorems (types without handler per version, reports); tied to the real Gateway on the writes view "
             "with the reaction table restated in Python as oracle.",
        design="7 C06", technique="Lean 4 proof (frame invariants by generic traversal, exact decorator and handler semantics) + generated flags/chains + differential correspondence",
        note=NOTE_COMMON + "'No other received message produces any write' is proved per handler / per type table, and checked "
             "globally by the oracle; a single Lean characterisation of all writes of a step is not stated. time.localtime() is "
             "an input of the step (the harness substitutes the `time` name inside protocol_14 in its own process)."),
    "C07": dict(
        text="Lean theorems send_parks / send_direct, parked_value_is_latest, the buffer invariant along all histories "
             "(no key twice, every entry a set command under its own key), wake_releases (exactly that node's entries, once each, "
             "in buffer order, removed; others kept: after_wake_only_others), wake_signals from the generated chains (2.0/2.1 "
             "heartbeat response, 2.2 pre-sleep; none in 1.x), other_nodes_untouched for every message/version/fault schedule; "
             "tied to the real Gateway by sequential interleavings of sends and wake/non-wake messages.",
        design="7 C07", technique="Lean 4 proof (dictionary invariants over histories, exact flush semantics) + generated chains/flags + differential correspondence",
        note=NOTE_COMMON + "Stated about what a wake releases and about sends to nodes not known to be sleeping; parked vs direct "
             "sends after a re-presentation are not ordered (DESIGN section 6)."),
    "C08": dict(
        text="Lean theorem flush_under_faults: under EVERY fault schedule the release loop writes a prefix of the node's entries "
             "successfully and removes exactly those, then either finishes or reports the transport error with the failed entry and "
             "all later ones still buffered; conservation (every snapshot entry is written-and-removed or unwritten-and-kept, other "
             "nodes untouched), eventual_release; tied to the real Gateway by complete enumeration of failing positions.",
        design="7 C08", technique="Lean 4 proof (induction over the release loop for all fault schedules) + fault enumeration on the real code",
        note=NOTE_COMMON + "The order 'write, then remove' is what the proof rests on (flushList_cons_fail)."),
    "C12": dict(
        text="Lean theorem send_trichotomy: for every accepted command and every state/flag/fault, send ends with the line handed "
             "to the transport, or the message held for a destination known to be sleeping, or the transport error; parked_is_released, "
             "not_a_message, only_set_is_ever_held; no foreign exception by C03's send_lib_only; the outgoing handler table is generated "
             "(a command without handler breaks every_command_has_a_handler). Tied to the real Gateway over all commands x types x flag x destination state.",
        design="7 C12", technique="Lean 4 proof (exhaustive case analysis of the outgoing dispatch over generated tables) + differential correspondence",
        note=NOTE_COMMON + "Messages outside the codec's accept set (command not 0-4) are outside the property."),
    "C19": dict(
        text="Lean theorems tables_monotone, decode_version_independent, chains_agree_same_line (generated chains), "
             "step_stable_same_line (for a message whose type exists in the older protocol the newer one on the same line runs "
             "literally the same handler computation, except the 2.2 heartbeat response), heartbeat_exception, across_lines_commands / "
             "across_lines_internal / decorator_transparent for 1.x -> 2.x; tied to two real gateways fed the same history under every ordered pair of versions.",
        design="7 C19", technique="Lean 4 proof (equality of dispatched computations from generated tables, by decide and rewriting) + paired differential runs",
        note=NOTE_COMMON + "History-level stability follows from step equality because the handlers read the active protocol only "
             "through the dispatch version; that last step (state independence of st.proto) is checked by the paired runs, not yet by a Lean non-interference proof."),
    "C13": dict(
        text="Lean model of JSON values, an interpreter of the GENERATED marshmallow schema tables (field kinds, required flags, "
             "range validators, pre_load key translations, unknown=RAISE) and of save/load; load_save (every registry satisfying "
             "RegOK loads back to itself), reachable_regok / reachable_round_trip (every registry reachable through ANY history of "
             "received lines and send calls, any faults, satisfies RegOK — a Hoare logic over the whole handler model, resting on "
             "the battery range check), legacy_same (the pymysensors layout loads to the same registry); tied to the real "
             "Persistence.save/load on real files with registries reached through wire histories and boundary content.",
        design="7 C13", technique="Lean 4 proof (round-trip law over a generated-schema interpreter; reachability invariant by Hoare logic + induction over histories) + differential correspondence on real files",
        note=NOTE_COMMON + "JSON text <-> value is modelled and proved for the values save produces (real literals, lone surrogate escapes and the "
             "recursion limit stay outside the model); extra hypothesis of the text-level theorems: regIntsOK (integers within the "
             "digit limit). marshmallow's coercions are modelled and "
             "re-measured against the live library on every run (truthy/falsy sets, Int/Str/Bool/Dict behaviour)."),
    "C14": dict(
        text="Lean theorem load_total: for every file state (missing, unreadable, undecodable, not JSON, too deep, and EVERY JSON "
             "value at every nesting level) load either succeeds or fails with the persistence read error, proved over the "
             "generated except tuples of Persistence.load (shape_caught, read_caught: every exception class the model's steps can "
             "raise is named by a clause); missing_creates, empty_is_empty; tied to the real load on real files: every prefix of "
             "valid files, every single-position shape/type mutation, random JSON, undecodable bytes, deep nesting.",
        design="7 C14", technique="Lean 4 proof (totality over all JSON values against generated except tuples) + differential correspondence on real files",
        note=NOTE_COMMON + "The byte -> JSON-value classification is modelled (classify: strict UTF-8, parse) and compared with the real "
             "load on every generated file; real literals, lone surrogate escapes and deep nesting are classified by the real "
             "json.loads only. A missing parent directory makes the file creation fail with the persistence WRITE error: outside the "
             "property's quantifier (file contents), reported as a note."),
}

# Later additions (DESIGN 12.4): what the entries above call "not yet one Lean induction" has since been proved.
CANCEL = (" Write faults are three-valued (pass / fail / cancel): the theorems also cover cancellation of the waiting task "
          "at any transport write (asyncio.CancelledError raised at that await, finally blocks still run).")
CLAIMED["C03"]["text"] = (
    "Lean theorems recv_lib_only_or_cancelled / history_lib_only_or_cancelled / history_lib_only: from every state satisfying the "
    "reachable-state invariant, for every line, configuration, local time and schedule of write faults and cancellations, the only "
    "non-library exception one iteration of listen (or a send) can end in is the CancelledError of a cancellation injected at a "
    "write of that very step, none at all without one, and the invariant is re-established (the gateway stays usable), by "
    "induction over histories of receives and sends; proved compositionally (one lemma per combinator, handler, decorator, "
    "dispatch) over the handler chains, message_buffer flags and except tuples regenerated from the code, with the conversions' "
    "error classes shown caught (conversions_caught, incl. IndexError from awesomeversion after fix b0bff1e). Tied to the real "
    "Gateway by differential histories (absurd payloads, malformed stream, full registries, probes after every error, cancelled writes).")
CLAIMED["C03"]["note"] = NOTE_COMMON + ("Modelled: exception propagation through try/finally/except. Stream-transport bytes are covered by "
                                       "C17's model; here they are exercised on the real code only.")
CLAIMED["C04"]["text"] = (
    "Refinement to an abstract specification: registry_refines_spec proves that registry and active protocol after ANY operation "
    "(every line, version, environment, fault/cancellation schedule, buffer contents) are specStep of the decoded line, a pure "
    "function with one clause per report kind (Model/RegistrySpec.lean, no handler is called); history_refines_spec lifts it by "
    "induction to all histories, registry_independent_of_faults_and_buffers and value_is_last_set (the stored value is the payload "
    "of the last set for that key since the last presentation of that node or child) follow. Plus yield_is_decoded, "
    "missing_node_names_it, missing_child_names_it, rejected_line_changes_nothing (Faithful judgement), other_records_untouched, "
    "send_keeps_registry and the per-report update theorems. Tied to the real Gateway on the registry view (incl. a direct "
    "comparison of the implementation's registry with specStep through the driver) with an independent reference registry as oracle.")
CLAIMED["C04"]["note"] = NOTE_COMMON + ("Not stated in Lean: the analogue of value_is_last_set for battery / sketch / heartbeat attributes "
                                       "(the same argument on the spec gives them); they are the oracle's.")
CLAIMED["C04"]["technique"] = "Lean 4 proof (refinement to an abstract registry specification, induction over histories) + differential correspondence"
CLAIMED["C06"]["text"] = (
    "writes = expectedWrites as one equation: Model/WriteSpec.lean states the reaction table as a pure function (one clause per "
    "reaction, in written order; no handler is run) and writes_eq_expected / recv_ / history_writes_eq_expected prove that when no "
    "write fails the lines written by a step are exactly expectedWrites, each successful; writes_eq_attempts proves under EVERY "
    "schedule of failing and cancelled writes that the attempts are exactly expectedAttempts (first segment up to the first "
    "non-completing write, the version query in any case because it is sent from finally, the request only if nothing failed), the "
    "schedule is consumed one entry per attempt and the outcome is the exception of the last non-completing attempt "
    "(expectedExn_is_last). Plus writes_are_reactions, reactions_not_parked, only_presentation_markers_added and the per-reaction "
    "theorems. Tied to the real Gateway on the writes view, with the reaction table restated in Python as oracle and the driver "
    "evaluating expectedAttempts before every received line.")
CLAIMED["C06"]["note"] = NOTE_COMMON + ("Hypothesis ParkedSets (what is parked for the sender are set commands) is shown for every reachable state "
                                       "(parkedSets_reachable). time.localtime() is an input of the step (the harness substitutes the `time` name inside "
                                       "protocol_14 in its own process).")
CLAIMED["C06"]["technique"] = "Lean 4 proof (refinement of all writes of a step to a specification function, per-handler summaries, all fault schedules) + generated flags/chains + differential correspondence"
CLAIMED["C08"]["text"] += CANCEL
CLAIMED["C10"]["text"] = (
    "History-level Lean inductions: episode_invariant (along any re-arm-free stretch of any history the gateway's own write "
    "attempts and the marker of node n form a legal run of a two-state automaton), one_per_episode / between_rearms (at most one "
    "request written successfully per episode, none attempted after it), rearm_step, no_request_before_20 (under 1.4/1.5 no own "
    "write is a presentation request and no marker changes), through a dedicated traversal of the generated dispatch "
    "(Lemmas/Episode.lean) with encode_inj (the wire form determines the message); step level: all_missing_paths_wrapped, "
    "request_when_unmarked, aborted_request_not_recorded (a request whose write failed OR was cancelled does not count as sent), "
    "silent_when_marked, presentation_rearms, independent. Tied to the real Gateway by histories over known/unknown nodes with "
    "failing and cancelled request writes, version reports inside episodes, and a real task.cancel() on a stalled write.")
CLAIMED["C10"]["note"] = NOTE_COMMON + ("Counted are requests the gateway writes on its own in receive steps; requests the application passes to send() "
                                       "are written directly without a marker. Hypothesis: the reachable-state invariant Inv (C07's SbufInv + IbufWF).")
CLAIMED["C10"]["technique"] = "Lean 4 proof (episode automaton invariant by induction over histories, exact decorator semantics) + generated chains + differential correspondence"
CLAIMED["C11"]["text"] += CANCEL
CLAIMED["C12"]["text"] = CLAIMED["C12"]["text"].replace("or the transport error;", "or the transport error, or the caller's own cancellation at that write (never silently);")
CLAIMED["C15"]["text"] += (" For ANY operation sequence: gap_is_fatal (a crash point at which the live file is missing or empty is fatal for every "
                           "pair of non-empty registries) and backup_first_not_crash_safe; saves made by the Persistence object that loaded the "
                           "old file (six layouts of the old file) are instrumented too, and unlogged changes of the live file become crash states.")
CLAIMED["C05"]["text"] += (" The version model now covers EVERY string (Model/AwesomeVersion.lean: awesomeversion 24.6's normalisation, "
                           "strategy detection incl. the CalVer / PEP 440 regular expressions, modifiers, sections and compare handlers against a "
                           "major.minor key): release_grammar_agrees, plain_integer_selects, select_total (protocol / compare error / ValueError / "
                           "IndexError, all caught by the generated except tuple), compare_error_iff, index_error_iff, select_spec_av; tied to the "
                           "real get_protocol on a corpus of ~300 structured strings and 2 000 / 20 000 random strings per run (outcome, strategy "
                           "and each of the five comparisons).")
CLAIMED["C05"]["note"] = NOTE_COMMON + ("Not generated: lone surrogates (not a Lean Char) and long CalVer-shaped strings on which the real regular "
                                       "expression backtracks cubically.")
for _k in ("C13", "C14", "C15"):
    CLAIMED[_k]["text"] += (" The JSON text layer is modelled (Model/JsonText.lean: render = json.dumps(indent=2, ensure_ascii), parse = json.loads as a "
                            "one-pass machine, strict UTF-8) with parse_render and prefix_not_json proved; ")
CLAIMED["C13"]["text"] += "saved_text_round_trip / saved_bytes_accepted state the round trip at the level of the file's bytes, for registries in any insertion order."
CLAIMED["C14"]["text"] += "every generated file is also loaded from its bytes through the modelled decoder and parser and compared with the real load."
CLAIMED["C15"]["text"] += ("the abstract Loader is instantiated by the real loader (UTF-8 decode, parse, schema load / saveBytes) whose three laws are "
                           "theorems: crash_load_classes_real, not_crash_safe_real, atomic_if_renamed_real; every materialised crash state is loaded "
                           "through the modelled loader as well.")
CLAIMED["C16"]["text"] = CLAIMED["C16"]["text"].replace("exit_clean, ", "exit_clean, cancel_exit_clean (leaving by cancellation of the task that runs the context), ")
CLAIMED["C16"]["text"] += (" Two sessions on the same objects are run for every built-in transport kind, and slow connects / long bodies on an "
                           "event loop whose clock is virtual (every timer of the code under test runs in virtual time).")
CLAIMED["C19"]["text"] = (
    "Whole histories, both cases of the property: history_stable (same major line: equal outcomes and writes at every step and "
    "similar states, by induction over any history with faults, cancellations and sends, via a non-interference traversal) and "
    "history_stable_across_lines (1.x vs 2.x: from states that hold no presentation-request marker, with the version known, every "
    "decoded type existing in the older protocol and not gateway-ready, and the older run never ending a step in a missing "
    "node/child error) with history_stable_across_lines_handlers (hypothesis on the handler body's error, also before a version is "
    "known); heartbeat_differs_in_sleeping_only (the stated exception is only the stated one); tables_monotone, "
    "decode_version_independent, chains_agree_same_line from the generated tables. Tied to two real gateways fed the same history "
    "under every ordered pair of versions, incl. codec-level lines and cross-line re-presentations.")
CLAIMED["C19"]["note"] = NOTE_COMMON + ("Across the lines the observation-only hypothesis needs 'version known' (a 2.x gateway always knows its version): "
                                       "with no version known a failing version-query write in `finally` masks the older run's missing error (witness in DESIGN 12.4).")
CLAIMED["C19"]["technique"] = "Lean 4 proof (non-interference traversal + induction over histories; dispatch equality from generated tables) + paired differential runs"

TIE = (" The handler bodies themselves are regenerated from the code on every run: tools/translate.py compiles the Python AST of every "
       "incoming handler body, both decorators, the sleep-buffer release loop, the outgoing handlers, the protocol_version setter and the "
       "Node methods they call into Generated/Bodies.lean, and Lemmas/BodiesEq.lean proves each generated definition EQUAL to the model's "
       "handler and recvGen = recv / apiSendGen = apiSend (the receive and send paths assembled from the generated text), so the theorems "
       "above are theorems about what the code says now; an equality that stops checking triggers a model-guided search (DriverGen.lean: "
       "model and translation side by side over random and bounded-exhaustive histories) whose diverging histories are replayed on the "
       "implementation under this property's oracle.")
for _k in ("C03", "C04", "C05", "C06", "C07", "C08", "C10", "C11", "C12", "C13", "C19"):
    CLAIMED[_k]["text"] += TIE
    CLAIMED[_k]["technique"] += " + handler bodies translated from the Python AST with equality proofs (BodiesEq)"
    CLAIMED[_k]["note"] += (" tools/translate.py is trusted to render the Python subset it accepts faithfully into the vocabulary of Model/Lit.lean "
                            "(a body it cannot read falls back to the committed translation and is tied by the correspondence run alone; the "
                            "evidence lists it).")
STREAM_TIE = (" StreamTransport's four methods are regenerated from the code on every run as well (tools/translate.py -> Generated/StreamBodies.lean over "
              "Model/LitStream.lean) and Lemmas/StreamBodiesEq.lean proves connect/disconnect/read/write equal to the model's Transport.* for every "
              "transport object and every injected fault.")
for _k in ("C03", "C16", "C17"):
    CLAIMED[_k]["text"] += STREAM_TIE
CODEC_TIE = (" The decoder's validators (validate_command, validate_message_type, validate_child_id, CommandField.validate_command, to_dict) are "
             "regenerated from the code on every run (tools/translate.py -> Generated/CodecBodies.lean over Model/LitCodec.lean, with marshmallow's "
             "Schema.load as constant glue) and Lemmas/CodecBodiesEq.lean proves loadGen_eq: MessageSchema.load assembled from them equals decode for "
             "every string and version AND raises nothing but ValidationError (the clause 'never by any other kind of failure', now a theorem).")
for _k in ("C01", "C02", "C03"):
    CLAIMED[_k]["text"] += CODEC_TIE
for _k in ("C01", "C02"):
    CLAIMED[_k]["technique"] += " + decoder validators translated from the Python AST with an equality proof (CodecBodiesEq.loadGen_eq)"
CLAIMED["C02"]["note"] = CLAIMED["C02"]["note"].replace("that no failure other than ValidationError exists is checked by the correspondence run only.",
    "that no failure other than ValidationError leaves MessageSchema.load is theorem loadGen_eq about the translated validators inside a hand-written "
    "rendering of marshmallow's field pipeline (LC.schemaLoad), and is also exercised by the correspondence run.")
PERSIST_TIE = (" Persistence.load and Persistence.save are regenerated from the code on every run (tools/translate.py -> Generated/PersistBodies.lean over "
               "Model/LitPersist.lean: the two try statements of load with their handlers in source order, the file operations of save in the order it "
               "performs them) and Lemmas/PersistBodiesEq.lean proves load_eq (= Persist.loadFile) and saveOps_eq (= FileOps.saveOps).")
for _k in ("C13", "C14", "C15"):
    CLAIMED[_k]["text"] += PERSIST_TIE
    CLAIMED[_k]["technique"] += " + Persistence.load/save translated from the Python AST with equality proofs (PersistBodiesEq)"
CLAIMED["C18"]["text"] += (" The two pure mapping functions (_parse_message_to_mqtt, _parse_mqtt_to_message) are regenerated from the code on every run "
                           "(tools/translate.py -> Generated/MqttBodies.lean over Model/LitMqtt.lean) and Lemmas/MqttBodiesEq.lean proves them equal to "
                           "Mqtt.toTopic (ValueError exactly where it is none) and Mqtt.toLine, the functions the round-trip theorems are about.")
CLAIMED["C18"]["technique"] += " + topic/line mapping translated from the Python AST with equality proofs (MqttBodiesEq)"
CLAIMED["C17"]["technique"] += " + StreamTransport methods translated from the Python AST with equality proofs (StreamBodiesEq)"
CLAIMED["C02"]["text"] += (" The malformed stream is also fed end to end through Gateway.listen (one long-lived and fresh generators, populated registries): "
                           "a rejected line must raise InvalidMessageError carrying no decoded message, change nothing and not swallow the next line.")
CLAIMED["C03"]["text"] += (" Whole pipelines bytes -> StreamTransport.read -> listen -> handler -> send -> StreamTransport.write on one real transport are run with "
                           "undecodable bytes inside payloads and later echoes of stored values.")
CLAIMED["C05"]["text"] += (" Gateway sessions with a persistence file that already holds node 0 (any stored version string) are run: before any report the stored "
                           "version is None and the protocol the default, per Gateway object.")
CLAIMED["C11"]["text"] += (" Whole lives of one Gateway object with a persistence file (failed final saves, files replaced or damaged between sessions, "
                           "mid-session loads) are judged: ids handed out by the object are pairwise distinct and distinct from every id it ever had registered.")
CLAIMED["C12"]["text"] += (" Between a hold and the node's next wake 28 kinds of traffic are interposed (re-presentations of the destination, other traffic, "
                           "further sends, reconnects), in four shapes x five versions.")
CLAIMED["C13"]["text"] += (" Chains save -> traffic ending in errors after the registry was updated -> save -> load on one Persistence object are compared with a fresh load.")
CLAIMED["C14"]["text"] += (" Directories with sibling files next to the persistence file (.bak, .tmp, .lock, ~; valid, truncated, undecodable, deep, wrong shape) are generated.")
CLAIMED["C16"]["text"] += (" Histories of 2-4 contexts on the SAME Gateway and transport objects, an earlier one ending at every fault position, are judged per session.")
CLAIMED["C17"]["text"] += (" Concurrent writers on a writer whose drain the harness gates, with disconnect / connection loss at every point: every write sends its whole "
                           "line in call order or raises a TransportError.")

CLAIMED["C01"]["text"] += (" Lines arriving at gateways in rich states (held commands released at a wake, reboot-flagged nodes, stored values) must be yielded "
                           "with exactly the values they spell.")
CLAIMED["C02"]["text"] += (" Decoding is re-checked after blocks of other activity of the library in the same process (persistence sessions, schema objects, several gateways).")
CLAIMED["C05"]["text"] += (" Two to four Gateway objects alive in one process, each with its own reports, are judged per gateway.")
CLAIMED["C07"]["text"] += (" Held commands of 186 payload kinds must be written at the wake byte for byte as an awake twin writes them; Lean: held_until_wake "
                           "(any history without the destination's own wake signal keeps the held command) and non_wake_keeps_sbuf.")
CLAIMED["C08"]["text"] += (" Lean, history level: nothing_lost (after ANY history of receives and sends for other keys, under ANY schedule of failing and "
                           "cancelled writes, a held command is still held or was written successfully at some step), via a traversal whose primitive is "
                           "'write the entry, then remove it' (Lemmas/RelW.lean).")
CLAIMED["C09"]["text"] += (" Reconnects (the link drops, the same Gateway object is entered again) are schedule steps of the interleaving engine.")
CLAIMED["C11"]["text"] += (" Lean: load_keeps_registered_ids and never_handed_out_twice_life (traffic interleaved with loads of arbitrary files).")
CLAIMED["C12"]["text"] += (" Lean: held_released_at_next_wake; scale scenarios with up to 20 000 keys held at once.")
CLAIMED["C13"]["text"] += (" Sessions left while a scheduled save is held at each of its file operations (real aiofiles and thread pool); a genuine race of the "
                           "unchanged library found there is a recorded known finding (class cancelled-save-unclosed-file, DESIGN 13 F17).")
CLAIMED["C16"]["text"] += (" For every built-in transport kind, leaving with messages received but not read must complete, disconnect and save.")
CLAIMED["C17"]["text"] += (" Connects whose open function hangs for any stretch of virtual time, fails with any OSError-family class, or is cancelled.")
CLAIMED["C19"]["text"] += (" The whole grid child type x value type of the older protocol's tables is run in the paired histories.")
CLAIMED["C16"]["note"] += (" Known finding F17 (an executor thread outliving its cancelled coroutine: the cancelled save's unclosed file object is flushed over the final "
                           "save) is exactly this unmodelled runtime behaviour; it is exercised and recorded under C13.")

PENDING_REASON = "check not built yet in this round (model and theorems in progress); see DESIGN.md section 7"

checks = []
# round 9: further translator ties (tools/ties.json)
CLAIMED["C05"]["text"] += (" get_protocol itself is regenerated from the code on every run (tools/translate_version.py -> Generated/VersionBodies.lean over "
                           "Model/LitVersion.lean: the lazy next(...) over sorted(PROTOCOL_VERSIONS, reverse=True), the `not AwesomeVersion(v) < AwesomeVersion(key)` "
                           "condition, the default module) and Lemmas/VersionBodiesEq.lean proves getProtocol_eq: the generated function equals getProtocolX for every str.")
CLAIMED["C05"]["technique"] += " + get_protocol translated from the Python AST with an equality proof (VersionBodiesEq)"
CLAIMED["C16"]["text"] += (" The except/suppress clauses of Persistence.start are located by what they protect (Gen.excPersistStartSleep / excPersistStartAwait), and the "
                           "lifecycle invariant is proved for both readings of the sleep clause, so only `suppress(CancelledError)` around `await task` is an obligation.")
CLAIMED["C17"]["text"] += (" The except clauses of StreamTransport.read are extracted per try block with the error each raises (Gen.excStreamReadBlocks); the model maps an "
                           "exception through the block, and readClauses*_table proves the translated clause list equals the extracted block up to merging of clauses.")

LISTEN_TIE = (" The assembly is read from the code as well (tools/translate_listen.py -> Generated/GatewayBodies.lean over Model/LitGateway.lean): one iteration of "
              "Gateway.listen, Gateway.send and the two handler lookups (Command(k) -> ValueError, getattr -> AttributeError, the handle_<command> attributes each "
              "handler class really has); Lemmas/GatewayBodiesEq.lean proves listenStep_eq (= recv) and send_eq (= apiSend) with load = the generated decoder and "
              "dump = the generated encoder, so line -> decode -> lookup -> decorators -> body -> write is generated text end to end.")
for _k in ("C03", "C04", "C05", "C06", "C07", "C08", "C10", "C11", "C12", "C19"):
    CLAIMED[_k]["text"] += LISTEN_TIE
CLAIMED["C16"]["text"] += (" The order and nesting of the steps is read from the code (tools/translate_lifecycle.py -> Generated/LifecycleBodies.lean over Model/LitLifecycle.lean: "
                           "Gateway.__aenter__/__aexit__, Persistence.start with save_on_schedule and cancel_save, stop, as terms of an 11-constructor statement language with a "
                           "continuation semantics) and Lemmas/LifecycleBodiesEq.lean proves generated_runs_model: the machine running the generated terms passes through exactly "
                           "the states of Lifecycle.run for every fault record, exception class kind, start time, file and schedule.")
CLAIMED["C16"]["technique"] += " + context-manager and saver control flow translated from the Python AST with a simulation proof (LifecycleBodiesEq)"
CLAIMED["C18"]["text"] += (" The transport object is read from the code too (tools/translate_mqttclient.py -> Generated/MqttObjectBodies.lean over Model/LitMqttObject.lean: MQTTClient's "
                           "five hooks and MQTTTransport.connect/disconnect/read/write/_receive/_receive_error) and Lemmas/MqttObjectBodiesEq.lean proves each equal to the object model "
                           "(connect_eq with the five subscriptions in order, read_eq, write_eq with exactly one unretained publish, handle_incoming_eq, genRun_state).")
CLAIMED["C18"]["technique"] += " + MQTT client/transport methods translated from the Python AST with equality proofs (MqttObjectBodiesEq)"

NODESCHEMA_TIE = (" What turns one JSON object into a Node is read from the code as well (tools/translate_nodeschema.py -> Generated/NodeSchemaBodies.lean over "
                  "Model/LitNodeSchema.lean: both pre_load compatibility hooks, both post_load hooks, Node.__init__ and Child.__init__) and Lemmas/NodeSchemaBodiesEq.lean proves "
                  "them equal to the model's (pre-load hooks for every JSON value, up to insertion order of different keys, which marshmallow provably never reads) and "
                  "loadFile_through_generated: Persist.loadFile is the two try statements around the generated loop.")
for _k in ("C13", "C14"):
    CLAIMED[_k]["text"] += NODESCHEMA_TIE
    CLAIMED[_k]["technique"] += " + schema hooks and constructors translated from the Python AST with equality proofs (NodeSchemaBodiesEq)"

# rounds 9 and 10 of seeded changes: what the correspondence runs gained (DESIGN section 14)
R910 = {
 "C01": " Concurrent Gateway.send calls from several tasks over transports whose write really suspends (gated, deterministic schedules) are run: every transport.write argument must be exactly one encoded message (theorems joined_not_one_line, one_write_one_message).",
 "C02": " Histories in which the application assigns to, sends, dumps or keeps decoded Message objects between decodes are run (what a line decodes to must not depend on what was done with earlier results; theorems accepts_functional, decode_history_free).",
 "C07": " Which nodes are sleeping destinations is derived by the oracle from the history (restored record, wake signal, re-presentation), never from the library's own flag; every internal type from a node with parked commands is generated (theorems sleeping_until_presented, parks_until_presented).",
 "C08": " Held commands are observed behaviourally (every history ends with a fault-free wake of every node); interrupted releases after which the error leaves the context and the SAME Gateway object with a real persistence file is entered again are run (theorem nothing_lost_life).",
 "C10": " The missing-child path is run on nodes of every stored protocol_version and origin (preloaded, presented, id-request placeholder, restored from aiomysensors- and pymysensors-format files); requests are judged on the transport's write log.",
 "C11": " Sessions are real `async with` statements left in 11 ways, restarted with a new Gateway on the same file, with the file damaged between sessions in every way load distinguishes (theorems never_handed_out_twice_restarts, never_handed_out_twice_damaged_file, start_refused_*).",
 "C12": " The same Message instance re-sent after assignments, or assigned while held, is run (model Model/Objects.lean; theorems resend_after_assignment_writes_current_line, held_object_released_as_it_reads_now).",
 "C13": " Registries built by message histories (incl. id requests before the version is known) are saved after every step; the harness judges registries holding any value instead of crashing.",
 "C14": " Loads are also run in processes with a past: several event loops on shared paths with contention (persist_loops.py), and fresh interpreters in which an application defined schema / model classes named like or subclassing the library's (persist_env.py) (theorem every_load_total).",
 "C16": " Registries of up to 254 nodes changed by a concurrent task at every loop iteration (churn.py), entering failed or cancelled at every step of __aenter__ with the file checked afterwards (enterfail.py), and the far end ending the connection while the body reads with the transport's own sockets checked after exit (hangup.py) are run; the two wall-clock-dependent groups confirm a violation by a re-run with relaxed timing (theorems churn_*, load_failure_touches_nothing, C16Hangup).",
 "C17": " Delivery over real loopback TCP and ptys with prompt, slow and late-reading peers (0 lines to 9 MB) is run: bytes accepted by write() must reach the peer before the clean end of stream (theorems disconnect_keeps_written_bytes, session_delivers_lines_then_closes).",
 "C18": " Faults of 18 exception classes at every hook and position with delivery probes after a reported success, and a pool of 79 prefixes per run (empty levels, unicode, long) used as configured, are run (theorems connected_hears_every_command, hears_configured_iff, leading_divider_matters).",
 "C19": " The cross-line domain is decided from the registry, never from the error raised; placeholder nodes speaking before their presentation and version reports at every position with held state are generated (theorems history_stable_across_lines_registry, version_report_keeps_held).",
}
for _k, _t in R910.items():
    CLAIMED[_k]["text"] += _t
R11 = {
 "C03": " Stalls are run on a virtual clock: the drain after the k-th write, the arrival of a line and wait_closed stay pending for 0 s to a day or for ever under every answering kind of line; whatever leaves listen()/send() must be a message, a library error or the caller's own cancellation.",
 "C06": " Whole lives of 1-4 real gateway sessions on pre-written persistence files are run with one write log: every phase other than handling a received line (entering, leaving, re-entering, idling up to an hour of virtual time) must write nothing.",
 "C09": " Lines delivered while a write of a flush waits (the same node's wake, another node's wake, a non-wake line) plus concurrent sends are run over a transport that suspends every write of every task, judged on the write log alone (theorems wake_waits_for_flush, wake_during_flush_is_skipped).",
 "C10": " Presentations on child 255 with every type of the table and beyond, and node types on other children, are run from every sender state (theorems node_presentation_any_type, system_child_presentation_any_type).",
 "C12": " What a wake signal carries is varied (counters falling, equal, rising, restarted, huge; restored high values; durations; non-numbers) for nodes with commands held (theorem held_released_whatever_the_wake_carries).",
 "C13": " String attributes are drawn from an alphabet of JSON-syntax fragments in every string position, on directly built registries and over the wire (theorem strings_opaque).",
 "C15": " Crash states are OBSERVED in the real directory before every audited file-system event (what a killed process leaves behind), not derived from a write-through assumption; Model/FileOpsBuffered.lean models buffered writes (theorems rename_before_close_not_crash_safe, buffered_crash_states_are_prefixes, atomic_if_renamed_buffered) and every observed directory must be among its crash states.",
 "C17": " TCPTransport and SerialTransport themselves are run in every pre-connection state followed by every sequence of up to three calls, each call judged (theorem no_connection_is_stable).",
}
for _k, _t in R11.items():
    CLAIMED[_k]["text"] += _t

for pid, c in CLAIMED.items():
    checks.append({
        "property_id": pid,
        "quick_cmd": f"./check {pid} --tier quick",
        "thorough_cmd": f"./check {pid} --tier thorough",
        "evidence_file": f"evidence/{pid}.json",
        "replay_cmd_template": f"./check {pid} --replay {{path}}",
        "engine": "lean-proof+correspondence",
        "level_claimed": {"category": "proof", "text": c["text"], "design_ref": c["design"]},
        "level_note": c["note"],
        "technique": c["technique"],
    })

manifest = {
    "version": 1,
    "setup_cmd": "./setup.sh",
    "hooks": {
        "guard": "AIOMYSENSORS_VERIF",
        "enable": "no source hooks are needed: every observation point is reached from outside (subclassed transports, "
                  "name substitution from the harness process, a custom event loop); the guard variable is reserved and unused",
        "baseline_off_cmd": "cd /repo && /venv/bin/python -m pytest -ra -q -p no:cacheprovider --timeout=900 --continue-on-collection-errors",
        "source_commits": [],
        "add_only": True,
    },
    "engines": [
        {"name": "lean-proof+correspondence", "path": "lean/ + harness/ + tools/extract.py + tools/translate.py",
         "serves_properties": sorted(CLAIMED),
         "kind_free_text": "Lean 4 theorems about a formal model; tables AND handler bodies regenerated from the code by two translators "
                           "(bodies tied to the model by equality proofs); hand-written behaviour model checked against the implementation by a "
                           "differential run through Driver.lean"},
    ],
    "checks": checks,
    "notes": "All properties are decided by machine-checked proof in Lean 4 about a model tied to the code (DESIGN.md sections 2-5). "
             "Sixteen genuine defects were repaired in /repo by 17 'fix:' commits, two of them (F15, F16) found by this framework (known-findings.txt); two genuine defects are recorded "
             "known findings: C15's truncating save (F11) and the cancelled-save/unclosed-file race (F17, found by this framework; property=C13 in known-findings.txt, C16's clause).",
    "not_applicable": [{"property_id": pid, "reason": PENDING_REASON} for pid in sorted(props) if pid not in CLAIMED],
}
with open(os.path.join(HERE, "MANIFEST.json"), "w") as f:
    json.dump(manifest, f, indent=1)
print("MANIFEST.json written:", len(checks), "checks,", len(manifest["not_applicable"]), "not_applicable")
