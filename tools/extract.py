#!/venv/bin/python
"""Translator: the live aiomysensors working tree -> lean/AioMySensors/Generated/Tables.lean.

Run under /venv/bin/python (the interpreter that has the repo's dependencies).  Everything emitted
is read from the imported modules (enum members, constants, class MROs, closures, marshmallow field
objects) or from the AST of the source files (``message_buffer=`` constants, ``except`` tuples,
``super()`` delegations).  Shapes the translator does not understand raise ``ExtractError``; the
caller then keeps the committed snapshot and relies on the correspondence run (DESIGN section 2).

Usage: extract.py --repo /repo --out lean/AioMySensors/Generated/Tables.lean --json tables.json
"""

from __future__ import annotations

import argparse
import ast
import hashlib
import importlib
import inspect
import json
import os
import sys
import textwrap
import unicodedata


class ExtractError(Exception):
    """The code has a shape the translator cannot read."""


VERS = [("1.4", "v14", "protocol_14"), ("1.5", "v15", "protocol_15"), ("2.0", "v20", "protocol_20"),
        ("2.1", "v21", "protocol_21"), ("2.2", "v22", "protocol_22")]

WRAPPERS = {
    "handle_missing_protocol_version": "missingPV",
    "handle_missing_node_child": "missingNC",
}

# (defining module, function name) -> Body constructor of the Lean vocabulary
BODIES = {
    ("protocol_14", "handle_presentation"): "presentation14",
    ("protocol_14", "handle_set"): "set14",
    ("protocol_14", "handle_req"): "req14",
    ("protocol_14", "handle_internal"): "internal14",
    ("protocol_14", "handle_stream"): "stream14",
    ("protocol_14", "handle_i_version"): "iVersion14",
    ("protocol_14", "handle_i_id_request"): "iIdRequest14",
    ("protocol_14", "handle_i_config"): "iConfig14",
    ("protocol_14", "handle_i_time"): "iTime14",
    ("protocol_14", "handle_i_battery_level"): "iBatteryLevel14",
    ("protocol_14", "handle_i_sketch_name"): "iSketchName14",
    ("protocol_14", "handle_i_sketch_version"): "iSketchVersion14",
    ("protocol_20", "handle_presentation"): "presentation20",
    ("protocol_20", "handle_i_gateway_ready"): "iGatewayReady20",
    ("protocol_20", "handle_i_discover_response"): "iDiscoverResponse20",
    ("protocol_20", "handle_i_heartbeat_response"): "iHeartbeatResponse20",
    ("protocol_22", "handle_i_heartbeat_response"): "iHeartbeatResponse22",
    ("protocol_22", "handle_i_pre_sleep_notification"): "iPreSleepNotification22",
}
OUT_BODIES = {
    ("protocol_14", "handle_presentation"): "direct",
    ("protocol_14", "handle_req"): "direct",
    ("protocol_14", "handle_internal"): "direct",
    ("protocol_14", "handle_stream"): "direct",
    ("protocol_14", "handle_set"): "set14",
}

PYEXN = ["KeyError", "ValueError", "TypeError", "AttributeError", "OverflowError", "RecursionError",
         "UnicodeDecodeError", "JSONDecodeError", "OSError", "FileNotFoundError", "ValidationError",
         "AwesomeVersionException", "AwesomeVersionCompareException", "LimitOverrunError",
         "IncompleteReadError", "CancelledError", "MqttError", "RuntimeError", "IndexError", "Exception"]


def short(mod) -> str:
    return mod.__name__.rsplit(".", 1)[-1]


# ----------------------------------------------------------------------------------------------
# AST helpers


def fn_ast(fn) -> ast.AST:
    src = textwrap.dedent(inspect.getsource(fn))
    tree = ast.parse(src)
    node = tree.body[0]
    if not isinstance(node, (ast.AsyncFunctionDef, ast.FunctionDef)):
        raise ExtractError(f"not a function: {fn}")
    return node


def body_wo_doc(node):
    body = list(node.body)
    if body and isinstance(body[0], ast.Expr) and isinstance(getattr(body[0], "value", None), ast.Constant) \
            and isinstance(body[0].value.value, str):
        body = body[1:]
    return body


def body_hash(fn) -> str:
    node = fn_ast(fn)
    dump = "\n".join(ast.dump(s, annotate_fields=True, include_attributes=False) for s in body_wo_doc(node))
    return hashlib.sha1(dump.encode()).hexdigest()[:16]


def is_super_call(stmt, name: str) -> bool:
    """``return await super().<name>(gateway, message, message_buffer)``"""
    if not isinstance(stmt, ast.Return) or not isinstance(stmt.value, ast.Await):
        return False
    call = stmt.value.value
    if not isinstance(call, ast.Call) or not isinstance(call.func, ast.Attribute):
        return False
    if call.func.attr != name:
        return False
    sup = call.func.value
    if not (isinstance(sup, ast.Call) and isinstance(sup.func, ast.Name) and sup.func.id == "super" and not sup.args):
        return False
    args = [a.id if isinstance(a, ast.Name) else None for a in call.args]
    return args == ["gateway", "message", "message_buffer"] and not call.keywords


class SendFlags(ast.NodeVisitor):
    """Collect, in source order, the message_buffer= constant of every ``gateway.send(...)`` call."""

    def __init__(self) -> None:
        self.flags: list[bool] = []

    def visit_Call(self, node: ast.Call) -> None:
        f = node.func
        if isinstance(f, ast.Attribute) and f.attr == "send" and isinstance(f.value, ast.Name) and f.value.id == "gateway":
            flag = True  # Gateway.send's default
            for kw in node.keywords:
                if kw.arg == "message_buffer":
                    if not isinstance(kw.value, ast.Constant) or not isinstance(kw.value.value, bool):
                        raise ExtractError("message_buffer= is not a boolean constant")
                    flag = kw.value.value
            self.flags.append(flag)
        self.generic_visit(node)


def send_flags(fn) -> list[bool]:
    v = SendFlags()
    v.visit(fn_ast(fn))
    return v.flags


def _local_helper(call: ast.Call, fn):
    """The private helper a call refers to, if it is one we can see: `self._x(...)` / `cls._x(...)` (a function of the
    class `fn` is defined in) or `_x(...)` (a function of fn's module).  None for everything else."""
    return _resolve_helper(call.func, fn)


def _resolve_helper(f, fn):
    """The private helper the expression `f` (`self._x` / `cls._x` / `_x`) names, seen from inside `fn`; None otherwise.
    Used for calls (`_local_helper`) and for plain references (`partial(self._x, ...)`, `create_task(self._x())`)."""
    module = inspect.getmodule(fn)
    target = None
    if isinstance(f, ast.Attribute) and isinstance(f.value, ast.Name) and f.value.id in ("self", "cls") and f.attr.startswith("_") \
            and not f.attr.startswith("__"):
        owner = module
        for part in fn.__qualname__.split(".")[:-1]:
            owner = getattr(owner, part, None)
            if owner is None or part == "<locals>":
                return None
        if not inspect.isclass(owner):
            return None
        try:
            target = inspect.getattr_static(owner, f.attr)
        except AttributeError:
            return None
        target = getattr(target, "__func__", target)
    elif isinstance(f, ast.Name) and f.id.startswith("_") and not f.id.startswith("__"):
        target = getattr(module, f.id, None)
    if not inspect.isfunction(target) or inspect.getmodule(target) is not module or target is fn:
        return None
    if any(target is site for site in _SITE_FUNCS):
        return None          # a function whose clauses are a table of their own
    return target


_SITE_FUNCS: list = []


def _tables_snapshot() -> dict:
    """Committed values of the few tables that fall back when the code leaves the shape they are read from."""
    with open(os.path.join(os.path.dirname(os.path.abspath(__file__)), "tables_snapshot.json"), encoding="utf-8") as f:
        return json.load(f)


def _stream_read_in_subset(read_fn) -> bool:
    """Is `StreamTransport.read` inside the subset of the stream translator (tools/translate.py: TrStream)?  Asked of
    the translator itself, so that the table and the translation fall back together."""
    sys.path.insert(0, os.path.dirname(os.path.abspath(__file__)))
    try:
        import translate as T  # noqa: PLC0415
    except Exception:  # noqa: BLE001
        return True
    finally:
        sys.path.pop(0)
    try:
        T.TrStream(read_fn, "read").block(T.fn_ast(read_fn).body)
    except (T.Untranslatable, KeyError, TypeError, OSError, AttributeError, IndexError):
        return False
    return True


def except_tuples(fn, merge_same_action: bool = False) -> list[list[str]]:
    """For every ``except`` clause (source order) and ``contextlib.suppress(...)``: the class names.  A clause that an
    extract-method refactoring moved into a private helper of the same class or module is found where the helper is
    called (two levels deep at most), so that its position in the list stays what it was."""
    out: list[tuple[tuple, list[str]]] = []

    def names(t, module=None) -> list[str]:
        if t is None:
            return ["BaseException"]
        if isinstance(t, ast.Tuple):
            return [n for e in t.elts for n in names(e, module)]
        if isinstance(t, ast.Name):
            # a module-level constant holding a tuple of classes (`_READ_ERRORS = (OSError, ValueError)`) is expanded
            const = getattr(module, t.id, None) if module is not None else None
            if isinstance(const, tuple) and const and all(inspect.isclass(c) and issubclass(c, BaseException) for c in const):
                return [c.__name__ for c in const]
            return [t.id]
        if isinstance(t, ast.Attribute):
            return [t.attr]
        raise ExtractError("except clause with a computed class")

    def visit(f, prefix: tuple, depth: int, seen: tuple) -> None:
        module = inspect.getmodule(f)
        for node in ast.walk(fn_ast(f)):
            if isinstance(node, ast.ExceptHandler):
                out.append((prefix + (node.lineno, node.col_offset), names(node.type, module)))
            elif isinstance(node, ast.Call) and isinstance(node.func, ast.Attribute) and node.func.attr == "suppress":
                out.append((prefix + (node.lineno, node.col_offset), [n for a in node.args for n in names(a, module)]))
            elif isinstance(node, ast.Call) and depth < 2:
                helper = _local_helper(node, f)
                if helper is not None and helper not in seen:
                    try:
                        visit(helper, prefix + (node.lineno, node.col_offset), depth + 1, seen + (helper,))
                    except (OSError, TypeError, ExtractError):
                        pass

    visit(fn, (), 0, (fn,))
    if merge_same_action:
        # adjacent clauses of one `try` whose bodies are the same statement list (up to the `as` name) are one clause
        # with the union of the classes: first-match over them is the same function of the exception class.  The
        # models read a clause by its POSITION, so a clause split in two (or two merged into one) must not shift it.
        drop = {}
        for node in ast.walk(fn_ast(fn)):
            if isinstance(node, ast.Try):
                prev = None
                for h in node.handlers:
                    act = _handler_action(h)
                    if prev is not None and act == prev[1]:
                        drop[(h.lineno, h.col_offset)] = (prev[0].lineno, prev[0].col_offset)
                    else:
                        prev = (h, act)
        merged = {}
        for pos, n in sorted(out, key=lambda e: e[0]):
            tgt = drop.get(pos, pos) if len(pos) == 2 else pos
            merged.setdefault(tgt, [])
            merged[tgt] += [c for c in n if c not in merged[tgt]]
        return [n for _, n in sorted(merged.items(), key=lambda e: e[0])]
    return [n for _, n in sorted(out, key=lambda e: e[0])]


def _handler_action(h: ast.ExceptHandler) -> str:
    """The body of an `except` clause as text, with the `as` name made anonymous and docstrings / logging dropped."""
    body = []
    for b in h.body:
        if isinstance(b, ast.Expr) and isinstance(b.value, ast.Constant):
            continue
        if isinstance(b, ast.Expr) and isinstance(b.value, ast.Call) and isinstance(b.value.func, ast.Attribute) \
                and isinstance(b.value.func.value, ast.Name) and b.value.func.value.id in ("LOGGER", "_LOGGER", "logger"):
            continue
        body.append(b)
    mod = ast.Module(body=body, type_ignores=[])
    text = ast.dump(mod)
    if h.name:
        text = text.replace(f"id='{h.name}'", "id='<exc>'")
    return text


# ----------------------------------------------------------------------------------------------
# handler chain resolution


def unwrap(fn, layers):
    """Peel decorator closures; returns the innermost plain function."""
    while True:
        code = fn.__code__
        if code.co_name == "wrapper":
            deco = code.co_qualname.split(".")[0]
            if deco not in WRAPPERS:
                raise ExtractError(f"unknown decorator {deco}")
            if "func" not in code.co_freevars or fn.__closure__ is None:
                raise ExtractError(f"decorator {deco} has no 'func' cell")
            layers.append(("wrap", WRAPPERS[deco]))
            fn = fn.__closure__[code.co_freevars.index("func")].cell_contents
            continue
        return fn


def resolve_chain(cls, name: str, bodies: dict, hashes: dict):
    """Resolve ``cls.<name>`` to (layers, base body) following the MRO; None if absent."""
    layers: list[tuple[str, str]] = []
    mro = list(cls.__mro__)
    i = 0
    while i < len(mro):
        k = mro[i]
        if name not in k.__dict__:
            i += 1
            continue
        raw = k.__dict__[name]
        if isinstance(raw, (classmethod, staticmethod)):
            raw = raw.__func__
        if getattr(raw, "__isabstractmethod__", False):
            return None
        fn = unwrap(raw, layers)
        node = fn_ast(fn)
        stmts = body_wo_doc(node)
        modname = fn.__module__.rsplit(".", 1)[-1]
        key = (modname, fn.__name__)
        if len(stmts) == 1 and is_super_call(stmts[0], name):
            i += 1  # pure delegation: same semantics as the next definition in the MRO
            continue
        if key not in bodies:
            raise ExtractError(f"unknown handler body {modname}.{fn.__name__}")
        hashes[f"{modname}.{fn.__qualname__}"] = body_hash(fn)
        if stmts and is_super_call(stmts[-1], name):
            layers.append(("pre", bodies[key]))
            i += 1
            continue
        return layers, bodies[key]
    return None


def lean_chain(ch) -> str:
    if ch is None:
        return "none"
    layers, base = ch
    ls = ", ".join(f".wrap .{n}" if kind == "wrap" else f".pre .{n}" for kind, n in layers)
    return f"some ⟨[{ls}], .{base}⟩"


# ----------------------------------------------------------------------------------------------


def lean_str(s: str) -> str:
    return json.dumps(s, ensure_ascii=True).replace("\\u", "\\u")  # ASCII only in practice


def lean_int(n: int) -> str:
    return str(n) if n >= 0 else f"({n})"


def lean_list(xs) -> str:
    return "[" + ", ".join(xs) + "]"


def per_ver(name: str, typ: str, values: dict) -> str:
    lines = [f"def {name} : Ver → {typ}"]
    for _, v, _ in VERS:
        lines.append(f"  | .{v} => {values[v]}")
    return "\n".join(lines)


def python_tables():
    spaces = [cp for cp in range(0x110000) if chr(cp).isspace()]
    zeros = []
    cp = 0
    while cp < 0x110000:
        ch = chr(cp)
        if unicodedata.category(ch) == "Nd":
            if unicodedata.decimal(ch) != 0:
                raise ExtractError(f"Nd block does not start with zero at {cp:#x}")
            for d in range(10):
                c2 = chr(cp + d)
                if unicodedata.category(c2) != "Nd" or unicodedata.decimal(c2) != d:
                    raise ExtractError(f"irregular Nd block at {cp:#x}")
            zeros.append(cp)
            cp += 10
        else:
            cp += 1
    # re-verify against int(): every Nd digit converts to its value, every other char is rejected
    for z in zeros:
        for d in range(10):
            if int(chr(z + d)) != d:
                raise ExtractError("int() disagrees with unicodedata")
    return spaces, zeros


def python_word_ranges():
    """Inclusive code point ranges of the characters `\\w` matches in a `str` pattern (what `re` itself says);
    `\\d` must be exactly the Nd digits of `python_tables` (checked)."""
    import re

    word = re.compile(r"\w")
    digit = re.compile(r"\d")
    ranges: list[list[int]] = []
    for cp in range(0x110000):
        if 0xD800 <= cp <= 0xDFFF:
            continue
        ch = chr(cp)
        if (digit.fullmatch(ch) is not None) != (unicodedata.category(ch) == "Nd"):
            raise ExtractError(f"re \\d disagrees with category Nd at {cp:#x}")
        if word.fullmatch(ch) is not None:
            if ranges and ranges[-1][1] == cp - 1:
                ranges[-1][1] = cp
            else:
                ranges.append([cp, cp])
    return ranges


def field_spec(name, f, fields_mod, nested_name):
    from marshmallow import validate

    kind = None
    if isinstance(f, fields_mod.Bool):
        kind = "bool"
    elif isinstance(f, fields_mod.Int):
        if f.strict:
            raise ExtractError("strict Int field")
        kind = "int"
    elif isinstance(f, fields_mod.Str):
        kind = "str"
    elif isinstance(f, fields_mod.Dict):
        if not isinstance(f.key_field, fields_mod.Int):
            raise ExtractError(f"Dict field {name}: key kind")
        if isinstance(f.value_field, fields_mod.Str):
            kind = "dictIntStr"
        elif isinstance(f.value_field, fields_mod.Nested) and type(f.value_field.schema).__name__ == nested_name:
            kind = "dictIntNested"
        else:
            raise ExtractError(f"Dict field {name}: value kind")
    else:
        raise ExtractError(f"field {name}: kind {type(f).__name__}")
    rng = None
    for v in f.validators:
        if isinstance(v, validate.Range):
            if v.min is None or v.max is None or not v.min_inclusive or not v.max_inclusive:
                raise ExtractError(f"field {name}: open range")
            rng = (int(v.min), int(v.max))
        else:
            raise ExtractError(f"field {name}: validator {type(v).__name__}")
    if f.allow_none:
        raise ExtractError(f"field {name}: allow_none")
    if f.data_key not in (None, name) or f.attribute not in (None, name):
        raise ExtractError(f"field {name}: renamed")
    if f.load_default is not __import__("marshmallow").missing or f.dump_default is not __import__("marshmallow").missing:
        raise ExtractError(f"field {name}: default")
    r = "none" if rng is None else f"some ({lean_int(rng[0])}, {lean_int(rng[1])})"
    return f"⟨{lean_str(name)}, .{kind}, {'true' if f.required else 'false'}, {r}⟩", \
        {"name": name, "kind": kind, "required": bool(f.required), "range": rng}


def extract(repo: str):
    src = os.path.join(repo, "src")
    sys.path.insert(0, src)
    for m in [m for m in sys.modules if m == "aiomysensors" or m.startswith("aiomysensors.")]:
        del sys.modules[m]
    import aiomysensors  # noqa: F401

    if not os.path.realpath(aiomysensors.__file__).startswith(os.path.realpath(src)):
        raise ExtractError(f"imported aiomysensors from {aiomysensors.__file__}, not from {src}")
    from marshmallow import fields as mfields
    from marshmallow import validate

    from aiomysensors import gateway as gw_mod
    from aiomysensors import persistence as pers_mod
    from aiomysensors import transport as tr_mod
    from aiomysensors.model import const as const_mod
    from aiomysensors.model import message as msg_mod
    from aiomysensors.model import node as node_mod
    from aiomysensors.model import protocol as proto_pkg
    from aiomysensors.transport import mqtt as mqtt_mod

    out: list[str] = []
    js: dict = {}
    hashes: dict = {}
    emit = out.append

    # ---- constants
    keys = list(proto_pkg.PROTOCOL_VERSIONS)
    if keys != [k for k, _, _ in VERS]:
        raise ExtractError(f"PROTOCOL_VERSIONS keys {keys}")
    mods = {}
    for k, v, modname in VERS:
        mod = proto_pkg.PROTOCOL_VERSIONS[k]
        if short(mod) != modname or mod.VERSION != k:
            raise ExtractError(f"PROTOCOL_VERSIONS[{k}] is {mod.__name__} VERSION={mod.VERSION}")
        mods[v] = mod
    default = proto_pkg.DEFAULT_PROTOCOL_VERSION
    if default not in keys:
        raise ExtractError("DEFAULT_PROTOCOL_VERSION not a key")
    consts = {
        "maxNodeId": const_mod.MAX_NODE_ID,
        "broadcastId": const_mod.BROADCAST_ID,
        "systemChildId": const_mod.SYSTEM_CHILD_ID,
        "minBattery": const_mod.MIN_BATTERY_LEVEL,
        "maxBattery": const_mod.MAX_BATTERY_LEVEL,
        "saveInterval": pers_mod.SAVE_INTERVAL,
    }
    for n, val in consts.items():
        if not isinstance(val, int):
            raise ExtractError(f"{n} is not an int")
        emit(f"def {n} : Int := {lean_int(val)}")
    js["consts"] = consts
    if len(msg_mod.DELIMITER) != 1 or tr_mod.TERMINATOR != b"\n":
        raise ExtractError("DELIMITER/TERMINATOR")
    emit(f"def delimiter : Char := Char.ofNat {ord(msg_mod.DELIMITER)}")
    emit(f"def terminator : Char := Char.ofNat {tr_mod.TERMINATOR[0]}")
    js["delimiter"] = msg_mod.DELIMITER
    emit(f"def defaultVersion : Ver := .{dict((k, v) for k, v, _ in VERS)[default]}")
    emit(f"def defaultVersionStr : String := {lean_str(default)}")
    vk = []
    for k, v, _ in VERS:
        a, b = k.split(".")
        if f"{int(a)}.{int(b)}" != k:
            raise ExtractError(f"PROTOCOL_VERSIONS key {k!r} is not a canonical major.minor string")
        vk.append(f"(.{v}, {int(a)}, {int(b)})")
    emit(f"/-- `PROTOCOL_VERSIONS` keys as (version, major, minor). -/\ndef versionKeys : List (Ver × Nat × Nat) := {lean_list(vk)}")

    # node id range (NODE_ID_FIELD), ack values, field order
    nf = const_mod.NODE_ID_FIELD
    rngs = [v for v in nf.validators if isinstance(v, validate.Range)]
    if not isinstance(nf, mfields.Int) or len(rngs) != 1 or len(nf.validators) != 1 or not nf.required:
        raise ExtractError("NODE_ID_FIELD shape")
    emit(f"def nodeIdMin : Int := {lean_int(int(rngs[0].min))}\ndef nodeIdMax : Int := {lean_int(int(rngs[0].max))}")
    js["nodeIdRange"] = [int(rngs[0].min), int(rngs[0].max)]
    ms = msg_mod.MessageSchema()
    order = list(ms.fields)
    emit(f"def messageFields : List String := {lean_list([lean_str(f) for f in order])}")
    js["messageFields"] = order
    ack = ms.fields["ack"]
    oneofs = [v for v in ack.validators if isinstance(v, validate.OneOf)]
    if not isinstance(ack, mfields.Int) or len(oneofs) != 1 or len(ack.validators) != 1:
        raise ExtractError("ack field shape")
    emit(f"def ackValues : List Int := {lean_list([lean_int(int(c)) for c in oneofs[0].choices])}")
    js["ackValues"] = [int(c) for c in oneofs[0].choices]
    mt = ms.fields["message_type"]
    if not isinstance(mt, mfields.Int) or mt.validators or mt.strict:
        raise ExtractError("message_type field shape")
    if not isinstance(ms.fields["payload"], mfields.Str) or ms.fields["payload"].validators:
        raise ExtractError("payload field shape")
    if type(ms.fields["child_id"]).__name__ != "ChildIdField" or type(ms.fields["command"]).__name__ != "CommandField":
        raise ExtractError("child_id/command field classes")
    for f in order:
        if not ms.fields[f].required:
            raise ExtractError(f"message field {f} not required")

    # ---- per version tables
    def enum_table(enum):
        # value -> canonical member name (aliases resolve to the canonical member)
        seen = {}
        for member in enum:  # iteration yields canonical members only
            seen[int(member.value)] = member.name
        return seen

    tabs: dict = {k: {} for k in ["commandValues", "commandNames", "internalCommand", "nodeIdRequestTypes",
                                  "strictSystemCommands", "validSystemCommands", "internalTypes", "streamTypes"]}
    js["versions"] = {}
    for k, v, _ in VERS:
        mod = mods[v]
        cmd = enum_table(mod.Command)
        internal = enum_table(mod.Internal)
        stream = enum_table(mod.Stream)
        tabs["commandValues"][v] = lean_list([lean_int(x) for x in cmd])
        tabs["commandNames"][v] = lean_list([f"({lean_int(x)}, {lean_str(n)})" for x, n in cmd.items()])
        tabs["internalCommand"][v] = lean_int(int(mod.INTERNAL_COMMAND_TYPE))
        tabs["nodeIdRequestTypes"][v] = lean_list([lean_int(int(x)) for x in sorted(mod.NODE_ID_REQUEST_TYPES)])
        tabs["strictSystemCommands"][v] = lean_list([lean_int(int(x)) for x in sorted(mod.STRICT_SYSTEM_COMMAND_TYPES)])
        tabs["validSystemCommands"][v] = lean_list([lean_int(int(x)) for x in sorted(mod.VALID_SYSTEM_COMMAND_TYPES)])
        tabs["internalTypes"][v] = lean_list([f"({lean_int(x)}, {lean_str(n.lower())})" for x, n in internal.items()])
        tabs["streamTypes"][v] = lean_list([f"({lean_int(x)}, {lean_str(n.lower())})" for x, n in stream.items()])
        js["versions"][k] = {
            "commands": {str(x): n for x, n in cmd.items()},
            "internal": {str(x): n for x, n in internal.items()},
            "internal_all_names": {n: int(m.value) for n, m in mod.Internal.__members__.items()},
            "stream": {str(x): n for x, n in stream.items()},
            "internalCommand": int(mod.INTERNAL_COMMAND_TYPE),
            "nodeIdRequestTypes": sorted(int(x) for x in mod.NODE_ID_REQUEST_TYPES),
            "strictSystemCommands": sorted(int(x) for x in mod.STRICT_SYSTEM_COMMAND_TYPES),
            "validSystemCommands": sorted(int(x) for x in mod.VALID_SYSTEM_COMMAND_TYPES),
            "presentation": {str(int(m.value)): m.name for m in mod.Presentation},
            "setreq": {str(int(m.value)): m.name for m in mod.SetReq},
        }
    emit(per_ver("commandValues", "List Int", tabs["commandValues"]))
    emit(per_ver("commandNames", "List (Int × String)", tabs["commandNames"]))
    emit(per_ver("internalCommand", "Int", tabs["internalCommand"]))
    emit(per_ver("nodeIdRequestTypes", "List Int", tabs["nodeIdRequestTypes"]))
    emit(per_ver("strictSystemCommands", "List Int", tabs["strictSystemCommands"]))
    emit(per_ver("validSystemCommands", "List Int", tabs["validSystemCommands"]))
    emit("/-- `Internal` enum: value ↦ canonical member name, lower-cased (the handler suffix). -/")
    emit(per_ver("internalTypes", "List (Int × String)", tabs["internalTypes"]))
    emit(per_ver("streamTypes", "List (Int × String)", tabs["streamTypes"]))

    # names the 1.4 module-level code refers to (wrapper and handlers use protocol_14's own enums)
    p14 = mods["v14"]
    p20 = mods["v20"]
    named = {
        "cmdPresentation": int(p14.Command.presentation), "cmdSet": int(p14.Command.set),
        "cmdReq": int(p14.Command.req), "cmdInternal": int(p14.Command.internal),
        "cmdStream": int(p14.Command.stream),
        "iVersion": int(p14.Internal.I_VERSION), "iIdResponse": int(p14.Internal.I_ID_RESPONSE),
        "iLogMessage": int(p14.Internal.I_LOG_MESSAGE), "iGatewayReady": int(p14.Internal.I_GATEWAY_READY),
        "iReboot": int(p14.Internal.I_REBOOT),
        "iPresentation": int(p20.Internal.I_PRESENTATION), "iDiscover": int(p20.Internal.I_DISCOVER),
        "sArduinoNode": int(p14.Presentation.S_ARDUINO_NODE),
    }
    for n, val in named.items():
        emit(f"def {n} : Int := {lean_int(val)}")
    js["named"] = named

    # ---- handler chains
    cmd_chain = {}
    int_chain = {}
    str_chain = {}
    out_chain = {}
    js["chains"] = {}
    for k, v, _ in VERS:
        mod = mods[v]
        inc = mod.IncomingMessageHandler
        outc = mod.OutgoingMessageHandler
        cc, ic, sc, oc = [], [], [], []
        jc = {"command": {}, "internal": {}, "stream": {}, "out": {}}
        for val, name in enum_table(mod.Command).items():
            ch = resolve_chain(inc, f"handle_{name}", BODIES, hashes)
            if ch is None:
                raise ExtractError(f"{k}: no incoming handler for command {name}")
            cc.append(f"({lean_int(val)}, {lean_chain(ch)[5:]})")
            jc["command"][str(val)] = ch
            och = resolve_chain(outc, f"handle_{name}", OUT_BODIES, hashes)
            if och is None:
                oc.append(f"({lean_int(val)}, none)")
                jc["out"][str(val)] = None
            else:
                if och[0]:
                    raise ExtractError(f"{k}: wrapped outgoing handler for {name}")
                oc.append(f"({lean_int(val)}, some .{och[1]})")
                jc["out"][str(val)] = och[1]
        for val, name in enum_table(mod.Internal).items():
            ch = resolve_chain(inc, f"handle_{name.lower()}", BODIES, hashes)
            ic.append(f"({lean_int(val)}, {lean_chain(ch)})")
            jc["internal"][str(val)] = ch
        for val, name in enum_table(mod.Stream).items():
            ch = resolve_chain(inc, f"handle_{name.lower()}", BODIES, hashes)
            sc.append(f"({lean_int(val)}, {lean_chain(ch)})")
            jc["stream"][str(val)] = ch
        cmd_chain[v] = lean_list(cc)
        int_chain[v] = lean_list(ic)
        str_chain[v] = lean_list(sc)
        out_chain[v] = lean_list(oc)
        js["chains"][k] = jc
    emit("/-- Resolved incoming handler per command value. -/")
    emit(per_ver("commandChains", "List (Int × Chain)", cmd_chain))
    emit("/-- Resolved `handle_<internal name>` per internal type (none: no special handling). -/")
    emit(per_ver("internalChains", "List (Int × Option Chain)", int_chain))
    emit(per_ver("streamChains", "List (Int × Option Chain)", str_chain))
    emit("/-- Outgoing handler per command value (none: no such attribute). -/")
    emit(per_ver("outgoingHandlers", "List (Int × Option OutBody)", out_chain))

    # the node-0 presentation path calls cls.handle_i_version directly
    direct = {}
    for k, v, _ in VERS:
        ch = resolve_chain(mods[v].IncomingMessageHandler, "handle_i_version", BODIES, hashes)
        direct[v] = lean_chain(ch)
    emit(per_ver("versionHandlerChain", "Option Chain", direct))
    # the sleep-buffer flush helper
    for k, v, _ in VERS[2:]:
        f = mods[v].IncomingMessageHandler.__dict__.get("_handle_sleep_buffer")
        if v == "v20" and f is None:
            raise ExtractError("protocol_20._handle_sleep_buffer missing")
        if v != "v20" and f is not None:
            raise ExtractError(f"{k} overrides _handle_sleep_buffer")

    # ---- message_buffer= flags
    inc14 = mods["v14"].IncomingMessageHandler
    inc20 = mods["v20"].IncomingMessageHandler

    def rawfn(cls, name):
        f = cls.__dict__[name]
        f = f.__func__ if isinstance(f, (classmethod, staticmethod)) else f
        return unwrap(f, [])

    sites = {
        "bufVersionQuery": (mods["v14"].handle_missing_protocol_version, 1),
        "bufPresentationRequest": (p20.handle_missing_node_child, 1),
        "bufReboot": (rawfn(inc14, "handle_set"), 1),
        "bufReqReply": (rawfn(inc14, "handle_req"), 1),
        "bufIdResponse": (rawfn(inc14, "handle_i_id_request"), 1),
        "bufConfig": (rawfn(inc14, "handle_i_config"), 1),
        "bufTime": (rawfn(inc14, "handle_i_time"), 1),
        "bufDiscover": (rawfn(inc20, "handle_i_gateway_ready"), 1),
        "bufFlush": (rawfn(inc20, "_handle_sleep_buffer"), 1),
    }
    js["sendFlags"] = {}
    for n, (fn, cnt) in sites.items():
        flags = send_flags(fn)
        if len(flags) != cnt:
            raise ExtractError(f"{n}: expected {cnt} gateway.send call(s), found {len(flags)}")
        emit(f"def {n} : Bool := {'true' if flags[0] else 'false'}")
        js["sendFlags"][n] = flags[0]
        hashes[f"{fn.__module__.rsplit('.', 1)[-1]}.{fn.__qualname__}"] = body_hash(fn)
    # no other handler body sends
    for (modname, fname), body in BODIES.items():
        cls = mods[{"protocol_14": "v14", "protocol_20": "v20", "protocol_22": "v22"}[modname]].IncomingMessageHandler
        fn = rawfn(cls, fname)
        n = len(send_flags(fn))
        expected = 1 if fn in [s[0] for s in sites.values()] else 0
        if n != expected:
            raise ExtractError(f"{modname}.{fname}: {n} gateway.send call(s), expected {expected}")

    # ---- except tuples
    st = tr_mod.StreamTransport
    mc = mqtt_mod.MQTTClient
    exc_sites = {
        "excListen": (gw_mod.Gateway.listen, [1]),
        "excSend": (gw_mod.Gateway.send, [1]),
        "excChildId": (msg_mod.validate_child_id, [1, 1]),
        "excBattery": (rawfn(inc14, "handle_i_battery_level"), None),
        "excVersion": (rawfn(inc14, "handle_i_version"), None),
        "excHeartbeat20": (rawfn(inc20, "handle_i_heartbeat_response"), None),
        "excHeartbeat22": (rawfn(mods["v22"].IncomingMessageHandler, "handle_i_heartbeat_response"), None),
        "excMissingNC": (p20.handle_missing_node_child, None),
        "excPersistLoad": (pers_mod.Persistence.load, None),
        "excPersistSave": (pers_mod.Persistence.save, None),
        "excPersistStart": (pers_mod.Persistence.start, None),
        "excStreamConnect": (st.connect, None),
        "excStreamDisconnect": (st.disconnect, None),
        "excStreamRead": (st.read, None),
        "excStreamWrite": (st.write, None),
        "excMqttConnect": (mc._connect, None),
        "excMqttDisconnect": (mc._disconnect, None),
        "excMqttPublish": (mc._publish, None),
        "excMqttSubscribe": (mc._subscribe, None),
        "excMqttIncoming": (mc._handle_incoming, None),
    }
    js["except"] = {}
    _SITE_FUNCS[:] = [getattr(fn, "__func__", fn) for fn, _ in exc_sites.values()]
    for n, (fn, _) in exc_sites.items():
        # `Persistence.load`: the persistence model reads its clauses by position (0: create the file, 1: read error,
        # 2: the restore loop's), so adjacent clauses with the same body count as one
        tuples = except_tuples(fn, merge_same_action=(n == "excPersistLoad"))
        if n == "excMissingNC":
            # this clause names library errors, which the model keeps in a separate type
            if len(tuples) != 1:
                raise ExtractError("excMissingNC: expected one except clause")
            emit(f"def {n} : List String := " + lean_list([lean_str(c) for c in tuples[0]]))
            js["except"][n] = tuples
            continue
        for t in tuples:
            for c in t:
                if c not in PYEXN:
                    raise ExtractError(f"{n}: exception class {c} outside the vocabulary")
        emit(f"def {n} : List (List PyExn) := " + lean_list([lean_list([f".{c}" for c in t]) for t in tuples]))
        js["except"][n] = tuples

    # StreamTransport.read: its `try` statements in source order, each with its clauses (classes, library error raised).
    # The stream model maps exceptions through THESE blocks, so merging or reordering clauses with the same effect
    # regenerates to tables under which the model and its theorems still say the same thing.
    def raise_name(h):
        body = [b for b in h.body if not (isinstance(b, ast.Expr) and isinstance(getattr(b, "value", None), ast.Constant))]
        if len(body) == 1 and isinstance(body[0], ast.Raise) and body[0].exc is not None:
            e = body[0].exc
            if isinstance(e, ast.Call) and isinstance(e.func, ast.Name):
                return e.func.id
            if isinstance(e, ast.Name):
                return e.id
        return "other"

    def handler_classes(h):
        t = h.type
        if t is None:
            return ["BaseException"]
        elts = t.elts if isinstance(t, ast.Tuple) else [t]
        out = []
        for e in elts:
            name = e.id if isinstance(e, ast.Name) else (e.attr if isinstance(e, ast.Attribute) else None)
            if name is None:
                raise ExtractError("except clause with a computed class")
            out.append(name)
        return out

    # The blocks say something only while `read` keeps the shape the stream translator understands (guards followed by
    # top-level `try` statements): a clause that moved into a context manager or into a helper is invisible to this
    # walk, and the table would then MISREPRESENT the code (the model would stop mapping OSError although the code
    # still does).  Outside that shape the table is taken from its committed snapshot (tools/tables_snapshot.json) —
    # exactly when tools/translate.py writes `read` from ITS snapshot, so `StreamBodiesEq.readClauses*_table` keeps
    # comparing like with like — and `read` is tied by C17's correspondence run alone (DESIGN 13, false alarm 13).
    read_fn = getattr(st.read, "__func__", st.read)
    js["snapshot"] = []
    blocks = []
    if _stream_read_in_subset(read_fn):
        for node in fn_ast(read_fn).body:
            if isinstance(node, ast.Try):
                block = []
                for h in node.handlers:
                    cs = handler_classes(h)
                    for c in cs:
                        if c not in PYEXN:
                            raise ExtractError(f"excStreamReadBlocks: exception class {c} outside the vocabulary")
                    block.append((cs, raise_name(h)))
                blocks.append(block)
    else:
        blocks = [[(list(cs), nm) for cs, nm in b] for b in _tables_snapshot()["excStreamReadBlocks"]]
        js["snapshot"].append("excStreamReadBlocks")
    emit("def excStreamReadBlocks : List (List (List PyExn × String)) := " + lean_list(
        [lean_list(["(" + lean_list([f".{c}" for c in cs]) + ", " + lean_str(nm) + ")" for cs, nm in b]) for b in blocks]))
    js["except"]["excStreamReadBlocks"] = [[[cs, nm] for cs, nm in b] for b in blocks]

    # Persistence.start: which classes are caught AROUND the saver's `asyncio.sleep` and AROUND `await task` in
    # cancel_save — located by what they protect, not by their position among the function's clauses, so that adding,
    # removing or merging an unrelated clause does not make the lifecycle model read the wrong one.
    def guards_around(fn, pred):
        tree = fn_ast(getattr(fn, "__func__", fn))
        parents = {}
        for par in ast.walk(tree):
            for fld, val in ast.iter_fields(par):
                for ch in (val if isinstance(val, list) else [val]):
                    if isinstance(ch, ast.AST):
                        parents[ch] = (par, fld)
        target = next((n for n in ast.walk(tree) if pred(n, tree)), None)
        if target is None:
            return None
        out, cur = [], target
        while cur in parents:
            par, fld = parents[cur]
            if isinstance(par, ast.Try) and fld == "body":
                for h in par.handlers:
                    out += handler_classes(h)
            if isinstance(par, (ast.With, ast.AsyncWith)) and fld == "body":
                for it in par.items:
                    ce = it.context_expr
                    if isinstance(ce, ast.Call) and (getattr(ce.func, "attr", None) == "suppress" or getattr(ce.func, "id", None) == "suppress"):
                        for a in ce.args:
                            out += handler_classes(ast.ExceptHandler(type=a))
            if isinstance(par, (ast.FunctionDef, ast.AsyncFunctionDef)):
                break
            cur = par
        return out

    def is_sleep(n, _tree):
        return (isinstance(n, ast.Await) and isinstance(n.value, ast.Call)
                and (getattr(n.value.func, "attr", None) == "sleep" or getattr(n.value.func, "id", None) == "sleep"))

    def is_await_cancelled_task(n, tree):
        if not (isinstance(n, ast.Await) and isinstance(n.value, ast.Name)):
            return False
        return any(isinstance(c, ast.Call) and isinstance(c.func, ast.Attribute) and c.func.attr == "cancel"
                   and isinstance(c.func.value, ast.Name) and c.func.value.id == n.value.id for c in ast.walk(tree))

    # The two awaits are looked for in `start` itself (closures included) and in the private helpers of the class or
    # module that `start` CALLS OR MENTIONS (`create_task(self._run_saver())`, `partial(self._cancel_saver, task)`, a
    # lambda, ...), two levels deep: where the saver and the cancel callback live is not behaviour.  If neither is
    # found the table keeps its committed snapshot value (tools/tables_snapshot.json) instead of a positional guess that
    # could misrepresent the code, and C16's correspondence run alone ties the clause (DESIGN 13, false alarm 15).
    def reachable_from(fn, depth=2):
        seen, todo = [fn], [(fn, 0)]
        while todo:
            f, d = todo.pop(0)
            if d >= depth:
                continue
            try:
                tree = fn_ast(getattr(f, "__func__", f))
            except (OSError, TypeError, ExtractError):
                continue
            for n in ast.walk(tree):
                if isinstance(n, (ast.Attribute, ast.Name)):
                    h = _resolve_helper(n, getattr(f, "__func__", f))
                    if h is not None and not any(h is x for x in seen):
                        seen.append(h)
                        todo.append((h, d + 1))
        return seen

    start_fns = reachable_from(pers_mod.Persistence.start)
    for name, pred in (("excPersistStartSleep", is_sleep), ("excPersistStartAwait", is_await_cancelled_task)):
        cs = None
        for f in start_fns:
            cs = guards_around(f, pred)
            if cs is not None:
                break
        if cs is None:
            cs = list(_tables_snapshot()[name])
            js["snapshot"].append(name)
        for c in cs:
            if c not in PYEXN:
                raise ExtractError(f"{name}: exception class {c} outside the vocabulary")
        emit(f"def {name} : List PyExn := " + lean_list([f".{c}" for c in cs]))
        js["except"][name] = cs

    # subclass relation over the vocabulary, from the live classes
    import asyncio
    import marshmallow
    from aiomqtt import MqttError
    from awesomeversion.exceptions import AwesomeVersionCompareException, AwesomeVersionException

    live = {
        "KeyError": KeyError, "ValueError": ValueError, "TypeError": TypeError, "AttributeError": AttributeError,
        "OverflowError": OverflowError, "RecursionError": RecursionError, "UnicodeDecodeError": UnicodeDecodeError,
        "JSONDecodeError": json.JSONDecodeError, "OSError": OSError, "FileNotFoundError": FileNotFoundError,
        "ValidationError": marshmallow.ValidationError, "AwesomeVersionException": AwesomeVersionException,
        "AwesomeVersionCompareException": AwesomeVersionCompareException,
        "LimitOverrunError": asyncio.LimitOverrunError, "IncompleteReadError": asyncio.IncompleteReadError,
        "CancelledError": asyncio.CancelledError, "MqttError": MqttError, "RuntimeError": RuntimeError,
        "IndexError": IndexError, "Exception": Exception,
    }
    rows = []
    js["subclass"] = {}
    for c in PYEXN:
        sup = [d for d in PYEXN if issubclass(live[c], live[d])]
        rows.append(f"(.{c}, {lean_list(['.' + d for d in sup])})")
        js["subclass"][c] = sup
    emit("/-- For each class of the vocabulary, the vocabulary classes it is a subclass of. -/")
    emit(f"def pyExnSupers : List (PyExn × List PyExn) := {lean_list(rows)}")

    # ---- library exception hierarchy: every public error derives from the base class
    from aiomysensors import exceptions as exc_mod

    base = exc_mod.AIOMySensorsError
    libs = {}
    for n, c in vars(exc_mod).items():
        if isinstance(c, type) and issubclass(c, Exception) and c.__module__ == exc_mod.__name__:
            libs[n] = issubclass(c, base)
    emit(f"def libErrorsDeriveFromBase : Bool := {'true' if all(libs.values()) else 'false'}")
    js["libErrors"] = libs

    # ---- persistence schemas
    ns, cs = node_mod.NodeSchema(), node_mod.ChildSchema()
    js["schema"] = {}
    for lname, sch, nested in [("nodeSchema", ns, "ChildSchema"), ("childSchema", cs, "-")]:
        specs, jspecs = [], []
        for fname, f in sch.fields.items():
            s, j = field_spec(fname, f, mfields, nested)
            specs.append(s)
            jspecs.append(j)
        emit(f"def {lname} : List FieldSpec := {lean_list(specs)}")
        js["schema"][lname] = jspecs
        if sch.unknown != "raise":
            raise ExtractError(f"{lname}: unknown={sch.unknown}")

    # ---- MQTT subscription patterns (AST of MQTTTransport.connect)
    topics = None
    for node in ast.walk(fn_ast(mqtt_mod.MQTTTransport.connect)):
        if isinstance(node, ast.Assign) and len(node.targets) == 1 and getattr(node.targets[0], "id", None) == "topics":
            topics = [e.value for e in node.value.elts]
    if topics is None or not all(isinstance(t, str) for t in topics):
        raise ExtractError("MQTT topics list")
    emit(f"def mqttPartialTopics : List String := {lean_list([lean_str(t) for t in topics])}")
    js["mqttPartialTopics"] = topics

    # ---- Python runtime tables
    spaces, zeros = python_tables()
    emit("/-- Code points with `str.isspace()` (what `rstrip()` and `int()` strip). -/")
    emit(f"def pySpaces : List Nat := {lean_list([str(c) for c in spaces])}")
    emit("/-- First code point of every block of ten decimal digits (category Nd). -/")
    emit(f"def pyDecimalZeros : List Nat := {lean_list([str(c) for c in zeros])}")
    emit(f"def pyMaxStrDigits : Nat := {sys.get_int_max_str_digits()}")
    words = python_word_ranges()
    emit("/-- Inclusive code point ranges matched by `\\w` in a `str` regular expression (awesomeversion's CalVer pattern). -/")
    emit(f"def pyWordRanges : List (Nat × Nat) := {lean_list([f'({a}, {b})' for a, b in words])}")
    js["py"] = {"spaces": spaces, "zeros": zeros, "maxStrDigits": sys.get_int_max_str_digits(),
                "unidata": unicodedata.unidata_version}
    js["bodyHashes"] = hashes
    return out, js


HEADER = """/-
GENERATED by tools/extract.py from the aiomysensors working tree — do not edit.
Regenerated on every check run; rewritten only when its content changes.
-/
import AioMySensors.Model.Vocab

namespace AioMySensors.Gen
open AioMySensors

"""


def main() -> int:
    ap = argparse.ArgumentParser()
    ap.add_argument("--repo", default="/repo")
    ap.add_argument("--out", required=True)
    ap.add_argument("--json", required=True)
    ap.add_argument("--update-snapshot", action="store_true",
                    help="rewrite tools/tables_snapshot.json from this tree (together with translate.py --update-snapshot)")
    args = ap.parse_args()
    try:
        lines, js = extract(args.repo)
    except ExtractError as err:
        print(f"EXTRACT-FAILED: {err}")
        return 3
    except Exception as err:  # noqa: BLE001  import errors, attribute errors: the tree has changed shape
        print(f"EXTRACT-FAILED: {type(err).__name__}: {err}")
        return 3
    text = HEADER + "\n\n".join(lines) + "\n\nend AioMySensors.Gen\n"
    old = None
    if os.path.exists(args.out):
        with open(args.out, encoding="utf-8") as f:
            old = f.read()
    changed = old != text
    if changed:
        os.makedirs(os.path.dirname(args.out), exist_ok=True)
        with open(args.out + ".tmp", "w", encoding="utf-8") as f:
            f.write(text)
        os.replace(args.out + ".tmp", args.out)
    if os.path.exists(args.json) and not os.path.isfile(args.json):
        # a device (e.g. /dev/null, "do not keep the JSON"): write through it, never replace it
        with open(args.json, "w", encoding="utf-8") as f:
            json.dump(js, f, indent=1, sort_keys=True)
    else:
        with open(args.json + ".tmp", "w", encoding="utf-8") as f:
            json.dump(js, f, indent=1, sort_keys=True)
        os.replace(args.json + ".tmp", args.json)
    snap = js.get("snapshot") or []
    if args.update_snapshot and not snap:
        with open(os.path.join(os.path.dirname(os.path.abspath(__file__)), "tables_snapshot.json"), "w", encoding="utf-8") as f:
            json.dump({k: js["except"][k] for k in ("excStreamReadBlocks", "excPersistStartSleep", "excPersistStartAwait")}, f, indent=1)
    print(f"EXTRACT-OK changed={'yes' if changed else 'no'} sha={hashlib.sha1(text.encode()).hexdigest()[:12]}"
          + (f" snapshot={','.join(snap)}" if snap else ""))
    return 0


if __name__ == "__main__":
    sys.exit(main())
