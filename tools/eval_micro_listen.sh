#!/bin/sh
# tools/eval_micro_listen.sh — the tie 'listen' (tools/translate_listen.py, Lemmas/GatewayBodiesEq.lean) against
#  * behaviour-preserving rewrites of Gateway.listen / Gateway.send / the two handler lookups
#    (seeded/micro-refactors/m3[0-9]_*.diff): every equality must still check (or the function falls back to its snapshot);
#  * behaviour-changing edits of the same functions (seeded/tie-listen-edits/b*.diff): each must break an equality or
#    leave the translatable subset (then the correspondence run is what catches it).
cd "$(dirname "$0")/.." || exit 2
C=/root/work/micro_repo_listen
OUT=lean/AioMySensors/Generated/GatewayBodies.lean
rm -rf "$C"; mkdir -p "$C"; (cd /repo && git archive HEAD) | tar -x -C "$C"
(cd "$C" && git init -q && git add -A >/dev/null 2>&1 && git -c user.email=x@x -c user.name=x commit -qm base >/dev/null)
for d in seeded/micro-refactors/m3[0-9]_*.diff seeded/tie-listen-edits/b*.diff; do
  git -C "$C" checkout -q -- .; git -C "$C" apply "$(pwd)/$d" || { echo "$d: does not apply"; continue; }
  t=$(/venv/bin/python tools/translate_listen.py --repo "$C" --out $OUT --snapshot tools/snap_listen.json | tail -1 | cut -c1-160)
  if (cd lean && lake build AioMySensors.Lemmas.GatewayBodiesEq >/tmp/micro_listen.log 2>&1); then r="equalities hold"
  else r="EQUALITY BROKEN: $(grep -o 'GatewayBodiesEq.lean:[0-9]*' /tmp/micro_listen.log | sort -u | tr '\n' ' ')"; fi
  echo "$(basename "$d" .diff): $t -> $r"
done
rm -rf "$C" /tmp/micro_listen.log
/venv/bin/python tools/translate_listen.py --repo /repo --out $OUT --snapshot tools/snap_listen.json | tail -1
(cd lean && lake build AioMySensors.Lemmas.GatewayBodiesEq 2>&1 | tail -1)
