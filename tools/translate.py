#!/venv/bin/python
"""The body translator: Python handler bodies of the working tree -> Lean definitions.

For every handler body the model knows (tools/extract.py: BODIES), both decorators, the sleep-buffer release
loop, the outgoing handlers, the `protocol_version` setter and the two `Node` methods the handlers call, the
function's AST is compiled statement by statement into a Lean term over the object-level vocabulary of
`lean/AioMySensors/Model/Lit.lean` (one primitive per Python operation on the gateway's objects, raising what
Python raises).  The result is `lean/AioMySensors/Generated/Bodies.lean`; `Lemmas/BodiesEq.lean` proves each
generated definition equal to the hand-written handler the property theorems speak about, so `lake build`
re-checks on every run that the model's handlers are what the code says now.

The compiler covers the subset of Python these functions are written in.  A statement or expression outside
that subset makes the *function* untranslatable: its definition is then taken from the committed snapshot
(`tools/bodies_snapshot.json`), it is listed in the output (`untranslatable`), and that body is tied to the code
by the correspondence run alone.  That is not an alarm.

Ignored on purpose (not behaviour under any property): docstrings, `LOGGER.*(...)` statements, annotations,
the text and arguments of exception messages, `from err` causes.
"""
from __future__ import annotations

import argparse
import ast
import importlib
import inspect
import json
import os
import sys
import textwrap


class Untranslatable(Exception):
    pass


def fn_ast(fn):
    src = textwrap.dedent(inspect.getsource(fn))
    node = ast.parse(src).body[0]
    if not isinstance(node, (ast.AsyncFunctionDef, ast.FunctionDef)):
        raise Untranslatable(f"not a function: {fn}")
    return node


def strip(stmts):
    """Drop docstrings and logging statements."""
    out = []
    for i, s in enumerate(stmts):
        if isinstance(s, ast.Expr) and isinstance(s.value, ast.Constant) and isinstance(s.value.value, str):
            continue
        if isinstance(s, ast.Expr) and isinstance(s.value, ast.Call):
            f = s.value.func
            if isinstance(f, ast.Attribute) and isinstance(f.value, ast.Name) and f.value.id in ("LOGGER", "_LOGGER", "logger"):
                continue
        out.append(s)
    return out


def lean_int(n: int) -> str:
    return f"({n} : Int)" if n >= 0 else f"(-{-n} : Int)"


def lean_str(s: str) -> str:
    if not s:
        return "([] : Str)"
    return "([" + ", ".join(f"Char.ofNat {ord(c)}" for c in s) + "] : Str)"


LEAN_RESERVED = set("""
fun at do then else if let have show from in with match end open section namespace variable universe example theorem def
instance structure inductive class where deriving extends mutual private protected partial unsafe noncomputable local scoped
attribute export import macro syntax notation prefix infix infixl infixr postfix by calc this Type Sort Prop axiom abbrev opaque
omit include using forall exists nomatch nofun return mut for unless break continue try catch finally throw initialize elab
suffices sorry admit native_decide implemented_by termination_by decreasing_by set_option macro_rules
""".split())
# names the translator itself binds in the generated text
TRANSLATOR_NAMES = set("m env v w e r n s st inner kb buffer limit fault line decodeUtf8 c".split())


def lean_ident(name: str) -> str:
    """The Lean binder for a Python local: the name itself, unless Lean reserves it or the translator binds it (a local
    called `m` must not capture the handler's message `m`; one called `end` must not end the namespace)."""
    import re
    if name in LEAN_RESERVED or name in TRANSLATOR_NAMES or re.fullmatch(r"(m|x|c|n|k|on|o|e|ch|pv|raw|q|u|init|last)\d+", name) \
            or not re.fullmatch(r"[A-Za-z_][A-Za-z0-9_]*", name) or name == "_":
        return "py_" + "".join(ch if ch.isalnum() or ch == "_" else "_" for ch in name)
    return name


LIB_ERRORS = {
    "MissingNodeError": lambda a: f"(.lib (.missingNode {a[0]}))",
    "MissingChildError": lambda a: f"(.lib (.missingChild {a[0]}))",
    "TooManyNodesError": lambda a: "(.lib .tooManyNodes)",
    "InvalidMessageError": lambda a: "(.lib .invalidMessage)",
    "UnsupportedMessageError": lambda a: "(.lib .unsupported)",
}
LIB_ERR_CTOR = {
    "InvalidMessageError": ".invalidMessage",
    "UnsupportedMessageError": ".unsupported",
    "TooManyNodesError": ".tooManyNodes",
}
PYEXN = ["KeyError", "ValueError", "TypeError", "AttributeError", "OverflowError", "RecursionError",
         "UnicodeDecodeError", "JSONDecodeError", "OSError", "FileNotFoundError", "ValidationError",
         "AwesomeVersionException", "AwesomeVersionCompareException", "LimitOverrunError",
         "IncompleteReadError", "CancelledError", "MqttError", "RuntimeError", "IndexError", "Exception"]
MSG_FIELDS = {"node_id": ("node", "int"), "child_id": ("child", "int"), "command": ("cmd", "int"),
              "ack": ("ack", "int"), "message_type": ("type", "int"), "payload": ("payload", "str")}
NODE_ATTRS = {"battery_level": ("battery", "int"), "sketch_name": ("sketchName", "str"),
              "sketch_version": ("sketchVersion", "str"), "heartbeat": ("heartbeat", "int"),
              "sleeping": ("sleeping", "bool"), "reboot": ("reboot", "bool"), "node_type": ("ntype", "int"),
              "protocol_version": ("pv", "str")}


class Tr:
    """Compiler state for one function."""

    def __init__(self, fn, kind: str, params: dict):
        self.fn = fn
        self.globals = fn.__globals__
        self.kind = kind                    # 'msg' (returns the message) | 'unit'
        self.env = dict(params)             # python local -> (lean text, type)
        self.n = 0
        self.uses_env = False
        self.uses_v = False
        self.exc_var = None                 # lean name of the exception inside an except clause
        self.optkey = {}                    # local bound to `gateway.nodes.get(K)` -> lean text of K
        self.in_loop = False

    def fresh(self, base: str) -> str:
        self.n += 1
        return f"{base}{self.n}"

    # ---- constants -------------------------------------------------------------------------
    def const(self, node):
        """Evaluate a Name/Attribute chain in the function's globals (enum members, module constants)."""
        cur = node
        while isinstance(cur, ast.Attribute):
            cur = cur.value
        if not isinstance(cur, ast.Name) or cur.id in self.env or cur.id not in self.globals:
            return None
        if cur.id in ("gateway", "message", "cls", "self", "message_buffer"):
            return None
        try:
            val = eval(compile(ast.Expression(node), "<const>", "eval"), self.globals)  # noqa: S307
        except Exception:  # noqa: BLE001
            return None
        if isinstance(val, bool):
            return ("true" if val else "false", "bool")
        if isinstance(val, int):
            return (lean_int(int(val)), "int")
        if isinstance(val, str):
            return (lean_str(val), "str")
        return None

    # ---- expressions -----------------------------------------------------------------------
    def expr(self, node):
        """-> (pre, text, type); pre = [(var, monadic lean term)] to bind before, in order."""
        if isinstance(node, ast.Constant):
            v = node.value
            if isinstance(v, bool):
                return [], "true" if v else "false", "bool"
            if isinstance(v, int):
                return [], lean_int(v), "int"
            if isinstance(v, str):
                return [], lean_str(v), "str"
            if v is None:
                return [], "none", "none"
            raise Untranslatable(f"constant {v!r}")
        c = self.const(node) if isinstance(node, (ast.Name, ast.Attribute)) else None
        if c is not None:
            return [], c[0], c[1]
        if isinstance(node, ast.Name):
            if node.id in self.env:
                t, ty = self.env[node.id]
                return [], t, ty
            raise Untranslatable(f"name {node.id}")
        if isinstance(node, ast.Attribute):
            return self.attribute(node)
        if isinstance(node, ast.Subscript):
            return self.subscript(node)
        if isinstance(node, ast.Call):
            return self.call(node)
        if isinstance(node, ast.Compare):
            return self.compare(node)
        if isinstance(node, ast.BoolOp):
            return self.boolop(node)
        if isinstance(node, ast.UnaryOp) and isinstance(node.op, ast.Not):
            pre, t, ty = self.truth(node.operand)
            return pre, f"(!{t})", "bool"
        if isinstance(node, ast.UnaryOp) and isinstance(node.op, ast.USub):
            pre, t, ty = self.expr(node.operand)
            if ty != "int":
                raise Untranslatable("unary minus on non-int")
            return pre, f"(-{t})", "int"
        if isinstance(node, ast.BinOp) and isinstance(node.op, ast.Add) and isinstance(node.left, ast.Constant) \
                and node.left.value == "handle_":
            return self.handler_name(node)
        if isinstance(node, ast.BinOp) and isinstance(node.op, (ast.Add, ast.Sub)):
            p1, a, ta = self.expr(node.left)
            p2, b, tb = self.expr(node.right)
            if ta != "int" or tb != "int":
                raise Untranslatable("arithmetic on non-int")
            op = "+" if isinstance(node.op, ast.Add) else "-"
            return p1 + p2, f"({a} {op} {b})", "int"
        if isinstance(node, ast.IfExp):
            pt, t, _ = self.truth(node.test)
            pa, a, ta = self.expr(node.body)
            pb, b, tb = self.expr(node.orelse)
            if ta != tb:
                raise Untranslatable("conditional expression of two types")
            if not pa and not pb:
                return pt, f"(if {t} then {a} else {b})", ta
            # effectful branches: evaluate the chosen one only
            v = self.fresh("x")
            m = f"(if {t} then {self.wrap(pa, f'pure {a}')} else {self.wrap(pb, f'pure {b}')})"
            return pt + [(v, m)], v, ta
        if isinstance(node, ast.Tuple):
            parts = [self.expr(e) for e in node.elts]
            if any(p[0] for p in parts) or any(p[2] != "int" for p in parts):
                raise Untranslatable("tuple of non-constants")
            if len(parts) == 3:
                return [], "(" + ", ".join(p[1] for p in parts) + ")", "key"
            return [], "[" + ", ".join(p[1] for p in parts) + "]", "intlist"
        if isinstance(node, ast.Await):
            return self.expr(node.value)
        if isinstance(node, ast.JoinedStr):
            return self.handler_name(node)
        raise Untranslatable(f"expression {type(node).__name__}")

    def wrap(self, pre, body: str) -> str:
        for v, m in reversed(pre):
            body = f"(bind {m} fun {v} => {body})"
        return body if body.startswith("(") else f"({body})"

    def truth(self, node):
        """Python truthiness of an expression as a Lean Bool."""
        pre, t, ty = self.expr(node)
        if ty == "bool":
            return pre, t, "bool"
        if isinstance(ty, tuple) and ty[0] == "opt":
            return pre, f"{t}.isSome", "bool"
        if ty == "nodes":
            v = self.fresh("c")
            return pre + [(v, "Lit.nodesNonEmpty")], v, "bool"
        raise Untranslatable(f"truthiness of {ty}")

    def is_gateway_nodes(self, node) -> bool:
        return isinstance(node, ast.Attribute) and node.attr == "nodes" and isinstance(node.value, ast.Name) \
            and node.value.id in ("gateway", "self") and self.env.get(node.value.id, ("", ""))[1] == "gateway"

    def buffer_dict(self, node):
        """message_buffer.internal_messages / .set_messages -> 'ibuf' | 'sbuf'"""
        if isinstance(node, ast.Attribute) and isinstance(node.value, ast.Name) and node.value.id == "message_buffer":
            return {"internal_messages": "ibuf", "set_messages": "sbuf"}.get(node.attr)
        return None

    def attribute(self, node: ast.Attribute):
        if self.is_gateway_nodes(node):
            return [], "<nodes>", "nodes"
        # gateway.protocol_version / gateway.config.metric
        if isinstance(node.value, ast.Name) and self.env.get(node.value.id, ("", ""))[1] == "gateway":
            if node.attr == "protocol_version":
                v = self.fresh("pv")
                return [(v, "Lit.versionUnknown")], v, "pvUnknown"
        if isinstance(node.value, ast.Attribute) and node.attr == "metric" and node.value.attr == "config" \
                and isinstance(node.value.value, ast.Name) and self.env.get(node.value.value.id, ("", ""))[1] == "gateway":
            self.uses_env = True
            return [], "env.metric", "bool"
        pre, t, ty = self.expr(node.value)
        if ty == "msg" and node.attr in MSG_FIELDS:
            f, fty = MSG_FIELDS[node.attr]
            return pre, f"{t}.{f}", fty
        if ty == "node":
            if node.attr in NODE_ATTRS:
                f, fty = NODE_ATTRS[node.attr]
                return pre, f"{t}.{f}", fty
            if node.attr == "children":
                return pre, f"{t}.children", "children"
        if isinstance(ty, tuple) and ty[0] == "newnode" and node.attr == "node_id":
            return pre, ty[1], "int"
        if isinstance(ty, tuple) and ty[0] == "nodealias":
            self_t = self.fresh("n")
            if node.attr in NODE_ATTRS:
                f, fty = NODE_ATTRS[node.attr]
                return pre + [(self_t, f"(Lit.nodeAt {ty[1]})")], f"{self_t}.{f}", fty
            if node.attr == "children":
                return pre + [(self_t, f"(Lit.nodeAt {ty[1]})")], f"{self_t}.children", "children"
        if ty == "child" and node.attr == "values":
            return pre, f"{t}.values", "values"
        if isinstance(ty, tuple) and ty[0] == "enum" and node.attr == "name":
            return pre, t, ("enumname",) + ty[1:]
        raise Untranslatable(f"attribute .{node.attr} of {ty}")

    def subscript(self, node: ast.Subscript):
        if self.is_gateway_nodes(node.value):
            pk, k, kt = self.expr(node.slice)
            if kt != "int":
                raise Untranslatable("gateway.nodes[non-int]")
            v = self.fresh("n")
            return pk + [(v, f"(Lit.nodeAt {k})")], v, "node"
        pre, t, ty = self.expr(node.value)
        pk, k, kt = self.expr(node.slice)
        if ty == "children" and kt == "int":
            owner = t[: -len(".children")]
            v = self.fresh("ch")
            return pre + pk + [(v, f"(Lit.liftE (Lit.childAt {owner} {k}))")], v, "child"
        raise Untranslatable(f"subscript of {ty}")

    def call(self, node: ast.Call):
        f = node.func
        if isinstance(f, ast.Name):
            if f.id == "str" and len(node.args) == 1:
                pre, t, ty = self.expr(node.args[0])
                if ty != "int":
                    raise Untranslatable("str() of non-int")
                return pre, f"(dec {t})", "str"
            if f.id == "Message" and self.globals.get("Message") is not None:
                return self.message_ctor(node)
            if f.id == "Node" and self.globals.get("Node") is not None:
                if len(node.args) != 3 or node.keywords:
                    raise Untranslatable("Node(...) with other than three positional arguments")
                parts = [self.expr(a) for a in node.args]
                if any(p[0] for p in parts) or [p[2] for p in parts] != ["int", "int", "str"]:
                    raise Untranslatable("Node(...) arguments")
                return [], f"(Lit.newNode {parts[1][1]} {parts[2][1]})", ("newnode", parts[0][1])
            if f.id == "max" and len(node.args) == 1 and self.is_gateway_nodes(node.args[0]):
                v = self.fresh("k")
                return [(v, "Lit.maxNodeKey")], v, "int"
            if f.id == "round" and len(node.args) == 1 and isinstance(node.args[0], ast.Call) \
                    and isinstance(node.args[0].func, ast.Name) and node.args[0].func.id == "float" \
                    and len(node.args[0].args) == 1:
                pre, t, ty = self.expr(node.args[0].args[0])
                if ty != "str" or pre:
                    raise Untranslatable("round(float(non-str))")
                return [], f"(pyRoundFloat {t})", ("exc", "int")
            if f.id == "int" and len(node.args) == 1:
                pre, t, ty = self.expr(node.args[0])
                if ty == "int":
                    return pre, t, "int"          # int(<an int or IntEnum member>) is that number
                if ty != "str" or pre:
                    raise Untranslatable("int(non-str)")
                return [], f"(Lit.pyIntE {t})", ("exc", "int")
            if f.id == "get_protocol" and len(node.args) == 1:
                pre, t, ty = self.expr(node.args[0])
                if ty != "str" or pre:
                    raise Untranslatable("get_protocol(non-str)")
                return [], f"(getProtocolE {t})", ("exc", "ver")
            if f.id == "getattr" and len(node.args) == 3:
                return self.getattr_handler(node)
        if isinstance(f, ast.Attribute):
            # calendar.timegm(time.localtime())
            if f.attr == "timegm" and isinstance(f.value, ast.Name) and f.value.id == "calendar" and len(node.args) == 1:
                a = node.args[0]
                if isinstance(a, ast.Call) and isinstance(a.func, ast.Attribute) and a.func.attr == "localtime" \
                        and isinstance(a.func.value, ast.Name) and a.func.value.id == "time" and not a.args:
                    self.uses_env = True
                    return [], "env.timegm", "int"
            # gateway.nodes.get(E)
            if f.attr == "get" and self.is_gateway_nodes(f.value) and len(node.args) == 1:
                pk, k, kt = self.expr(node.args[0])
                v = self.fresh("on")
                return pk + [(v, f"(Lit.nodeGet {k})")], v, ("opt", "node")
            # <values>.get(E)
            if f.attr == "get" and len(node.args) == 1:
                pre, t, ty = self.expr(f.value)
                if ty == "values":
                    pk, k, kt = self.expr(node.args[0])
                    return pre + pk, f"({t}.get? {k})", ("opt", "str")
            # gateway.protocol.Internal(E) / .Stream(E)
            if f.attr in ("Internal", "Stream") and isinstance(f.value, ast.Attribute) and f.value.attr == "protocol" \
                    and isinstance(f.value.value, ast.Name) and self.env.get(f.value.value.id, ("", ""))[1] == "gateway" \
                    and len(node.args) == 1:
                pk, k, kt = self.expr(node.args[0])
                table = "Gen.internalTypes" if f.attr == "Internal" else "Gen.streamTypes"
                v = self.fresh("e")
                return pk + [(v, f"(Lit.enumMember {table} {k})")], v, ("enum", f.attr, k)
            # X.lower() on an enum name
            if f.attr == "lower" and not node.args:
                pre, t, ty = self.expr(f.value)
                if isinstance(ty, tuple) and ty[0] == "enumname":
                    return pre, t, ("enumlower",) + ty[1:]
        raise Untranslatable(f"call {ast.unparse(node)[:60]}")

    def message_ctor(self, node: ast.Call):
        sig = inspect.signature(self.globals["Message"].__init__)
        names = [p for p in sig.parameters if p != "self"]
        vals = {}
        for name in names:
            d = sig.parameters[name].default
            vals[name] = lean_int(d) if isinstance(d, int) else lean_str(d)
        if any(isinstance(a, ast.Starred) for a in node.args) or any(kw.arg is None for kw in node.keywords) \
                or len(node.args) > len(names):
            raise Untranslatable("Message(...) with starred arguments")
        # positional arguments first, then keywords: the order Python evaluates them in
        given = list(zip(names, node.args)) + [(kw.arg, kw.value) for kw in node.keywords]
        if len({g[0] for g in given}) != len(given):
            raise Untranslatable("Message(...) argument given twice")
        pre = []
        for arg, value in given:
            if arg not in vals:
                raise Untranslatable(f"Message(...) keyword {arg}")
            p, t, ty = self.expr(value)
            want = MSG_FIELDS[arg][1]
            if ty != want:
                raise Untranslatable(f"Message({arg}=<{ty}>)")
            pre += p
            vals[arg] = t
        order = ["node_id", "child_id", "command", "ack", "message_type", "payload"]
        if names != order:
            raise Untranslatable("Message signature changed")
        return pre, "(⟨" + ", ".join(vals[n] for n in order) + "⟩ : Msg)", "msg"

    def getattr_handler(self, node: ast.Call):
        """getattr(cls, f"handle_{member.name.lower()}", None) -> the generated chain for the member's value"""
        a0, a1, a2 = node.args
        if not (isinstance(a0, ast.Name) and a0.id == "cls" and isinstance(a2, ast.Constant) and a2.value is None):
            raise Untranslatable("getattr shape")
        pre, t, ty = self.handler_name(a1)
        table = "Gen.internalChains" if ty[1] == "Internal" else "Gen.streamChains"
        self.uses_v = True
        return pre, f"((({table} v).lookup {ty[2]}).join)", "handler"

    def handler_name(self, a1):
        """f"handle_{member.name.lower()}" / "handle_" + member.name.lower() / a local holding either -> the member"""
        if isinstance(a1, ast.Name) and a1.id in self.env and isinstance(self.env[a1.id][1], tuple) \
                and self.env[a1.id][1][0] == "enumlower":
            return [], *self.env[a1.id]
        if isinstance(a1, ast.JoinedStr) and len(a1.values) == 2 and isinstance(a1.values[0], ast.Constant) \
                and a1.values[0].value == "handle_" and isinstance(a1.values[1], ast.FormattedValue) \
                and a1.values[1].conversion == -1 and a1.values[1].format_spec is None:
            inner = a1.values[1].value
        elif isinstance(a1, ast.BinOp) and isinstance(a1.op, ast.Add) and isinstance(a1.left, ast.Constant) \
                and a1.left.value == "handle_":
            inner = a1.right
        else:
            raise Untranslatable("getattr name")
        pre, t, ty = self.expr(inner)
        if not (isinstance(ty, tuple) and ty[0] == "enumlower"):
            raise Untranslatable("getattr name is not <member>.name.lower()")
        return pre, t, ty

    def compare(self, node: ast.Compare):
        if len(node.ops) == 1:
            op, right = node.ops[0], node.comparators[0]
            if isinstance(op, (ast.In, ast.NotIn)):
                neg = isinstance(op, ast.NotIn)
                pl, l, lt = self.expr(node.left)
                if self.is_gateway_nodes(right):
                    v = self.fresh("c")
                    return pl + [(v, f"(Lit.nodeIn {l})")], (f"(!{v})" if neg else v), "bool"
                bd = self.buffer_dict(right)
                if bd == "ibuf" and lt == "key":
                    v = self.fresh("c")
                    return pl + [(v, f"(Lit.ibufHas {l})")], (f"(!{v})" if neg else v), "bool"
                pr, r, rt = self.expr(right)
                if rt == "children" and lt == "int":
                    owner = r[: -len(".children")]
                    t = f"(Lit.childIn {owner} {l})"
                    return pl + pr, (f"(!{t})" if neg else t), "bool"
                if rt == "intlist" and lt == "int":
                    t = f"({r}.contains {l})"
                    return pl + pr, (f"(!{t})" if neg else t), "bool"
                raise Untranslatable(f"membership in {rt}")
            if isinstance(op, (ast.Is, ast.IsNot)):
                pl, l, lt = self.expr(node.left)
                pr, r, rt = self.expr(right)
                neg = isinstance(op, ast.IsNot)
                if rt == "none" and lt == "pvUnknown":
                    return pl, (f"(!{l})" if neg else l), "bool"
                if rt == "none" and isinstance(lt, tuple) and lt[0] == "opt":
                    return pl, (f"{l}.isSome" if neg else f"{l}.isNone"), "bool"
                raise Untranslatable("identity comparison")
        # chains of ==, !=, <, <=, >, >= on ints
        ops = {ast.Eq: "==", ast.NotEq: "!=", ast.Lt: "<", ast.LtE: "≤", ast.Gt: ">", ast.GtE: "≥"}
        items = [node.left] + list(node.comparators)
        parts = [self.expr(e) for e in items]
        pre = [b for p in parts for b in p[0]]
        if len(parts) > 2 and pre:
            raise Untranslatable("effectful comparison chain")
        conj = []
        for i, op in enumerate(node.ops):
            if type(op) not in ops:
                raise Untranslatable(f"comparison {type(op).__name__}")
            a, b = parts[i], parts[i + 1]
            if a[2] != b[2] or a[2] not in ("int", "str"):
                raise Untranslatable(f"comparison of {a[2]} and {b[2]}")
            sym = ops[type(op)]
            if sym in ("==", "!="):
                conj.append(f"({a[1]} {sym} {b[1]})")
            else:
                if a[2] != "int":
                    raise Untranslatable("ordering of non-int")
                conj.append(f"decide ({a[1]} {sym} {b[1]})")
        return pre, "(" + " && ".join(conj) + ")", "bool"

    def boolop(self, node: ast.BoolOp):
        if isinstance(node.op, ast.And):
            # `... and x and x.attr`: after an Optional local was tested, the name denotes its value
            for i, v in enumerate(node.values[:-1]):
                if isinstance(v, ast.Compare) and len(v.ops) == 1 and isinstance(v.ops[0], ast.IsNot) \
                        and isinstance(v.left, ast.Name) and isinstance(v.comparators[0], ast.Constant) \
                        and v.comparators[0].value is None:
                    v = v.left          # `x is not None and …` narrows like `x and …` for an Optional local
                if isinstance(v, ast.Name) and v.id in self.env and isinstance(self.env[v.id][1], tuple) \
                        and self.env[v.id][1][0] == "opt":
                    t, ty = self.env[v.id]
                    inner = self.fresh("o")
                    saved = dict(self.env)
                    self.env[v.id] = (inner, ty[1])
                    rest = node.values[i + 1:]
                    rp, rt, _ = self.truth(rest[0]) if len(rest) == 1 else self.boolop(ast.BoolOp(op=ast.And(), values=rest))
                    self.env = saved
                    if rp:
                        raise Untranslatable("effect after a short-circuit operator")
                    tail = f"(match {t} with | some {inner} => {rt} | none => false)"
                    if i == 0:
                        return [], tail, "bool"
                    hp, ht, _ = self.truth(node.values[0]) if i == 1 else self.boolop(ast.BoolOp(op=ast.And(), values=node.values[:i]))
                    return hp, f"({ht} && {tail})", "bool"
        parts = [self.truth(v) for v in node.values]
        if any(p[0] for p in parts[1:]):
            raise Untranslatable("effect after a short-circuit operator")
        sym = " && " if isinstance(node.op, ast.And) else " || "
        return parts[0][0], "(" + sym.join(p[1] for p in parts) + ")", "bool"

    # ---- statements ------------------------------------------------------------------------
    def ret_default(self) -> str:
        return "(pure m)" if self.kind == "msg" else "(pure ())"

    @staticmethod
    def leading_walrus(test):
        """The assignment expression that is evaluated before anything else in `test`, if there is one."""
        cur = test
        while True:
            if isinstance(cur, ast.NamedExpr) and isinstance(cur.target, ast.Name):
                return cur
            if isinstance(cur, ast.UnaryOp) and isinstance(cur.op, ast.Not):
                cur = cur.operand
            elif isinstance(cur, ast.Compare):
                cur = cur.left
            elif isinstance(cur, ast.BoolOp):
                cur = cur.values[0]
            else:
                return None

    @staticmethod
    def replace_node(tree, old, new):
        import copy

        class R(ast.NodeTransformer):
            def visit(self, node):
                if node is old:
                    return new
                return self.generic_visit(node)
        return R().visit(copy.copy(tree)) if tree is not old else new

    def terminates(self, stmts) -> bool:
        if not stmts:
            return False
        s = stmts[-1]
        if isinstance(s, (ast.Return, ast.Raise)):
            return True
        if isinstance(s, ast.Continue) and self.in_loop:
            return True
        if isinstance(s, ast.If):
            return self.terminates(s.body) and self.terminates(s.orelse)
        return False

    def block(self, stmts, fallthrough: str | None) -> str:
        """Compile a statement list; `fallthrough` is what runs when the list ends without return/raise
        (None: it must terminate)."""
        stmts = strip(stmts)
        if not stmts:
            if fallthrough is None:
                raise Untranslatable("block falls off its end")
            return fallthrough
        s, rest = stmts[0], stmts[1:]
        # `if (x := E) …:` with the walrus in the position evaluated first  ==  `x = E` then `if x …:`
        if isinstance(s, ast.If):
            w = self.leading_walrus(s.test)
            if w is not None:
                test2 = self.replace_node(s.test, w, ast.Name(id=w.target.id, ctx=ast.Load()))
                s2 = ast.If(test=test2, body=s.body, orelse=s.orelse)
                return self.block([ast.Assign(targets=[ast.Name(id=w.target.id, ctx=ast.Store())], value=w.value), s2] + list(rest),
                                  fallthrough)
        # `if C: x = A else: x = B`  ==  `x = A if C else B`
        if isinstance(s, ast.If) and len(strip(s.body)) == 1 and len(strip(s.orelse)) == 1:
            b1, b2 = strip(s.body)[0], strip(s.orelse)[0]
            if isinstance(b1, ast.Assign) and isinstance(b2, ast.Assign) and len(b1.targets) == 1 and len(b2.targets) == 1 \
                    and isinstance(b1.targets[0], ast.Name) and isinstance(b2.targets[0], ast.Name) \
                    and b1.targets[0].id == b2.targets[0].id and b1.targets[0].id != "message":
                cond = ast.IfExp(test=s.test, body=b1.value, orelse=b2.value)
                return self.block([ast.Assign(targets=[b1.targets[0]], value=cond)] + list(rest), fallthrough)
        if isinstance(s, ast.Continue) and self.in_loop:
            if rest:
                raise Untranslatable("code after continue")
            return "(pure ())"

        def after(unit_term: str) -> str:
            """unit_term : M Unit, then the rest"""
            if not rest and fallthrough is not None and fallthrough == "(pure ())":
                return unit_term
            return f"(seq {unit_term}\n  {self.block(rest, fallthrough)})"

        if isinstance(s, ast.Return):
            if rest:
                raise Untranslatable("code after return")
            return self.ret(s)
        if isinstance(s, ast.Raise):
            if rest:
                raise Untranslatable("code after raise")
            return self.raise_(s)
        if isinstance(s, ast.If) and isinstance(s.test, ast.Compare) and len(s.test.ops) == 1 \
                and isinstance(s.test.ops[0], ast.IsNot) and isinstance(s.test.left, ast.Name) \
                and isinstance(s.test.comparators[0], ast.Constant) and s.test.comparators[0].value is None \
                and s.test.left.id in self.env and isinstance(self.env[s.test.left.id][1], tuple) \
                and self.env[s.test.left.id][1][0] == "opt" and not s.orelse and not self.terminates(s.body):
            # `if x is not None: A` with an Optional local: inside A the name denotes the value
            name = s.test.left.id
            t, ty = self.env[name]
            saved = dict(self.env)
            ln = lean_ident(name)
            self.env[name] = self.narrowed(name, ln, ty)
            a = " ".join(self.block(s.body, "(pure ())").split())   # one line: match arms are column-sensitive
            self.env = saved
            return after(f"(match {t} with | some {ln} => {a} | none => pure ())")
        if isinstance(s, ast.If) and isinstance(s.test, ast.Compare) and len(s.test.ops) == 1 \
                and isinstance(s.test.ops[0], ast.Is) and isinstance(s.test.left, ast.Name) \
                and isinstance(s.test.comparators[0], ast.Constant) and s.test.comparators[0].value is None \
                and s.test.left.id in self.env and isinstance(self.env[s.test.left.id][1], tuple) \
                and self.env[s.test.left.id][1][0] == "opt" and not s.orelse and self.terminates(s.body):
            # `if x is None: <leave>` with an Optional local: in the rest the name denotes the value
            name = s.test.left.id
            t, ty = self.env[name]
            saved = dict(self.env)
            a = " ".join(self.block(s.body, None).split())
            self.env = dict(saved)
            ln = lean_ident(name)
            self.env[name] = self.narrowed(name, ln, ty)
            b = " ".join(self.block(rest, fallthrough).split())
            self.env = saved
            return f"(match {t} with | none => {a} | some {ln} => {b})"
        if isinstance(s, ast.If):
            pre, c, _ = self.truth(s.test)
            saved = dict(self.env)
            if self.terminates(s.body) and not s.orelse:
                a = self.block(s.body, None)
                self.env = dict(saved)
                b = self.block(rest, fallthrough)
                return self.wrap(pre, f"if {c} then {a}\n  else {b}")
            if self.terminates(s.body) and self.terminates(s.orelse):
                if rest:
                    raise Untranslatable("code after a terminating if/else")
                a = self.block(s.body, None)
                self.env = dict(saved)
                b = self.block(s.orelse, None)
                return self.wrap(pre, f"if {c} then {a}\n  else {b}")
            # non-terminating branches: both fall through to the rest
            if self.assigns_message(s.body) or self.assigns_message(s.orelse):
                # `message = await H(...)` inside a branch, then `return message`: push the rest into the branches
                a = self.block(list(s.body) + list(rest), fallthrough)
                self.env = dict(saved)
                b = self.block(list(s.orelse) + list(rest), fallthrough)
                return self.wrap(pre, f"if {c} then {a}\n  else {b}")
            a = self.block(s.body, "(pure ())")
            self.env = dict(saved)
            b = self.block(s.orelse, "(pure ())")
            self.env = dict(saved)
            return after(self.wrap(pre, f"if {c} then {a} else {b}"))
        if isinstance(s, ast.Try):
            return self.try_(s, rest, fallthrough)
        if isinstance(s, ast.For):
            return after(self.for_(s))
        if isinstance(s, ast.Expr):
            return after(self.effect(s.value))
        if isinstance(s, ast.Assign) and len(s.targets) == 1:
            return self.assign(s.targets[0], s.value, rest, fallthrough, after)
        if isinstance(s, ast.AnnAssign) and s.value is not None:
            return self.assign(s.target, s.value, rest, fallthrough, after)
        raise Untranslatable(f"statement {type(s).__name__}")

    def narrowed(self, name: str, ln: str, ty):
        """What an Optional local denotes once it was tested against None: its value — or, when it came from
        `gateway.nodes.get(K)`, the node object registered under K (found by its key, like `alias = gateway.nodes[K]`)."""
        if ty[1] == "node" and name in self.optkey:
            return ("<alias>", ("nodealias", self.optkey[name]))
        return (ln, ty[1])

    def assigns_message(self, stmts) -> bool:
        return any(isinstance(x, ast.Assign) and len(x.targets) == 1 and isinstance(x.targets[0], ast.Name)
                   and x.targets[0].id == "message" for x in stmts)

    def ret(self, s: ast.Return) -> str:
        if s.value is None:
            if self.kind != "unit":
                raise Untranslatable("bare return in a handler that returns the message")
            return "(pure ())"
        if isinstance(s.value, ast.Name) and s.value.id == "message" and self.kind == "msg":
            return f"(pure {self.env['message'][0]})"
        if isinstance(s.value, ast.Await):
            return self.handler_call(s.value.value)
        raise Untranslatable(f"return {ast.unparse(s.value)[:40]}")

    def std_args(self, call: ast.Call, lead: list[str]) -> bool:
        names = [a.id if isinstance(a, ast.Name) else None for a in call.args]
        return names[: len(lead) + 3] == lead + ["gateway", "message", "message_buffer"] and not call.keywords

    def handler_call(self, call) -> str:
        """await <another handler>(gateway, message, message_buffer) -> M Msg"""
        if not isinstance(call, ast.Call):
            raise Untranslatable("await of a non-call")
        f = call.func
        m = self.env["message"][0]
        if isinstance(f, ast.Attribute) and isinstance(f.value, ast.Name) and f.value.id == "cls":
            if f.attr == "_handle_sleep_buffer" and self.std_args(call, []) and len(call.args) == 3:
                return f"(GenBodies.sleepBuffer20 {m})"
            if f.attr == "handle_i_version" and self.std_args(call, []) and len(call.args) == 3:
                self.uses_env = self.uses_v = True
                return f"(GenBodies.runTypedGen env (Gen.versionHandlerChain v) {m})"
            if f.attr == "_handle_message" and self.std_args(call, []) and len(call.args) == 4:
                pre, h, ty = self.expr(call.args[3])
                if ty != "handler":
                    raise Untranslatable("_handle_message with a non-handler")
                self.uses_env = True
                return self.wrap(pre, f"GenBodies.runTypedGen env {h} {m}")
        if isinstance(f, ast.Name) and f.id == "func" and self.std_args(call, ["self"]):
            return f"(inner {m})"
        raise Untranslatable(f"call of {ast.unparse(f)[:50]}")

    def raise_(self, s: ast.Raise) -> str:
        if s.exc is None:
            if self.exc_var is None:
                raise Untranslatable("bare raise outside except")
            return f"(raise {self.exc_var})"
        e = s.exc
        name, args = None, []
        if isinstance(e, ast.Name):
            name = e.id
        elif isinstance(e, ast.Call) and isinstance(e.func, ast.Name):
            name = e.func.id
            args = e.args
        if name in LIB_ERRORS and self.globals.get(name) is not None:
            argt = []
            if name in ("MissingNodeError", "MissingChildError"):
                if len(args) != 1:
                    raise Untranslatable(f"{name} arguments")
                pre, t, ty = self.expr(args[0])
                if pre or ty != "int":
                    raise Untranslatable(f"{name}(<{ty}>)")
                argt = [t]
            return f"(raise {LIB_ERRORS[name](argt)})"
        raise Untranslatable(f"raise {ast.unparse(e)[:40]}")

    def effect(self, node) -> str:
        """An expression statement -> M Unit"""
        if isinstance(node, ast.Await):
            call = node.value
            if isinstance(call, ast.Call) and isinstance(call.func, ast.Attribute):
                f = call.func
                # await gateway.send(X, message_buffer=B)
                if f.attr == "send" and isinstance(f.value, ast.Name) and self.env.get(f.value.id, ("", ""))[1] == "gateway" \
                        and len(call.args) == 1:
                    pre, t, ty = self.expr(call.args[0])
                    if ty != "msg":
                        raise Untranslatable("gateway.send(non-message)")
                    flag = "true"
                    for kw in call.keywords:
                        if kw.arg != "message_buffer" or not isinstance(kw.value, ast.Constant) or not isinstance(kw.value.value, bool):
                            raise Untranslatable("gateway.send keyword")
                        flag = "true" if kw.value.value else "false"
                    return self.wrap(pre, f"GenBodies.gwSend' {t} {flag}")
                # await gateway.transport.write(decoded_message)
                is_transport = (isinstance(f.value, ast.Attribute) and f.value.attr == "transport"
                                and isinstance(f.value.value, ast.Name) and self.env.get(f.value.value.id, ("", ""))[1] == "gateway") \
                    or (isinstance(f.value, ast.Name) and self.env.get(f.value.id, ("", ""))[1] == "transport")
                if f.attr == "write" and is_transport and not call.keywords \
                        and len(call.args) == 1 and isinstance(call.args[0], ast.Name) and call.args[0].id == "decoded_message":
                    return f"(transportWrite (encode {self.env['message'][0]}))"
            raise Untranslatable(f"await {ast.unparse(call)[:50]}")
        if isinstance(node, ast.Call) and isinstance(node.func, ast.Attribute):
            f = node.func
            # <node ref>.add_child(...) / .set_child_value(...)
            if f.attr in ("add_child", "set_child_value"):
                ref = self.node_ref(f.value)
                if ref is not None:
                    sig = inspect.signature(getattr(self.globals.get("Node") or NODE_CLS[0], f.attr))
                    try:
                        bound = sig.bind(None, *node.args, **{k.arg: k.value for k in node.keywords})
                    except TypeError as err:
                        raise Untranslatable(f"{f.attr} arguments: {err}") from err
                    want = {"add_child": ["child_id", "child_type", "description"],
                            "set_child_value": ["child_id", "value_type", "value"]}[f.attr]
                    args = []
                    for w in want:
                        if w in bound.arguments:
                            p, t, ty = self.expr(bound.arguments[w])
                            if p:
                                raise Untranslatable("effectful method argument")
                            args.append(t)
                        else:
                            d = sig.parameters[w].default
                            args.append(lean_str(d) if isinstance(d, str) else lean_int(d))
                    if set(bound.arguments) - set(want) - {"self"}:
                        raise Untranslatable(f"{f.attr} with extra arguments")
                    return f"(Lit.updateNode {ref} (GenBodies.Node.{f.attr} {' '.join(args)}))"
            # message_buffer.<dict>.pop(key)
            if f.attr == "pop" and len(node.args) == 1:
                bd = self.buffer_dict(f.value)
                pk, k, kt = self.expr(node.args[0])
                if bd and kt == "key" and not pk:
                    return f"(Lit.{bd}Pop {k})"
            # message_buffer.internal_messages.pop(key, None): remove it if it is there
            if f.attr == "pop" and len(node.args) == 2 and isinstance(node.args[1], ast.Constant) and node.args[1].value is None \
                    and not node.keywords and self.buffer_dict(f.value) == "ibuf":
                pk, k, kt = self.expr(node.args[0])
                if kt == "key" and not pk:
                    c = self.fresh("c")
                    return f"(bind (Lit.ibufHas {k}) fun {c} => if {c} then (Lit.ibufPop {k}) else (pure ()))"
            # self._message_schema.set_protocol(protocol): the schema follows the active protocol in the model
            if f.attr == "set_protocol" and isinstance(f.value, ast.Attribute) and f.value.attr == "_message_schema":
                return "(pure ())"
        raise Untranslatable(f"statement {ast.unparse(node)[:60]}")

    def node_ref(self, node):
        """gateway.nodes[E] or a local alias of it -> the key expression"""
        if isinstance(node, ast.Subscript) and self.is_gateway_nodes(node.value):
            pk, k, kt = self.expr(node.slice)
            if pk or kt != "int":
                return None
            return k
        if isinstance(node, ast.Name) and node.id in self.env:
            ty = self.env[node.id][1]
            if isinstance(ty, tuple) and ty[0] == "nodealias":
                return ty[1]
        return None

    def assign(self, target, value, rest, fallthrough, after) -> str:
        # attribute store on a node: gateway.nodes[E].attr = V / alias.attr = V
        if isinstance(target, ast.Attribute):
            ref = self.node_ref(target.value)
            if ref is not None and target.attr in NODE_ATTRS:
                fld, fty = NODE_ATTRS[target.attr]
                pre, t, ty = self.expr(value)
                if ty != fty:
                    raise Untranslatable(f"store of {ty} into {target.attr}")
                return after(self.wrap(pre, f"Lit.updateNode {ref} (fun n => .ok {{ n with {fld} := {t} }})"))
            # gateway.protocol_version = E  (the property setter)
            if target.attr == "protocol_version" and isinstance(target.value, ast.Name) \
                    and self.env.get(target.value.id, ("", ""))[1] == "gateway":
                pre, t, ty = self.expr(value)
                if ty != "str":
                    raise Untranslatable("protocol_version = non-str")
                return after(self.wrap(pre, f"GenBodies.setProtocolVersion {t}"))
            # self._protocol_version = value ; self._protocol = protocol  (inside the setter)
            if isinstance(target.value, ast.Name) and target.value.id == "self" and target.attr in ("_protocol_version", "_protocol"):
                pre, t, ty = self.expr(value)
                if target.attr == "_protocol_version" and ty == "str":
                    return after(f"(modifySt fun s => {{ s with pv := some {t} }})")
                if target.attr == "_protocol" and ty == "ver":
                    return after(f"(modifySt fun s => {{ s with proto := {t} }})")
            raise Untranslatable(f"store to {ast.unparse(target)[:40]}")
        if isinstance(target, ast.Subscript):
            # gateway.nodes[K] = Node(...)
            if self.is_gateway_nodes(target.value):
                pk, k, kt = self.expr(target.slice)
                pre, t, ty = self.expr(value)
                if kt == "int" and isinstance(ty, tuple) and ty[0] == "newnode":
                    return after(self.wrap(pk + pre, f"Lit.storeNode {k} {t}"))
            bd = self.buffer_dict(target.value)
            if bd:
                pk, k, kt = self.expr(target.slice)
                pre, t, ty = self.expr(value)
                if kt == "key" and ty == "msg" and not pk and not pre:
                    return after(f"(Lit.{bd}Set {k} {t})")
            raise Untranslatable(f"store to {ast.unparse(target)[:40]}")
        if isinstance(target, ast.Name):
            name = target.id
            # message = await H(...)
            if name == "message" and isinstance(value, ast.Await):
                h = self.handler_call(value.value)
                v = self.fresh("m")
                self.env["message"] = (v, "msg")
                return f"(bind {h} fun {v} =>\n  {self.block(rest, fallthrough)})"
            # alias = gateway.nodes[E]
            if isinstance(value, ast.Subscript) and self.is_gateway_nodes(value.value):
                pk, k, kt = self.expr(value.slice)
                if pk or kt != "int":
                    raise Untranslatable("alias of gateway.nodes[effect]")
                self.env[name] = ("<alias>", ("nodealias", k))
                return f"(bind (Lit.nodeAt {k}) fun _ =>\n  {self.block(rest, fallthrough)})"
            # transport = gateway.transport
            if isinstance(value, ast.Attribute) and value.attr == "transport" and isinstance(value.value, ast.Name) \
                    and self.env.get(value.value.id, ("", ""))[1] == "gateway":
                self.env[name] = ("<transport>", "transport")
                return self.block(rest, fallthrough)
            pre, t, ty = self.expr(value)
            if ty == ("opt", "node") and isinstance(value, ast.Call) and isinstance(value.func, ast.Attribute) \
                    and value.func.attr == "get" and self.is_gateway_nodes(value.func.value) and len(value.args) == 1:
                pk, k, kt = self.expr(value.args[0])
                if not pk:
                    self.optkey[name] = k
            else:
                self.optkey.pop(name, None)
            if isinstance(ty, tuple) and ty[0] == "exc":
                raise Untranslatable("conversion outside try/except")
            if ty == "msg":
                v = lean_ident(name)
                self.env[name] = (v, "msg")
                return self.wrap(pre, f"let {v} : Msg := {t};\n  {self.block(rest, fallthrough)}")
            if isinstance(ty, tuple) and ty[0] == "opt" and ty[1] == "str":
                # value = X.get(k); later `if value is not None:` -> keep as an Option local
                self.env[name] = (t, ty) if not pre else (t, ty)
                return self.wrap(pre, self.block(rest, fallthrough)) if pre else self.block(rest, fallthrough)
            self.env[name] = (t, ty)
            body = self.block(rest, fallthrough)
            return self.wrap(pre, body) if pre else body
        raise Untranslatable(f"assignment to {type(target).__name__}")

    def except_classes(self, h: ast.ExceptHandler):
        t = h.type
        names = []
        if t is None:
            raise Untranslatable("bare except")
        elts = t.elts if isinstance(t, ast.Tuple) else [t]
        for e in elts:
            if not isinstance(e, ast.Name):
                raise Untranslatable("except class expression")
            names.append(e.id)
        return names

    def try_(self, s: ast.Try, rest, fallthrough) -> str:
        body = strip(s.body)
        # decorator shape 1: try: message = await func(...) finally: F ; return message
        if s.finalbody and not s.handlers and not s.orelse and len(body) == 1 and self.is_inner_call(body[0]):
            if not (len(rest) == 1 and isinstance(rest[0], ast.Return) and isinstance(rest[0].value, ast.Name)
                    and rest[0].value.id == "message"):
                raise Untranslatable("try/finally not followed by return message")
            m0 = self.env["message"][0]
            v = self.fresh("m")
            self.env["message"] = (v, "msg")
            saved_kind = self.kind
            self.kind = "unit"
            fin = self.block(s.finalbody, "(pure ())")
            self.kind = saved_kind
            return (f"(tryFinally (inner {m0}) fun r =>\n  let {v} : Msg := (match r with | .ok m' => m' | .error _ => {m0});\n  {fin})")
        # decorator shape 2: try: message = await func(...) except (A, B): H...; raise ; return message
        if s.handlers and not s.finalbody and not s.orelse and len(body) == 1 and self.is_inner_call(body[0]):
            if len(s.handlers) != 1:
                raise Untranslatable("several except clauses around the wrapped handler")
            if not (len(rest) == 1 and isinstance(rest[0], ast.Return) and isinstance(rest[0].value, ast.Name)
                    and rest[0].value.id == "message"):
                raise Untranslatable("try/except not followed by return message")
            classes = self.except_classes(s.handlers[0])
            if not all(c in LIB_ERRORS for c in classes):
                raise Untranslatable("wrapper catches a non-library class")
            m0 = self.env["message"][0]
            self.exc_var = "e"
            saved_kind = self.kind
            self.kind = "never"
            h = self.block(s.handlers[0].body, None)
            self.kind = saved_kind
            self.exc_var = None
            cl = "[" + ", ".join(f'"{c}"' for c in classes) + "]"
            return f"(tryCatch (inner {m0}) fun e =>\n  if Lit.libCaught e {cl} then some {h}\n  else none)"
        # conversion shape: try: x = CONV / STORE except (classes) [as err]: raise LibError(...) [from err]
        if len(s.handlers) == 1 and not s.finalbody and not s.orelse and len(body) == 1:
            h = s.handlers[0]
            classes = self.except_classes(h)
            hb = strip(h.body)
            if not (len(hb) == 1 and isinstance(hb[0], ast.Raise) and hb[0].exc is not None):
                raise Untranslatable("except clause that does more than raise a library error")
            e = hb[0].exc
            ename = e.func.id if isinstance(e, ast.Call) and isinstance(e.func, ast.Name) else (e.id if isinstance(e, ast.Name) else None)
            if ename not in LIB_ERR_CTOR:
                raise Untranslatable(f"except clause raises {ename}")
            for c in classes:
                if c not in PYEXN:
                    raise Untranslatable(f"except class {c} outside the model's vocabulary")
            cl = "[" + ", ".join(f".{c}" for c in classes) + "]"
            st = body[0]
            if isinstance(st, ast.Assign) and len(st.targets) == 1 and isinstance(st.targets[0], ast.Name):
                pre, t, ty = self.expr(st.value)
                name = st.targets[0].id
                if isinstance(ty, tuple) and ty[0] == "exc" and not pre:
                    ln = lean_ident(name)
                    self.env[name] = (ln, ty[1])
                    return f"(bind (convertExn {cl} {LIB_ERR_CTOR[ename]} {t}) fun {ln} =>\n  {self.block(rest, fallthrough)})"
                if isinstance(ty, tuple) and ty[0] == "enum" and len(pre) == 1:
                    v, m = pre[0]
                    self.env[name] = (v, ty)
                    return f"(bind (Lit.catchTo {m} {cl} {LIB_ERR_CTOR[ename]}) fun {v} =>\n  {self.block(rest, fallthrough)})"
            if isinstance(st, ast.Assign) and len(st.targets) == 1 and isinstance(st.targets[0], ast.Attribute):
                inner = self.assign(st.targets[0], st.value, [], "(pure ())", lambda u: u)
                return f"(seq (Lit.catchTo {inner} {cl} {LIB_ERR_CTOR[ename]})\n  {self.block(rest, fallthrough)})"
        raise Untranslatable("try statement of an unknown shape")

    def is_inner_call(self, st) -> bool:
        return (isinstance(st, ast.Assign) and len(st.targets) == 1 and isinstance(st.targets[0], ast.Name)
                and st.targets[0].id == "message" and isinstance(st.value, ast.Await)
                and isinstance(st.value.value, ast.Call) and isinstance(st.value.value.func, ast.Name)
                and st.value.value.func.id == "func" and self.std_args(st.value.value, ["self"]))

    def for_(self, s: ast.For) -> str:
        """for key, bm in <snapshot>.items(): body   (snapshot = a dict comprehension over set_messages)"""
        if s.orelse or not isinstance(s.target, ast.Tuple) or len(s.target.elts) != 2:
            raise Untranslatable("for loop shape")
        it = s.iter
        # list(d.items()) / tuple(d.items()): the same items in the same order (the snapshot is not mutated by the body)
        if isinstance(it, ast.Call) and isinstance(it.func, ast.Name) and it.func.id in ("list", "tuple") and len(it.args) == 1 \
                and not it.keywords:
            it = it.args[0]
        if not (isinstance(it, ast.Call) and isinstance(it.func, ast.Attribute) and it.func.attr == "items"
                and isinstance(it.func.value, ast.Name) and it.func.value.id in self.env
                and self.env[it.func.value.id][1] == "snapshot"):
            raise Untranslatable("for loop over something else than the snapshot")
        k, b = (e.id for e in s.target.elts)
        saved = dict(self.env)
        self.env[k] = ("kb.1", "key")
        self.env[b] = ("kb.2", "msg")
        saved_kind, saved_loop = self.kind, self.in_loop
        self.kind, self.in_loop = "loop", True
        body = self.block(s.body, "(pure ())")
        self.kind, self.in_loop = saved_kind, saved_loop
        self.env = saved
        return f"(Lit.forEach {self.env[it.func.value.id][0]} fun kb =>\n  {body})"


NODE_CLS = [None]


def compile_fn(fn, kind, params, pre_only=False, extra=None):
    tr = Tr(fn, kind, params)
    if extra:
        extra(tr)
    node = fn_ast(fn)
    stmts = strip(node.body)
    if pre_only:
        # body that ends in `return await super().same(...)`: compile what precedes it
        if not (stmts and isinstance(stmts[-1], ast.Return)):
            raise Untranslatable("pre body does not end in a super() call")
        stmts = stmts[:-1]
        tr.kind = "unit"
        text = tr.block(stmts, "(pure ())")
    else:
        text = tr.block(stmts, None if kind == "msg" else "(pure ())")
    return text, tr


class TrFlush(Tr):
    """`_handle_sleep_buffer`: node_messages = {k: v for k, v in message_buffer.set_messages.items() if cond}"""

    def assign(self, target, value, rest, fallthrough, after):
        if isinstance(target, ast.Name) and isinstance(value, ast.DictComp):
            g = value.generators
            if len(g) == 1 and not g[0].is_async and isinstance(g[0].target, ast.Tuple) and len(g[0].target.elts) == 2 \
                    and isinstance(g[0].iter, ast.Call) and isinstance(g[0].iter.func, ast.Attribute) \
                    and g[0].iter.func.attr == "items" and self.buffer_dict(g[0].iter.func.value) == "sbuf" \
                    and len(g[0].ifs) <= 1:
                k, b = (e.id for e in g[0].target.elts)
                if not (isinstance(value.key, ast.Name) and value.key.id == k and isinstance(value.value, ast.Name) and value.value.id == b):
                    raise Untranslatable("dict comprehension that transforms its items")
                saved = dict(self.env)
                self.env[k] = ("kb.1", "key")
                self.env[b] = ("kb.2", "msg")
                cond = "true"
                if g[0].ifs:
                    pre, cond, _ = self.truth(g[0].ifs[0])
                    if pre:
                        raise Untranslatable("effectful comprehension filter")
                self.env = saved
                v = lean_ident(target.id)
                self.env[target.id] = (v, "snapshot")
                return f"(bind (Lit.sbufSnapshot fun kb => {cond}) fun {v} =>\n  {self.block(rest, fallthrough)})"
        return super().assign(target, value, rest, fallthrough, after)

    def compare(self, node):
        # message_buffer.set_messages.get(key) is buffer_message
        if len(node.ops) == 1 and isinstance(node.ops[0], (ast.Is, ast.IsNot)):
            neg = isinstance(node.ops[0], ast.IsNot)
            l, r = node.left, node.comparators[0]
            if isinstance(l, ast.Call) and isinstance(l.func, ast.Attribute) and l.func.attr == "get" \
                    and self.buffer_dict(l.func.value) == "sbuf" and len(l.args) == 1:
                pk, k, kt = self.expr(l.args[0])
                pr, rt, rty = self.expr(r)
                if kt == "key" and rty == "msg" and not pk and not pr:
                    v = self.fresh("c")
                    return [(v, f"(Lit.sbufHolds {k} {rt})")], (f"(!{v})" if neg else v), "bool"
        return super().compare(node)


def compile_node_method(fn, params):
    """A `Node` method that mutates `self`: -> Lean term of type `Except Exn Node` with `n` the node."""
    node = fn_ast(fn)
    stmts = strip(node.body)
    glob = fn.__globals__
    env = dict(params)      # python name -> lean text (ints / strs)
    aliases = {}            # local -> key expr of a child of self

    def ex(e):
        if isinstance(e, ast.Name) and e.id in env:
            return env[e.id]
        raise Untranslatable(f"node method expression {ast.unparse(e)[:40]}")

    def is_self_children(e):
        return isinstance(e, ast.Attribute) and e.attr == "children" and isinstance(e.value, ast.Name) and e.value.id == "self"

    new_children = {}       # local -> lean text of a freshly built Child

    def new_child(v):
        """Child(k, t, description=d, values=values) -> (lean text of the key, lean text of the child)"""
        if not (isinstance(v, ast.Call) and isinstance(v.func, ast.Name) and v.func.id == "Child" and glob.get("Child") is not None):
            return None
        sig = inspect.signature(glob["Child"].__init__)
        try:
            bound = sig.bind(None, *v.args, **{k.arg: k.value for k in v.keywords})
        except TypeError as err:
            raise Untranslatable(f"Child(...) arguments: {err}") from err
        a = bound.arguments
        vals = a.get("values")
        if vals is not None and not (isinstance(vals, ast.Name) and vals.id == "values" and params.get("values") == "<none>"):
            raise Untranslatable("Child(values=...) with other than the method's default")
        desc = ex(a["description"]) if "description" in a else lean_str("")
        return f"(Lit.newChild {ex(a['child_id'])} {ex(a['child_type'])} {desc})"

    def absent_test(t):
        """`k not in self.children` / `not k in self.children` -> k"""
        if isinstance(t, ast.UnaryOp) and isinstance(t.op, ast.Not) and isinstance(t.operand, ast.Compare) \
                and len(t.operand.ops) == 1 and isinstance(t.operand.ops[0], ast.In) and is_self_children(t.operand.comparators[0]):
            return t.operand.left
        if isinstance(t, ast.Compare) and len(t.ops) == 1 and isinstance(t.ops[0], ast.NotIn) and is_self_children(t.comparators[0]):
            return t.left
        return None

    def go(i, cur):
        """cur: lean text of the current node value"""
        if i == len(stmts):
            return f".ok {cur}"
        s = stmts[i]
        if isinstance(s, ast.If) and not s.orelse and len(s.body) == 1 and isinstance(s.body[0], ast.Raise) \
                and absent_test(s.test) is not None:
            k = ex(absent_test(s.test))
            r = s.body[0].exc
            if not (isinstance(r, ast.Call) and isinstance(r.func, ast.Name) and r.func.id == "MissingChildError"
                    and glob.get("MissingChildError") is not None and len(r.args) == 1):
                raise Untranslatable("node method raises something else")
            return f"if !(Lit.childIn {cur} {k}) then .error (.lib (.missingChild {ex(r.args[0])}))\n    else {go(i + 1, cur)}"
        if isinstance(s, ast.Assign) and len(s.targets) == 1:
            t, v = s.targets[0], s.value
            # child = self.children[k]
            if isinstance(t, ast.Name) and isinstance(v, ast.Subscript) and is_self_children(v.value):
                k = ex(v.slice)
                aliases[t.id] = k
                var = f"ch{i}"
                env[t.id] = var
                return f"match Lit.childAt {cur} {k} with\n    | .error e => .error e\n    | .ok {var} => {go(i + 1, cur)}"
            # self.children[k].values[a] = b   (no local alias)
            if isinstance(t, ast.Subscript) and isinstance(t.value, ast.Attribute) and t.value.attr == "values" \
                    and isinstance(t.value.value, ast.Subscript) and is_self_children(t.value.value.value):
                k = ex(t.value.value.slice)
                var = f"ch{i}"
                new = f"{{ {cur} with children := {cur}.children.set {k} {{ {var} with values := {var}.values.set {ex(t.slice)} {ex(v)} }} }}"
                return f"match Lit.childAt {cur} {k} with\n    | .error e => .error e\n    | .ok {var} => {go(i + 1, new)}"
            # child = Child(...)   (a local for the new child)
            if isinstance(t, ast.Name) and new_child(v) is not None:
                new_children[t.id] = new_child(v)
                return go(i + 1, cur)
            # self.children[k] = child   (that local)
            if isinstance(t, ast.Subscript) and is_self_children(t.value) and isinstance(v, ast.Name) and v.id in new_children:
                new = f"{{ {cur} with children := {cur}.children.set {ex(t.slice)} {new_children[v.id]} }}"
                return go(i + 1, new)
            # child.values[a] = b
            if isinstance(t, ast.Subscript) and isinstance(t.value, ast.Attribute) and t.value.attr == "values" \
                    and isinstance(t.value.value, ast.Name) and t.value.value.id in aliases:
                al = t.value.value.id
                k = aliases[al]
                var = env[al]
                new = f"{{ {cur} with children := {cur}.children.set {k} {{ {var} with values := {var}.values.set {ex(t.slice)} {ex(v)} }} }}"
                return go(i + 1, new)
            # self.children[k] = Child(k, t, description=d, values=values)
            if isinstance(t, ast.Subscript) and is_self_children(t.value) and new_child(v) is not None:
                new = f"{{ {cur} with children := {cur}.children.set {ex(t.slice)} {new_child(v)} }}"
                return go(i + 1, new)
        raise Untranslatable(f"node method statement {ast.unparse(s)[:50]}")

    return go(0, "n")


# ------------------------------------------------------------------------------------------------

HANDLER_PARAMS = {"gateway": ("<gateway>", "gateway"), "message": ("m", "msg")}

# Body constructor -> (module, class, function)
from_extract = None


def targets(mods):
    p14, p20, p22 = mods["protocol_14"], mods["protocol_20"], mods["protocol_22"]
    I14, I20, I22 = p14.IncomingMessageHandler, p20.IncomingMessageHandler, p22.IncomingMessageHandler

    def raw(cls, name):
        r = cls.__dict__[name]
        if isinstance(r, (classmethod, staticmethod)):
            r = r.__func__
        while getattr(r, "__code__", None) is not None and r.__code__.co_name == "wrapper" and r.__closure__:
            r = r.__closure__[r.__code__.co_freevars.index("func")].cell_contents
        return r

    T = []
    for lname, cls, name in [
        ("presentation14", I14, "handle_presentation"), ("set14", I14, "handle_set"), ("req14", I14, "handle_req"),
        ("internal14", I14, "handle_internal"), ("stream14", I14, "handle_stream"),
        ("iVersion14", I14, "handle_i_version"), ("iIdRequest14", I14, "handle_i_id_request"),
        ("iConfig14", I14, "handle_i_config"), ("iTime14", I14, "handle_i_time"),
        ("iBatteryLevel14", I14, "handle_i_battery_level"), ("iSketchName14", I14, "handle_i_sketch_name"),
        ("iSketchVersion14", I14, "handle_i_sketch_version"),
        ("iGatewayReady20", I20, "handle_i_gateway_ready"), ("iDiscoverResponse20", I20, "handle_i_discover_response"),
        ("iHeartbeatResponse20", I20, "handle_i_heartbeat_response"),
        ("iHeartbeatResponse22", I22, "handle_i_heartbeat_response"),
        ("iPreSleepNotification22", I22, "handle_i_pre_sleep_notification"),
    ]:
        T.append((lname, "handler", lambda c=cls, n=name: raw(c, n)))
    T.append(("presentation20", "pre", lambda: raw(I20, "handle_presentation")))
    T.append(("sleepBuffer20", "flush", lambda: raw(I20, "_handle_sleep_buffer")))
    T.append(("wrapMissingPV", "wrapper", lambda: wrapper_of(p14.handle_missing_protocol_version)))
    T.append(("wrapMissingNC", "wrapper", lambda: wrapper_of(p20.handle_missing_node_child)))
    O14 = p14.OutgoingMessageHandler
    for lname, name in [("outPresentation14", "handle_presentation"), ("outSet14", "handle_set"), ("outReq14", "handle_req"),
                        ("outInternal14", "handle_internal"), ("outStream14", "handle_stream")]:
        T.append((lname, "outgoing", lambda n=name: raw(O14, n)))
    T.append(("setProtocolVersion", "setter", lambda: mods["gateway"].Gateway.__dict__["protocol_version"].fset))
    return T


def wrapper_of(deco):
    """The inner `wrapper` coroutine function of a decorator, as a code object's AST."""
    node = fn_ast(deco)
    for s in node.body:
        if isinstance(s, (ast.AsyncFunctionDef, ast.FunctionDef)) and s.name == "wrapper":
            return ("ast", s, deco)
    raise Untranslatable("decorator without an inner wrapper")


def translate(repo: str):
    sys.path.insert(0, os.path.join(repo, "src"))
    mods = {n: importlib.import_module(f"aiomysensors.model.protocol.{n}") for n in ("protocol_14", "protocol_20", "protocol_22")}
    mods["gateway"] = importlib.import_module("aiomysensors.gateway")
    node_mod = importlib.import_module("aiomysensors.model.node")
    NODE_CLS[0] = node_mod.Node
    out = {}       # name -> {"lean": text, "params": "...", "type": "..."} | {"error": reason}

    # Node methods
    for mname, params in [("add_child", {"child_id": "child_id", "child_type": "child_type", "description": "description", "values": "<none>"}),
                          ("set_child_value", {"child_id": "child_id", "value_type": "value_type", "value": "value"})]:
        key = f"Node.{mname}"
        try:
            fn = node_mod.Node.__dict__[mname]
            sig = [p for p in inspect.signature(fn).parameters if p != "self"]
            want = [p for p in params if params[p] != "<none>"]
            if [p for p in sig if p != "values"] != want:
                raise Untranslatable(f"signature of Node.{mname} changed: {sig}")
            body = compile_node_method(fn, params)
            tys = {"child_id": "Int", "child_type": "Int", "value_type": "Int", "description": "Str", "value": "Str"}
            binders = " ".join(f"({p} : {tys[p]})" for p in want)
            out[key] = {"lean": f"def Node.{mname} {binders} (n : Node) : Except Exn Node :=\n  {body}"}
        except (Untranslatable, KeyError, TypeError, OSError) as err:
            out[key] = {"error": str(err)[:200]}

    class FakeFn:
        def __init__(self, node, deco):
            self._node = node
            self.__globals__ = deco.__globals__

    for lname, kind, get in targets(mods):
        try:
            fn = get()
            if isinstance(fn, tuple):
                _, wnode, deco = fn
                fn = FakeFn(wnode, deco)
                node_get = lambda f=fn: f._node  # noqa: E731
            else:
                node_get = None
            if kind in ("handler", "pre", "flush"):
                cls_ = TrFlush if kind == "flush" else Tr
                tr = cls_(fn, "msg", HANDLER_PARAMS)
                node = fn_ast(fn)
                stmts = strip(node.body)
                if kind == "pre":
                    last = stmts[-1] if stmts else None
                    if not (isinstance(last, ast.Return) and isinstance(last.value, ast.Await)
                            and isinstance(last.value.value, ast.Call) and isinstance(last.value.value.func, ast.Attribute)
                            and isinstance(last.value.value.func.value, ast.Call)
                            and isinstance(last.value.value.func.value.func, ast.Name)
                            and last.value.value.func.value.func.id == "super"
                            and last.value.value.func.attr == fn.__name__):
                        raise Untranslatable("does not end in `return await super().<same>(...)`")
                    tr.kind = "unit"
                    text = tr.block(stmts[:-1], "(pure ())")
                    typ = "M Unit"
                else:
                    text = tr.block(stmts, None)
                    typ = "M Msg"
                binders = ("(env : Env) " if tr.uses_env else "") + ("(v : Ver) " if tr.uses_v else "") + "(m : Msg)"
                out[lname] = {"lean": f"def {lname} {binders} : {typ} :=\n  {text}"}
            elif kind == "wrapper":
                tr = Tr(fn, "msg", HANDLER_PARAMS)
                stmts = strip(node_get().body)
                text = tr.block(stmts, None)
                out[lname] = {"lean": f"def {lname} (inner : Msg → M Msg) (m : Msg) : M Msg :=\n  {text}"}
            elif kind == "outgoing":
                params = dict(HANDLER_PARAMS)
                params["message_buffer"] = ("buffer", "bool")
                tr = Tr(fn, "unit", params)
                stmts = strip(fn_ast(fn).body)
                text = tr.block(stmts, "(pure ())")
                out[lname] = {"lean": f"def {lname} (m : Msg) (buffer : Bool) : M Unit :=\n  {text}"}
            elif kind == "setter":
                tr = Tr(fn, "unit", {"self": ("<gateway>", "gateway"), "value": ("value", "str")})
                node = fn_ast(fn)
                stmts = strip(node.body)
                # protocol = get_protocol(value): the only statement whose failure is an exception of a dependency
                if not (stmts and isinstance(stmts[0], ast.Assign) and isinstance(stmts[0].targets[0], ast.Name)):
                    raise Untranslatable("setter does not start by resolving the protocol")
                pre, t, ty = tr.expr(stmts[0].value)
                if ty != ("exc", "ver"):
                    raise Untranslatable("setter's first statement is not get_protocol(value)")
                tr.env[stmts[0].targets[0].id] = ("protocol", "ver")
                text = f"(bind (Lit.liftPy {t}) fun protocol =>\n  {tr.block(stmts[1:], '(pure ())')})"
                out[lname] = {"lean": f"def {lname} (value : Str) : M Unit :=\n  {text}"}
        except (Untranslatable, KeyError, TypeError, OSError, AttributeError, IndexError) as err:
            out[lname] = {"error": f"{type(err).__name__}: {err}"[:300]}
    return out


# ------------------------------------------------------------------------------------------------
# StreamTransport (transport/__init__.py) -> Generated/StreamBodies.lean over Model/LitStream.lean

T_ERRORS = {"TransportError": ".transportError", "TransportReadError": ".transportRead", "TransportFailedError": ".transportFailed"}


class TrStream:
    def __init__(self, fn, method: str):
        self.fn = fn
        self.globals = fn.__globals__
        self.method = method
        self.clause_defs = []
        self.env = {}          # local name -> ("bytes", lean) | ("str", lean)

    def is_self_attr(self, node, attr) -> bool:
        return isinstance(node, ast.Attribute) and node.attr == attr and isinstance(node.value, ast.Name) and node.value.id == "self"

    @staticmethod
    def is_encode(a) -> bool:
        return (isinstance(a, ast.Call) and isinstance(a.func, ast.Attribute) and a.func.attr == "encode" and not a.args
                and not a.keywords and isinstance(a.func.value, ast.Name) and a.func.value.id == "decoded_message")

    def exc_name(self, node) -> str:
        if isinstance(node, ast.Name):
            name = node.id
        elif isinstance(node, ast.Attribute) and isinstance(node.value, ast.Name) and node.value.id == "asyncio":
            name = node.attr
        else:
            raise Untranslatable("except class expression")
        if name not in PYEXN:
            raise Untranslatable(f"except class {name} outside the model's vocabulary")
        return name

    def lib_raise(self, stmt) -> str:
        if not (isinstance(stmt, ast.Raise) and stmt.exc is not None):
            raise Untranslatable("not a raise")
        e = stmt.exc
        name = e.func.id if isinstance(e, ast.Call) and isinstance(e.func, ast.Name) else (e.id if isinstance(e, ast.Name) else None)
        if name not in T_ERRORS or self.globals.get(name) is None:
            raise Untranslatable(f"raise of {name}")
        return T_ERRORS[name]

    def simple(self, st) -> str:
        """One statement inside a try body -> TM term (TM Unit, or TM Bytes / TM Str for the two value forms)."""
        # self.reader, self.writer = await self._open_connection()
        if isinstance(st, ast.Assign) and len(st.targets) == 1 and isinstance(st.targets[0], ast.Tuple):
            t = st.targets[0].elts
            v = st.value
            if len(t) == 2 and self.is_self_attr(t[0], "reader") and self.is_self_attr(t[1], "writer") \
                    and isinstance(v, ast.Await) and isinstance(v.value, ast.Call) and self.is_self_attr(v.value.func, "_open_connection") \
                    and not v.value.args and not v.value.keywords:
                return "(LS.openConnection limit fault)"
        # name = await self.reader.readuntil(TERMINATOR)
        if isinstance(st, ast.Assign) and len(st.targets) == 1 and isinstance(st.targets[0], ast.Name) and isinstance(st.value, ast.Await):
            c = st.value.value
            if isinstance(c, ast.Call) and isinstance(c.func, ast.Attribute) and c.func.attr == "readuntil" \
                    and self.is_self_attr(c.func.value, "reader") and len(c.args) == 1 and isinstance(c.args[0], ast.Name) \
                    and self.globals.get(c.args[0].id) == b"\n" and not c.keywords:
                self.env[st.targets[0].id] = "bytes"
                return ("bind", st.targets[0].id, "LS.readuntil")
        if isinstance(st, ast.Expr):
            v = st.value
            aw = isinstance(v, ast.Await)
            c = v.value if aw else v
            if isinstance(c, ast.Call) and isinstance(c.func, ast.Attribute) and self.is_self_attr(c.func.value, "writer") and not c.keywords:
                if c.func.attr == "close" and not aw and not c.args:
                    return "(LS.close fault)"
                if c.func.attr == "wait_closed" and aw and not c.args:
                    return "(LS.waitClosed fault)"
                if c.func.attr == "drain" and aw and not c.args:
                    return "(LS.drain fault)"
                if c.func.attr == "write" and not aw and len(c.args) == 1:
                    a = c.args[0]
                    if self.is_encode(a) or (isinstance(a, ast.Name) and self.env.get(a.id) == "encoded"):
                        return "(LS.writerWrite line fault)"
        # return name.decode()
        if isinstance(st, ast.Return) and isinstance(st.value, ast.Call) and isinstance(st.value.func, ast.Attribute) \
                and st.value.func.attr == "decode" and not st.value.args and not st.value.keywords \
                and isinstance(st.value.func.value, ast.Name) and self.env.get(st.value.func.value.id) == "bytes":
            return ("ret", f"(LS.decode decodeUtf8 {lean_ident(st.value.func.value.id)})")
        raise Untranslatable(f"stream statement {ast.unparse(st)[:60]}")

    def try_(self, st: ast.Try, rest) -> str:
        if st.finalbody or st.orelse or not st.handlers:
            raise Untranslatable("try shape")
        body = strip(st.body)
        parts = [self.simple(b) for b in body]
        bound = None
        returns = False
        if len(parts) == 1 and isinstance(parts[0], tuple) and parts[0][0] == "bind":
            bound = parts[0][1]
            inner = parts[0][2]
        elif len(parts) == 1 and isinstance(parts[0], tuple) and parts[0][0] == "ret":
            returns = True
            inner = parts[0][1]
        else:
            if any(isinstance(x, tuple) for x in parts):
                raise Untranslatable("value statement inside a multi-statement try")
            inner = parts[-1]
            for x in reversed(parts[:-1]):
                inner = f"(TM.seq {x} {inner})"
        # handlers: all `raise Lib(...)`, or a single `pass`
        hs = st.handlers
        if len(hs) == 1 and len(strip(hs[0].body)) == 1 and isinstance(strip(hs[0].body)[0], ast.Pass):
            elts = hs[0].type.elts if isinstance(hs[0].type, ast.Tuple) else [hs[0].type]
            cl = "[" + ", ".join("." + self.exc_name(e) for e in elts) + "]"
            term = f"(TM.suppress {inner} {cl})"
        else:
            clauses = []
            for h in hs:
                if h.type is None:
                    raise Untranslatable("bare except")
                elts = h.type.elts if isinstance(h.type, ast.Tuple) else [h.type]
                hb = strip(h.body)
                if len(hb) != 1:
                    raise Untranslatable("except clause that does more than raise")
                clauses.append("([" + ", ".join("." + self.exc_name(e) for e in elts) + "], " + self.lib_raise(hb[0]) + ")")
            if self.method == "read":
                # the clause lists of `read` are named, so that the equality proof can relate them to the generated table
                # (`Gen.excStreamReadBlocks`) whatever their shape
                name = f"readClauses{len(self.clause_defs)}"
                self.clause_defs.append(f"def {name} : List (List PyExn × TErr) := [" + ", ".join(clauses) + "]")
                term = f"(TM.catchMap {inner} {name})"
            else:
                term = f"(TM.catchMap {inner} [" + ", ".join(clauses) + "])"
        if returns:
            if rest:
                raise Untranslatable("code after return")
            return term
        if bound:
            return f"(TM.bind {term} fun {lean_ident(bound)} =>\n  {self.block(rest)})"
        if not rest:
            return term
        return f"(TM.seq {term}\n  {self.block(rest)})"

    def block(self, stmts) -> str:
        stmts = strip(stmts)
        if not stmts:
            return "(TM.pure ())"
        st, rest = stmts[0], stmts[1:]
        # `if self.writer is not None: BODY` as the last statement  ==  `if self.writer is None: return` then BODY
        if isinstance(st, ast.If) and not st.orelse and not rest and isinstance(st.test, ast.Compare) and len(st.test.ops) == 1 \
                and isinstance(st.test.ops[0], ast.IsNot) and isinstance(st.test.comparators[0], ast.Constant) \
                and st.test.comparators[0].value is None:
            guard = ast.If(test=ast.Compare(left=st.test.left, ops=[ast.Is()], comparators=st.test.comparators),
                           body=[ast.Return(value=None)], orelse=[])
            return self.block([guard] + list(st.body))
        # `with contextlib.suppress(classes): BODY`  ==  `try: BODY except (classes): pass`
        if isinstance(st, ast.With) and len(st.items) == 1 and st.items[0].optional_vars is None:
            ce = st.items[0].context_expr
            if isinstance(ce, ast.Call) and not ce.keywords and ce.args and (
                    (isinstance(ce.func, ast.Attribute) and ce.func.attr == "suppress" and isinstance(ce.func.value, ast.Name)
                     and ce.func.value.id == "contextlib")
                    or (isinstance(ce.func, ast.Name) and ce.func.id == "suppress"
                        and getattr(self.globals.get("suppress"), "__module__", None) == "contextlib")):
                h = ast.ExceptHandler(type=ast.Tuple(elts=list(ce.args), ctx=ast.Load()), name=None, body=[ast.Pass()])
                return self.block([ast.Try(body=st.body, handlers=[h], orelse=[], finalbody=[])] + list(rest))
        # data = decoded_message.encode()   (hoisted out of the call; str.encode of the line cannot raise an OSError)
        if isinstance(st, ast.Assign) and len(st.targets) == 1 and isinstance(st.targets[0], ast.Name) and self.is_encode(st.value):
            self.env[st.targets[0].id] = "encoded"
            return self.block(rest)
        if isinstance(st, ast.If) and not st.orelse and isinstance(st.test, ast.Compare) and len(st.test.ops) == 1 \
                and isinstance(st.test.ops[0], ast.Is) and isinstance(st.test.comparators[0], ast.Constant) \
                and st.test.comparators[0].value is None and len(strip(st.body)) == 1:
            if self.is_self_attr(st.test.left, "reader"):
                cond = "LS.readerIsNone"
            elif self.is_self_attr(st.test.left, "writer"):
                cond = "LS.writerIsNone"
            else:
                raise Untranslatable("guard on something else than self.reader / self.writer")
            b = strip(st.body)[0]
            if isinstance(b, ast.Return) and b.value is None:
                then = "(TM.pure ())"
            else:
                then = f"(TM.raise (.lib {self.lib_raise(b)}))"
            return f"(TM.bind {cond} fun c => if c then {then}\n  else {self.block(rest)})"
        if isinstance(st, ast.Try):
            return self.try_(st, rest)
        raise Untranslatable(f"stream statement {ast.unparse(st)[:60]}")


STREAM_SIGS = {
    "connect": ("(limit : Nat) (fault : Option PyExn)", "TM Unit"),
    "disconnect": ("(fault : CloseFault)", "TM Unit"),
    "read": ("(decodeUtf8 : Bytes → Option Str)", "TM Str"),
    "write": ("(line : Str) (fault : WriteFault)", "TM Unit"),
}

STREAM_HEADER = """/-
GENERATED by tools/translate.py from `StreamTransport` (transport/__init__.py) of the aiomysensors working tree — do not edit.
Regenerated on every check run of C03 / C16 / C17; rewritten only when its content changes.  A definition marked
`-- snapshot` could not be translated on this run and is the last committed translation.
-/
import AioMySensors.Model.LitStream

set_option linter.unusedVariables false

namespace AioMySensors.GenStream
open AioMySensors AioMySensors.Stream

"""


def translate_stream(repo: str):
    sys.path.insert(0, os.path.join(repo, "src"))
    mod = importlib.import_module("aiomysensors.transport")
    out = {}
    for name, (binders, typ) in STREAM_SIGS.items():
        try:
            fn = mod.StreamTransport.__dict__[name]
            tr = TrStream(fn, name)
            text = tr.block(fn_ast(fn).body)
            out[name] = {"lean": "".join(d + "\n\n" for d in tr.clause_defs) + f"def {name} {binders} : {typ} :=\n  {text}"}
        except (Untranslatable, KeyError, TypeError, OSError, AttributeError, IndexError) as err:
            out[name] = {"error": f"{type(err).__name__}: {err}"[:300]}
    return out


# ------------------------------------------------------------------------------------------------
# The decoder's validators (model/message.py) -> Generated/CodecBodies.lean over Model/LitCodec.lean

PROTOCOL_ATTRS = {"INTERNAL_COMMAND_TYPE": ("(Gen.internalCommand v)", "int"), "NODE_ID_REQUEST_TYPES": ("(Gen.nodeIdRequestTypes v)", "intset"),
                  "STRICT_SYSTEM_COMMAND_TYPES": ("(Gen.strictSystemCommands v)", "intset"),
                  "VALID_SYSTEM_COMMAND_TYPES": ("(Gen.validSystemCommands v)", "intset"), "Command": ("<Command>", "cmdenum")}
CODEC_FUNCS = {"validate_command": "validate_command", "validate_message_type": "validate_message_type",
               "validate_child_id": "validate_child_id"}


class TrCodec:
    def __init__(self, fn, params: dict):
        self.fn = fn
        self.globals = fn.__globals__
        self.env = dict(params)      # name -> (lean, type): 'str' | 'int' | 'data' | 'protocol' | 'intset' | 'range' | 'ignored'
        self.n = 0
        self.uses_v = False

    def fresh(self, b):
        self.n += 1
        return f"{b}{self.n}"

    def const(self, node):
        import types
        val = None
        # <module alias>.CONSTANT
        if isinstance(node, ast.Attribute) and isinstance(node.value, ast.Name) and node.value.id not in self.env \
                and isinstance(self.globals.get(node.value.id), types.ModuleType):
            val = getattr(self.globals[node.value.id], node.attr, None)
            if isinstance(val, int) and not isinstance(val, bool):
                return lean_int(int(val)), "int"
            return None
        if isinstance(node, ast.Name) and node.id not in self.env and node.id in self.globals:
            val = self.globals[node.id]
            if isinstance(val, bool):
                return None
            if isinstance(val, int):
                return lean_int(int(val)), "int"
        return None

    def expr(self, node):
        """-> (pre, text, type); pre = [(var, CM term)]"""
        if isinstance(node, ast.Constant) and isinstance(node.value, int) and not isinstance(node.value, bool):
            return [], lean_int(node.value), "int"
        c = self.const(node)
        if c:
            return [], c[0], c[1]
        if isinstance(node, ast.Name) and node.id in self.env:
            t, ty = self.env[node.id]
            return [], t, ty
        # protocol.ATTR
        if isinstance(node, ast.Attribute) and isinstance(node.value, ast.Name) and self.env.get(node.value.id, ("", ""))[1] == "protocol" \
                and node.attr in PROTOCOL_ATTRS:
            self.uses_v = True
            return [], *PROTOCOL_ATTRS[node.attr]
        # data["key"]
        if isinstance(node, ast.Subscript) and isinstance(node.value, ast.Name) and self.env.get(node.value.id, ("", ""))[1] == "data" \
                and isinstance(node.slice, ast.Constant) and isinstance(node.slice.value, str):
            v = self.fresh("raw")
            return [(v, f'(LC.dataAt {self.env[node.value.id][0]} "{node.slice.value}")')], v, "str"
        # int(x)
        if isinstance(node, ast.Call) and isinstance(node.func, ast.Name) and node.func.id == "int" and len(node.args) == 1 and not node.keywords:
            p, t, ty = self.expr(node.args[0])
            if ty != "str":
                raise Untranslatable("int(non-str)")
            v = self.fresh("n")
            return p + [(v, f"(LC.pyIntC {t})")], v, "int"
        # another translated function
        if isinstance(node, ast.Call) and isinstance(node.func, ast.Name) and node.func.id in CODEC_FUNCS \
                and self.globals.get(node.func.id) is not None:
            callee = self.globals[node.func.id]
            sig = inspect.signature(callee)
            try:
                bound = sig.bind(*node.args, **{k.arg: k.value for k in node.keywords})
            except TypeError as err:
                raise Untranslatable(f"call of {node.func.id}: {err}") from err
            pre, args = [], []
            for pname in sig.parameters:
                if pname not in bound.arguments:
                    raise Untranslatable(f"call of {node.func.id} without {pname}")
                p, t, ty = self.expr(bound.arguments[pname])
                pre += p
                if ty == "protocol":
                    continue
                args.append(t)
            name = node.func.id
            if name == "validate_child_id":
                self.uses_v = True
                text = f"(GenCodec.validate_child_id v {' '.join(args)})"
            else:
                text = f"(GenCodec.{name} {' '.join(args)})"
            v = self.fresh("x")
            return pre + [(v, text)], v, "int"
        # {member.value for member in tuple(command_type)}
        if isinstance(node, ast.SetComp) and len(node.generators) == 1 and not node.generators[0].ifs:
            g = node.generators[0]
            it = g.iter
            if isinstance(it, ast.Call) and isinstance(it.func, ast.Name) and it.func.id == "tuple" and len(it.args) == 1:
                it = it.args[0]
            p, t, ty = self.expr(it)
            if ty == "cmdenum" and isinstance(g.target, ast.Name) and isinstance(node.elt, ast.Attribute) \
                    and node.elt.attr == "value" and isinstance(node.elt.value, ast.Name) and node.elt.value.id == g.target.id:
                self.uses_v = True
                return p, "(Gen.commandValues v)", "intset"
        # validate.Range(min=a, max=b, error=...)
        if isinstance(node, ast.Call) and isinstance(node.func, ast.Attribute) and node.func.attr == "Range" \
                and isinstance(node.func.value, ast.Name) and node.func.value.id == "validate" and not node.args:
            kw = {k.arg: k.value for k in node.keywords}
            if set(kw) - {"min", "max", "error"} or "min" not in kw or "max" not in kw:
                raise Untranslatable("validate.Range arguments")
            pl, lo, tl = self.expr(kw["min"])
            ph, hi, th = self.expr(kw["max"])
            if pl or ph or tl != "int" or th != "int":
                raise Untranslatable("validate.Range bounds")
            return [], f"{lo} {hi}", "range"
        if isinstance(node, ast.JoinedStr) or (isinstance(node, ast.Constant) and isinstance(node.value, str)):
            return [], "<text>", "ignored"
        raise Untranslatable(f"codec expression {ast.unparse(node)[:60]}")

    def cond(self, node):
        if isinstance(node, ast.BoolOp) and isinstance(node.op, ast.And):
            parts = [self.cond(v) for v in node.values]
            if any(p[0] for p in parts):
                raise Untranslatable("effectful condition")
            return [], "(" + " && ".join(p[1] for p in parts) + ")"
        if isinstance(node, ast.Compare) and len(node.ops) == 1:
            op = node.ops[0]
            pl, l, tl = self.expr(node.left)
            pr, r, tr_ = self.expr(node.comparators[0])
            if pl or pr:
                raise Untranslatable("effectful condition")
            if isinstance(op, (ast.Eq, ast.NotEq)) and tl == tr_ == "int":
                return [], f"({l} {'==' if isinstance(op, ast.Eq) else '!='} {r})"
            if isinstance(op, (ast.In, ast.NotIn)) and tl == "int" and tr_ == "intset":
                t = f"({r}.contains {l})"
                return [], (t if isinstance(op, ast.In) else f"(!{t})")
        raise Untranslatable(f"codec condition {ast.unparse(node)[:60]}")

    def wrap(self, pre, body, catch=None):
        for v, m in reversed(pre):
            if catch:
                m = f"(LC.catchV {m} {catch})"
            body = f"(LC.bind {m} fun {v} =>\n  {body})"
        return body

    def vraise(self, st) -> bool:
        if isinstance(st, ast.Raise) and st.exc is not None:
            e = st.exc
            name = e.func.id if isinstance(e, ast.Call) and isinstance(e.func, ast.Name) else (e.id if isinstance(e, ast.Name) else None)
            return name == "ValidationError" and self.globals.get("ValidationError") is not None
        return False

    def block(self, stmts) -> str:
        stmts = strip(stmts)
        if not stmts:
            raise Untranslatable("validator falls off its end")
        st, rest = stmts[0], stmts[1:]
        if isinstance(st, ast.Return) and st.value is not None:
            if rest:
                raise Untranslatable("code after return")
            p, t, ty = self.expr(st.value)
            if ty != "int":
                raise Untranslatable("validator returns a non-int")
            return self.wrap(p, f"(.ok {t})")
        if self.vraise(st):
            return "(.error .validation)"
        if isinstance(st, ast.Try):
            if st.finalbody or st.orelse or len(st.handlers) != 1 or not (len(strip(st.handlers[0].body)) == 1 and self.vraise(strip(st.handlers[0].body)[0])):
                raise Untranslatable("try shape in a validator")
            h = st.handlers[0]
            elts = h.type.elts if isinstance(h.type, ast.Tuple) else [h.type]
            names = []
            for e in elts:
                if not isinstance(e, ast.Name) or e.id not in PYEXN:
                    raise Untranslatable("except class in a validator")
                names.append("." + e.id)
            catch = "[" + ", ".join(names) + "]"
            body = strip(st.body)
            # try: return int(value)
            if len(body) == 1 and isinstance(body[0], ast.Return):
                if rest:
                    raise Untranslatable("code after return")
                p, t, ty = self.expr(body[0].value)
                if ty != "int":
                    raise Untranslatable("validator returns a non-int")
                return self.wrap(p, f"(.ok {t})", catch)
            # try: a = E1; b = E2 ...   (plain assignments: the clause applies to each of them)
            acc = []
            for b in body:
                if not (isinstance(b, ast.Assign) and len(b.targets) == 1 and isinstance(b.targets[0], ast.Name)):
                    raise Untranslatable("try body that is not a list of assignments")
                p, t, ty = self.expr(b.value)
                self.env[b.targets[0].id] = (t, ty)
                acc += p
            return self.wrap(acc, self.block(rest), catch)
        if isinstance(st, ast.Assign) and len(st.targets) == 1 and isinstance(st.targets[0], ast.Name):
            name = st.targets[0].id
            v = st.value
            # protocol = self.context.get("protocol")
            if isinstance(v, ast.Call) and isinstance(v.func, ast.Attribute) and v.func.attr == "get" and isinstance(v.func.value, ast.Attribute) \
                    and v.func.value.attr == "context" and len(v.args) == 1 and isinstance(v.args[0], ast.Constant) and v.args[0].value == "protocol":
                self.env[name] = ("<protocol>", "protocol")
                # the following `if protocol is None: raise ValidationError` cannot fire: Gateway sets the protocol in __init__
                if rest and isinstance(rest[0], ast.If) and isinstance(rest[0].test, ast.Compare) and isinstance(rest[0].test.ops[0], ast.Is) \
                        and isinstance(rest[0].test.left, ast.Name) and rest[0].test.left.id == name and not rest[0].orelse \
                        and len(strip(rest[0].body)) == 1 and self.vraise(strip(rest[0].body)[0]):
                    rest = rest[1:]
                return self.block(rest)
            p, t, ty = self.expr(v)
            self.env[name] = (t, ty)
            return self.wrap(p, self.block(rest)) if p else self.block(rest)
        # child_range(child_id)
        if isinstance(st, ast.Expr) and isinstance(st.value, ast.Call) and isinstance(st.value.func, ast.Name) \
                and self.env.get(st.value.func.id, ("", ""))[1] == "range" and len(st.value.args) == 1:
            p, t, ty = self.expr(st.value.args[0])
            if p or ty != "int":
                raise Untranslatable("range validator argument")
            return f"(LC.seq (LC.rangeV {self.env[st.value.func.id][0]} {t})\n  {self.block(rest)})"
        if isinstance(st, ast.If) and not st.orelse:
            body = strip(st.body)
            # if C: x = E   -> conditional rebinding of a set-valued local
            if len(body) == 1 and isinstance(body[0], ast.Assign) and isinstance(body[0].targets[0], ast.Name) \
                    and body[0].targets[0].id in self.env and self.env[body[0].targets[0].id][1] == "intset":
                _, c = self.cond(st.test)
                name = body[0].targets[0].id
                p, t, ty = self.expr(body[0].value)
                if p or ty != "intset":
                    raise Untranslatable("conditional rebinding")
                self.env[name] = (f"(if {c} then {t} else {self.env[name][0]})", "intset")
                return self.block(rest)
            _, c = self.cond(st.test)
            saved = dict(self.env)
            if body and (isinstance(body[-1], ast.Return) or self.vraise(body[-1])):
                a = self.block(body)
                self.env = saved
                return f"(if {c} then {a}\n  else {self.block(rest)})"
            # non-terminating branch made of ignorable locals and a nested guard: if C: <locals>; if D: raise
            inner = [b for b in body if not (isinstance(b, ast.Assign) and isinstance(b.targets[0], ast.Name))]
            for b in body:
                if isinstance(b, ast.Assign) and isinstance(b.targets[0], ast.Name):
                    p, t, ty = self.expr(b.value)
                    if p:
                        raise Untranslatable("effectful local in a branch")
                    self.env[b.targets[0].id] = (t, ty)
            if len(inner) == 1 and isinstance(inner[0], ast.If) and not inner[0].orelse and len(strip(inner[0].body)) == 1 \
                    and self.vraise(strip(inner[0].body)[0]):
                _, d = self.cond(inner[0].test)
                self.env = saved
                return f"(if ({c} && {d}) then (.error .validation)\n  else {self.block(rest)})"
            raise Untranslatable("if shape in a validator")
        raise Untranslatable(f"codec statement {ast.unparse(st)[:60]}")


CODEC_HEADER = """/-
GENERATED by tools/translate.py from the decoder's validators (model/message.py) of the aiomysensors working tree — do not edit.
Regenerated on every check run of C01 / C02; rewritten only when its content changes.  A definition marked
`-- snapshot` could not be translated on this run and is the last committed translation.
-/
import AioMySensors.Model.LitCodec

set_option linter.unusedVariables false

namespace AioMySensors.GenCodec
open AioMySensors

"""

CODEC_GLUE = """/-! glue (constant text): `MessageSchema.load` = marshmallow's `Schema.load` around the generated validators -/

def loadGen (v : Ver) (line : Str) : Except PyExn (Option Msg) :=
  LC.schemaLoad (validate_child_id v) (CommandField_validate_command v) (to_dict line)

/-- `MessageSchema.dump(message)`: marshmallow serialises the six attributes (the numeric ones stay ints, which
`to_string` prints with `str`), then `to_string` joins them.  No validator runs on dump. -/
def dumpGen (m : Msg) : LC.CM Str :=
  to_string (LC.dumpData m)"""

CODEC_ORDER = ["validate_command", "validate_message_type", "validate_child_id", "CommandField_validate_command", "to_dict", "to_string"]


def translate_codec(repo: str):
    sys.path.insert(0, os.path.join(repo, "src"))
    mod = importlib.import_module("aiomysensors.model.message")
    out = {}

    def attempt(name, f):
        try:
            out[name] = {"lean": f()}
        except (Untranslatable, KeyError, TypeError, OSError, AttributeError, IndexError) as err:
            out[name] = {"error": f"{type(err).__name__}: {err}"[:300]}

    def simple(fname):
        fn = getattr(mod, fname)
        tr = TrCodec(fn, {"value": ("value", "str")})
        return f"def {fname} (value : Str) : LC.CM Int :=\n  {tr.block(fn_ast(fn).body)}"

    attempt("validate_command", lambda: simple("validate_command"))
    attempt("validate_message_type", lambda: simple("validate_message_type"))

    def child():
        fn = mod.validate_child_id
        if list(inspect.signature(fn).parameters) != ["value", "data", "protocol"]:
            raise Untranslatable("signature of validate_child_id changed")
        tr = TrCodec(fn, {"value": ("value", "str"), "data": ("data", "data"), "protocol": ("<protocol>", "protocol")})
        return f"def validate_child_id (v : Ver) (value : Str) (data : LC.Data) : LC.CM Int :=\n  {tr.block(fn_ast(fn).body)}"

    attempt("validate_child_id", child)

    def command():
        fn = mod.CommandField.__dict__["validate_command"]
        if list(inspect.signature(fn).parameters) != ["self", "value", "data"]:
            raise Untranslatable("signature of CommandField.validate_command changed")
        tr = TrCodec(fn, {"value": ("value", "str"), "data": ("data", "data")})
        return f"def CommandField_validate_command (v : Ver) (value : Str) (data : LC.Data) : LC.CM Int :=\n  {tr.block(fn_ast(fn).body)}"

    attempt("CommandField_validate_command", command)

    def to_dict():
        fn = mod.MessageSchema.__dict__["to_dict"]
        fn = getattr(fn, "__wrapped__", fn)
        stmts = strip(fn_ast(fn).body)
        keep = ("self", "in_data", "data", "DELIMITER")
        spellings = [
            "def f():\n    list_data = in_data.rstrip().split(DELIMITER, len(self.fields) - 1)\n"
            "    return dict(zip(self.fields, list_data, strict=False))",
            "def f():\n    n = len(self.fields) - 1\n    list_data = in_data.rstrip().split(DELIMITER, n)\n"
            "    return dict(zip(self.fields, list_data, strict=False))",
            "def f():\n    return dict(zip(self.fields, in_data.rstrip().split(DELIMITER, len(self.fields) - 1), strict=False))",
            "def f():\n    text = in_data.rstrip()\n    list_data = text.split(DELIMITER, len(self.fields) - 1)\n"
            "    return dict(zip(self.fields, list_data, strict=False))",
        ]
        got = alpha(stmts, keep)
        if got not in [alpha_src(x, keep) for x in spellings]:
            raise Untranslatable("to_dict is not `rstrip().split(DELIMITER, len(fields) - 1)` zipped with the field names: " + " / ".join(got)[:160])
        if mod.DELIMITER != ";":
            raise Untranslatable("DELIMITER changed")
        return ("def to_dict (in_data : Str) : LC.Data :=\n"
                "  LC.zipDict Gen.messageFields (splitN Gen.delimiter (Gen.messageFields.length - 1) (rstrip in_data))")

    attempt("to_dict", to_dict)

    def to_string():
        fn = mod.MessageSchema.__dict__["to_string"]
        fn = getattr(fn, "__wrapped__", fn)
        stmts = strip(fn_ast(fn).body)
        got = [ast.unparse(x) for x in stmts]
        keep = ("self", "in_data", "data", "DELIMITER")
        spellings = []
        for elems in ("[str(data[field]) for field in self.fields]", "(str(data[field]) for field in self.fields)",
                      "str(data[field]) for field in self.fields"):
            for whole in ('f"{DELIMITER.join(ELEMS)}\\n"', 'DELIMITER.join(ELEMS) + "\\n"'):
                e = whole.replace("ELEMS", elems)
                spellings.append("def f():\n    try:\n        string = " + e + "\n    except KeyError as err:\n"
                                 "        raise ValidationError('Not a valid Message instance') from err\n    return string")
                spellings.append("def f():\n    try:\n        return " + e + "\n    except KeyError as err:\n"
                                 "        raise ValidationError('Not a valid Message instance') from err")
        want_all = []
        for x in spellings:
            try:
                want_all.append(alpha_src(x, keep))
            except SyntaxError:
                pass
        if alpha(stmts, keep) not in want_all:
            raise Untranslatable("to_string is not the delimiter-join of str(data[field]) over the fields plus a newline, with KeyError -> "
                                 "ValidationError: " + " / ".join(got)[:200])
        if mod.DELIMITER != ";":
            raise Untranslatable("DELIMITER changed")
        return ("def to_string (data : LC.Data) : LC.CM Str :=\n"
                "  LC.bind (LC.catchV (LC.mapFields data Gen.messageFields) [.KeyError]) fun texts =>\n"
                "  .ok (joinWith Gen.delimiter texts ++ [Char.ofNat 10])")

    attempt("to_string", to_string)
    # the two custom fields must still hand over to the translated validators
    try:
        a = ast.unparse(fn_ast(mod.ChildIdField.__dict__["_deserialize"]).body[-1])
        b = ast.unparse(fn_ast(mod.CommandField.__dict__["_deserialize"]).body[-1])
        if a != "return validate_child_id(value=value, data=data, protocol=protocol)" or b != "return self.validate_command(value=value, data=data)":
            out["validate_child_id"] = {"error": "ChildIdField/CommandField._deserialize no longer end in the validator call"}
    except Exception as err:  # noqa: BLE001
        out["validate_child_id"] = {"error": f"custom fields unreadable: {err}"[:200]}
    return out


# ------------------------------------------------------------------------------------------------
# The MQTT topic <-> line mapping (transport/mqtt.py) -> Generated/MqttBodies.lean over Model/LitMqtt.lean


class TrMqtt:
    """Straight-line code over str / list[str] values, with tuple assignments that may raise ValueError."""

    def __init__(self, fn, params: dict):
        self.fn = fn
        self.env = dict(params)      # name -> (lean, type): 'str' | 'list' | 'int'
        self.n = 0

    def fresh(self, b):
        self.n += 1
        return f"{b}{self.n}"

    def char(self, node) -> str:
        if isinstance(node, ast.Constant) and isinstance(node.value, str) and len(node.value) == 1:
            return f"(Char.ofNat {ord(node.value)})"
        raise Untranslatable("separator that is not a one-character literal")

    def expr(self, node):
        """-> (binds, text, type); binds = [(pattern, PM term)]"""
        if isinstance(node, ast.Name) and node.id in self.env:
            return [], *self.env[node.id]
        if isinstance(node, ast.Attribute) and isinstance(node.value, ast.Name) and node.value.id == "self" and node.attr in self.env:
            return [], *self.env[node.attr]
        if isinstance(node, ast.Call) and isinstance(node.func, ast.Attribute) and not node.keywords:
            f = node.func
            if f.attr == "rstrip" and not node.args:
                b, t, ty = self.expr(f.value)
                if ty == "str":
                    return b, f"(rstrip {t})", "str"
            if f.attr == "split" and len(node.args) in (1, 2):
                b, t, ty = self.expr(f.value)
                if ty == "str":
                    d = self.char(node.args[0])
                    if len(node.args) == 1:
                        return b, f"(splitOn {d} {t})", "list"
                    if isinstance(node.args[1], ast.Constant) and isinstance(node.args[1].value, int) and node.args[1].value >= 0:
                        return b, f"(splitN {d} {node.args[1].value} {t})", "list"
            if f.attr == "join" and len(node.args) == 1:
                d = self.char(f.value)
                b, t, ty = self.expr(node.args[0])
                if ty == "list":
                    return b, f"(joinWith {d} {t})", "str"
        if isinstance(node, ast.Call) and isinstance(node.func, ast.Name) and node.func.id == "int" and len(node.args) == 1 and not node.keywords:
            b, t, ty = self.expr(node.args[0])
            if ty == "str":
                v = self.fresh("q")
                return b + [(v, f"(LMq.pyInt {t})")], v, "int"
        # xs[-k:]
        if isinstance(node, ast.Subscript) and isinstance(node.slice, ast.Slice) and node.slice.upper is None and node.slice.step is None \
                and isinstance(node.slice.lower, ast.UnaryOp) and isinstance(node.slice.lower.op, ast.USub) \
                and isinstance(node.slice.lower.operand, ast.Constant) and isinstance(node.slice.lower.operand.value, int) \
                and node.slice.lower.operand.value > 0:
            b, t, ty = self.expr(node.value)
            if ty == "list":
                return b, f"(LMq.lastN {node.slice.lower.operand.value} {t})", "list"
        # a + b on two strings or two lists
        if isinstance(node, ast.BinOp) and isinstance(node.op, ast.Add):
            b1, t1, ty1 = self.expr(node.left)
            b2, t2, ty2 = self.expr(node.right)
            if ty1 == ty2 and ty1 in ("str", "list"):
                return b1 + b2, f"({t1} ++ {t2})", ty1
            raise Untranslatable("+ on other than two strings or two lists")
        if isinstance(node, ast.Constant) and isinstance(node.value, str):
            return [], lean_str(node.value), "str"
        # [a, b]
        if isinstance(node, ast.List) and not any(isinstance(e, ast.Starred) for e in node.elts):
            binds, texts = [], []
            for e in node.elts:
                b, t, ty = self.expr(e)
                if ty != "str":
                    raise Untranslatable("list of non-strings")
                binds += b
                texts.append(t)
            return binds, "[" + ", ".join(texts) + "]", "list"
        # f"{a}/{b}"
        if isinstance(node, ast.JoinedStr):
            parts, binds = [], []
            for v in node.values:
                if isinstance(v, ast.Constant) and isinstance(v.value, str):
                    parts.append(lean_str(v.value))
                elif isinstance(v, ast.FormattedValue) and v.conversion == -1 and v.format_spec is None:
                    b, t, ty = self.expr(v.value)
                    if ty != "str":
                        raise Untranslatable("f-string of a non-str")
                    binds += b
                    parts.append(t)
                else:
                    raise Untranslatable("f-string part")
            return binds, "(" + " ++ ".join(parts) + ")", "str"
        raise Untranslatable(f"mqtt expression {ast.unparse(node)[:60]}")

    def wrap(self, binds, body):
        for pat, m in reversed(binds):
            body = f"(LMq.bind {m} fun {pat} =>\n  {body})"
        return body

    def block(self, stmts, ret_pure: bool) -> str:
        stmts = strip(stmts)
        if not stmts:
            raise Untranslatable("function falls off its end")
        st, rest = stmts[0], stmts[1:]
        if isinstance(st, ast.Return) and st.value is not None:
            if rest:
                raise Untranslatable("code after return")
            elts = st.value.elts if isinstance(st.value, ast.Tuple) else [st.value]
            binds, texts = [], []
            for e in elts:
                b, t, ty = self.expr(e)
                binds += b
                texts.append(t)
            val = texts[0] if len(texts) == 1 else "(" + ", ".join(texts) + ")"
            if ret_pure:
                if binds:
                    raise Untranslatable("a function declared total can raise")
                return val
            return self.wrap(binds, f"(.ok {val})")
        if isinstance(st, ast.Assign) and len(st.targets) == 1:
            t = st.targets[0]
            b, v, ty = self.expr(st.value)
            if isinstance(t, ast.Name):
                self.env[t.id] = (v, ty)
                body = self.block(rest, ret_pure)
                if b and ret_pure:
                    raise Untranslatable("a function declared total can raise")
                return self.wrap(b, body)
            if isinstance(t, ast.Tuple) and ty == "list":
                names = t.elts
                stars = [i for i, e in enumerate(names) if isinstance(e, ast.Starred)]
                if ret_pure:
                    raise Untranslatable("a function declared total can raise")
                if stars == [0] and len(names) == 2 and isinstance(names[0].value, ast.Name) and isinstance(names[1], ast.Name):
                    a, c = self.fresh("init"), self.fresh("last")
                    self.env[names[0].value.id] = (a, "list")
                    self.env[names[1].id] = (c, "str")
                    return self.wrap(b + [(f"({a}, {c})", f"(LMq.unpackInitLast {v})")], self.block(rest, ret_pure))
                if not stars and len(names) == 5 and all(isinstance(e, ast.Name) for e in names):
                    vs = []
                    for e in names:
                        x = self.fresh("u")
                        vs.append(x)
                        if e.id != "_":
                            self.env[e.id] = (x, "str")
                    return self.wrap(b + [("(" + ", ".join(vs) + ")", f"(LMq.unpack5 {v})")], self.block(rest, ret_pure))
            raise Untranslatable(f"assignment target {ast.unparse(t)[:40]}")
        # xs.append(x)
        if isinstance(st, ast.Expr) and isinstance(st.value, ast.Call) and isinstance(st.value.func, ast.Attribute) \
                and st.value.func.attr == "append" and isinstance(st.value.func.value, ast.Name) and len(st.value.args) == 1:
            name = st.value.func.value.id
            if self.env.get(name, ("", ""))[1] == "list":
                b, v, ty = self.expr(st.value.args[0])
                if b or ty != "str":
                    raise Untranslatable("append of a non-str")
                self.env[name] = (f"({self.env[name][0]} ++ [{v}])", "list")
                return self.block(rest, ret_pure)
        raise Untranslatable(f"mqtt statement {ast.unparse(st)[:60]}")


MQTT_HEADER = """/-
GENERATED by tools/translate.py from the topic <-> line mapping of `MQTTTransport` (transport/mqtt.py) — do not edit.
Regenerated on every check run of C18; rewritten only when its content changes.  A definition marked
`-- snapshot` could not be translated on this run and is the last committed translation.
-/
import AioMySensors.Model.LitMqtt

set_option linter.unusedVariables false

namespace AioMySensors.GenMqtt
open AioMySensors

"""
MQTT_ORDER = ["parse_message_to_mqtt", "parse_mqtt_to_message"]


def translate_mqtt(repo: str):
    sys.path.insert(0, os.path.join(repo, "src"))
    mod = importlib.import_module("aiomysensors.transport.mqtt")
    out = {}
    try:
        fn = mod.MQTTTransport.__dict__["_parse_message_to_mqtt"]
        if list(inspect.signature(fn).parameters) != ["self", "decoded_message"]:
            raise Untranslatable("signature changed")
        tr = TrMqtt(fn, {"decoded_message": ("decoded_message", "str"), "out_prefix": ("out_prefix", "str")})
        out["parse_message_to_mqtt"] = {"lean": "def parse_message_to_mqtt (out_prefix : Str) (decoded_message : Str) : LMq.PM (Str × Str × Int) :=\n  "
                                        + tr.block(fn_ast(fn).body, False)}
    except (Untranslatable, KeyError, TypeError, OSError, AttributeError, IndexError) as err:
        out["parse_message_to_mqtt"] = {"error": f"{type(err).__name__}: {err}"[:300]}
    try:
        fn = mod.MQTTTransport.__dict__["_parse_mqtt_to_message"]
        fn = fn.__func__ if isinstance(fn, staticmethod) else fn
        if list(inspect.signature(fn).parameters) != ["topic", "payload"]:
            raise Untranslatable("signature changed")
        tr = TrMqtt(fn, {"topic": ("topic", "str"), "payload": ("payload", "str")})
        out["parse_mqtt_to_message"] = {"lean": "def parse_mqtt_to_message (topic payload : Str) : Str :=\n  " + tr.block(fn_ast(fn).body, True)}
    except (Untranslatable, KeyError, TypeError, OSError, AttributeError, IndexError) as err:
        out["parse_mqtt_to_message"] = {"error": f"{type(err).__name__}: {err}"[:300]}
    return out


# ------------------------------------------------------------------------------------------------
# Persistence.load / Persistence.save (persistence.py) -> Generated/PersistBodies.lean over Model/LitPersist.lean


def _classes(h: ast.ExceptHandler, glob) -> str:
    if h.type is None:
        raise Untranslatable("bare except")
    elts = h.type.elts if isinstance(h.type, ast.Tuple) else [h.type]
    names = []
    for e in elts:
        name = e.id if isinstance(e, ast.Name) else (e.attr if isinstance(e, ast.Attribute) else None)
        if name not in PYEXN:
            raise Untranslatable(f"except class {name} outside the model's vocabulary")
        names.append("." + name)
    return "[" + ", ".join(names) + "]"


def _raises(stmts, cls: str) -> bool:
    b = strip(stmts)
    if len(b) != 1 or not isinstance(b[0], ast.Raise) or b[0].exc is None:
        return False
    e = b[0].exc
    return isinstance(e, ast.Call) and isinstance(e.func, ast.Name) and e.func.id == cls


def alpha(stmts, keep=()):
    """The statements as text, with every local (assignment / `for` / `with … as` / `except … as` target) renamed to
    `_L<n>` in order of first binding and constant keyword arguments sorted by name: two bodies that differ only in the
    names of their locals, or in the order of keyword arguments whose values are literals, have the same text."""
    names = {}

    def bind(n):
        if n not in names and n not in keep:
            names[n] = f"_L{len(names)}"

    class Collect(ast.NodeVisitor):
        def visit_Name(self, node):
            if isinstance(node.ctx, ast.Store):
                bind(node.id)

        def visit_ExceptHandler(self, node):
            self.generic_visit(node)
            if node.name:
                bind(node.name)

    class Rename(ast.NodeTransformer):
        def visit_Name(self, node):
            return ast.copy_location(ast.Name(id=names.get(node.id, node.id), ctx=node.ctx), node)

        def visit_ExceptHandler(self, node):
            self.generic_visit(node)
            if node.name:
                node.name = names.get(node.name, node.name)
            return node

        def visit_Call(self, node):
            self.generic_visit(node)
            if node.keywords and all(k.arg is not None and isinstance(k.value, ast.Constant) for k in node.keywords):
                node.keywords = sorted(node.keywords, key=lambda k: k.arg)
            return node

    import copy
    stmts = [copy.deepcopy(x) for x in stmts]
    for x in stmts:
        Collect().visit(x)
    return [ast.unparse(ast.fix_missing_locations(Rename().visit(x))) for x in stmts]


def alpha_src(src: str, keep=()):
    return alpha(strip(ast.parse(textwrap.dedent(src)).body[0].body), keep)


LOAD_SHAPE = """
def load(self, path=None):
    path = path or self.path
    try:
        async with aiofiles.open(path) as fil:
            read = await fil.read()
        data: dict = json.loads(read or "{}")
    except X:
        pass
    node_schema = NodeSchema()
    try:
        for node_data in data.values():
            node: Node = node_schema.load(node_data)
            self.nodes[node.node_id] = node
    except X:
        pass
"""
SAVE_SHAPE = """
def save(self):
    data = {}
    node_schema = NodeSchema()
    for node in self.nodes.values():
        data[node.node_id] = node_schema.dump(node)
    try:
        async with aiofiles.open(self.path, mode="w") as fil:
            await fil.write(json.dumps(data, sort_keys=True, indent=2))
    except X:
        pass
"""


def _no_handlers(stmts):
    """The statements with the handlers of every `try` removed (they are read separately)."""
    import copy
    out = []
    for x in stmts:
        x = copy.deepcopy(x)
        for t in ast.walk(x):
            if isinstance(t, ast.Try):
                t.handlers = [ast.ExceptHandler(type=ast.Name(id="X", ctx=ast.Load()), name=None, body=[ast.Pass()])]
        out.append(x)
    return out


def translate_persist(repo: str):
    sys.path.insert(0, os.path.join(repo, "src"))
    mod = importlib.import_module("aiomysensors.persistence")
    out = {}
    # ---- load
    try:
        fn = mod.Persistence.__dict__["load"]
        st = strip(fn_ast(fn).body)
        # the statements outside the handlers, up to the names of the locals
        got = alpha(_no_handlers(st), keep=("path", "self"))
        want = alpha_src(LOAD_SHAPE, keep=("path", "self"))
        if got != want or not (len(st) == 4 and isinstance(st[1], ast.Try) and isinstance(st[3], ast.Try)):
            raise Untranslatable("load is not: path default / try read+parse / schema / try restore: " + " / ".join(got)[:200])
        t1, t2 = st[1], st[3]
        if t1.orelse or t1.finalbody or t2.orelse or t2.finalbody:
            raise Untranslatable("try … else / finally in load")
        clauses = []
        for h in t1.handlers:
            hb = [ast.unparse(x) for x in strip(h.body)]
            if hb == ["await self.save()", "return"]:
                act = ".saveAndReturn"
            elif _raises(h.body, "PersistenceReadError"):
                act = ".raiseRead"
            else:
                raise Untranslatable("handler of the first try of load: " + " / ".join(hb)[:160])
            clauses.append(f"({_classes(h, fn.__globals__)}, {act})")
        if len(t2.handlers) != 1 or not _raises(t2.handlers[0].body, "PersistenceReadError"):
            raise Untranslatable("handlers of the second try of load")
        out["load"] = {"lean": "def loadClauses : List (List PyExn × LP.ReadAction) := [" + ", ".join(clauses) + "]\n\n"
                               f"def loadRestoreClasses : List PyExn := {_classes(t2.handlers[0], fn.__globals__)}\n\n"
                               "def load (cur : PDict Int Node) (fs : Persist.FileState) : Except Persist.Exn Persist.Loaded :=\n"
                               "  LP.tryRead cur (LP.openReadParse fs) loadClauses fun data =>\n"
                               "  LP.catchRead (LP.loadEach cur data) loadRestoreClasses"}
    except (Untranslatable, KeyError, TypeError, OSError, AttributeError, IndexError) as err:
        out["load"] = {"error": f"{type(err).__name__}: {err}"[:300]}
    # ---- save
    try:
        fn = mod.Persistence.__dict__["save"]
        st = strip(fn_ast(fn).body)
        got = alpha(_no_handlers(st), keep=("self",))
        want = alpha_src(SAVE_SHAPE, keep=("self",))
        if len(st) != 4 or not isinstance(st[3], ast.Try) or got[:3] != want[:3]:
            raise Untranslatable("save does not start by dumping every node into a dict, then one try: " + " / ".join(got)[:200])
        t = st[3]
        tb = strip(t.body)
        if len(tb) != 1 or not isinstance(tb[0], ast.AsyncWith) or len(tb[0].items) != 1 or t.orelse or t.finalbody \
                or len(t.handlers) != 1 or not _raises(t.handlers[0].body, "PersistenceWriteError"):
            raise Untranslatable("try of save")
        # the file operations, read from the normalised text of the `async with`
        w = ast.parse(got[3]).body[0].body[0]
        wwant = ast.parse(want[3]).body[0].body[0]
        ops = []
        opn = ast.unparse(w.items[0].context_expr)
        if opn == ast.unparse(wwant.items[0].context_expr) and ast.unparse(w.items[0].optional_vars) == ast.unparse(wwant.items[0].optional_vars):
            ops.append(".openTrunc .live")
        else:
            raise Untranslatable("save opens " + opn[:80])
        for x in strip(w.body):
            ux = ast.unparse(x)
            if ux == ast.unparse(wwant.body[0]):
                ops.append(".write .live new")
            else:
                raise Untranslatable("inside the open file: " + ux[:100])
        ops.append(".close .live")
        out["saveOps"] = {"lean": "def saveOps (new : FileOps.Bytes) : List FileOps.FsOp :=\n  [" + ", ".join(ops) + "]\n\n"
                                  f"def saveErr (c : PyExn) : Persist.Exn := LP.writeErr {_classes(t.handlers[0], fn.__globals__)} c"}
    except (Untranslatable, KeyError, TypeError, OSError, AttributeError, IndexError) as err:
        out["saveOps"] = {"error": f"{type(err).__name__}: {err}"[:300]}
    return out


PERSIST_HEADER = """/-
GENERATED by tools/translate.py from `Persistence.load` / `Persistence.save` (persistence.py) — do not edit.
Regenerated on every check run of C13 / C14 / C15; rewritten only when its content changes.  A definition marked
`-- snapshot` could not be translated on this run and is the last committed translation.
-/
import AioMySensors.Model.LitPersist

set_option linter.unusedVariables false

namespace AioMySensors.GenPersist
open AioMySensors AioMySensors.FileOps

"""
PERSIST_ORDER = ["load", "saveOps"]


HEADER = """/-
GENERATED by tools/translate.py from the handler bodies of the aiomysensors working tree — do not edit.
Regenerated on every check run; rewritten only when its content changes.  A definition marked
`-- snapshot` could not be translated on this run and is the last committed translation.
-/
import AioMySensors.Model.Lit

set_option linter.unusedVariables false

namespace AioMySensors.GenBodies
open AioMySensors M

"""

GLUE_SEND = """/-! glue (constant text): `Gateway.send` after the dump picks the generated outgoing handler of the active protocol -/

/-- The generated outgoing handler for a body of the outgoing table (`extract.py` calls `direct` the handlers
whose generated text `Lemmas/BodiesEq.lean` checks to be a plain write). -/
def outBody : OutBody → Msg → Bool → M Unit
  | .direct => outInternal14
  | .set14 => outSet14

def gwSend' (m : Msg) (b : Bool) : M Unit :=
  bind getSt fun st =>
  match (Gen.outgoingHandlers st.proto).lookup m.cmd with
  | none => raise (.foreign .ValueError)
  | some none => raise (.foreign .AttributeError)
  | some (some ob) => outBody ob m b

def apiSendGen (obj : Option Msg) (buffer : Bool) : M Unit :=
  match obj with
  | none => raise (.lib .invalidMessage)
  | some m => gwSend' m buffer"""

GLUE_TYPED = """/-! glue (constant text): handlers reached through `getattr(cls, "handle_<type name>")`, with their decorators -/

def leafGen (env : Env) : Body → Option (Msg → M Msg)
  | .iVersion14 => some iVersion14
  | .iIdRequest14 => some iIdRequest14
  | .iConfig14 => some (iConfig14 env)
  | .iTime14 => some (iTime14 env)
  | .iBatteryLevel14 => some iBatteryLevel14
  | .iSketchName14 => some iSketchName14
  | .iSketchVersion14 => some iSketchVersion14
  | .iGatewayReady20 => some iGatewayReady20
  | .iDiscoverResponse20 => some iDiscoverResponse20
  | .iHeartbeatResponse20 => some iHeartbeatResponse20
  | .iHeartbeatResponse22 => some iHeartbeatResponse22
  | .iPreSleepNotification22 => some iPreSleepNotification22
  | .set14 => some set14
  | .req14 => some req14
  | _ => none

def preGen : Body → Msg → M Unit
  | .presentation20 => presentation20
  | _ => fun _ => raise (.foreign .RuntimeError)

def applyLayersGen (layers : List Layer) (base : Msg → M Msg) : Msg → M Msg :=
  match layers with
  | [] => base
  | .wrap .missingPV :: ls => wrapMissingPV (applyLayersGen ls base)
  | .wrap .missingNC :: ls => wrapMissingNC (applyLayersGen ls base)
  | .pre b :: ls => fun m => seq (preGen b m) (applyLayersGen ls base m)

def runInnerGen (env : Env) (ch : Chain) : Msg → M Msg :=
  match leafGen env ch.base with
  | some f => applyLayersGen ch.layers f
  | none => fun _ => raise (.foreign .RuntimeError)

/-- `_handle_message`: no handler -> the message is returned as it is. -/
def runTypedGen (env : Env) (ch : Option Chain) : Msg → M Msg :=
  match ch with
  | some ch => runInnerGen env ch
  | none => pure"""

GLUE_RECV = """/-! glue (constant text): one iteration of `Gateway.listen`, every body taken from the translation -/

def baseGen (env : Env) (v : Ver) : Body → Msg → M Msg
  | .presentation14 => presentation14 env v
  | .internal14 => internal14 env v
  | .stream14 => stream14 env v
  | b => match leafGen env b with
    | some f => f
    | none => fun _ => raise (.foreign .RuntimeError)

def dispatchGen (env : Env) (v : Ver) (m : Msg) : M Msg :=
  match (Gen.commandChains v).lookup m.cmd with
  | none => raise (.foreign .ValueError)
  | some ch => applyLayersGen ch.layers (baseGen env v ch.base) m

def recvGen (env : Env) (line : Str) : M Msg :=
  bind getSt fun st =>
  match decode st.proto line with
  | none => raise (.lib .invalidMessage)
  | some m => dispatchGen env st.proto m"""

ORDER = ["Node.add_child", "Node.set_child_value", "setProtocolVersion",
         "outPresentation14", "outSet14", "outReq14", "outInternal14", "outStream14", "<GLUE_SEND>",
         "sleepBuffer20", "wrapMissingPV", "wrapMissingNC",
         "set14", "req14", "iVersion14", "iIdRequest14", "iConfig14",
         "iTime14", "iBatteryLevel14", "iSketchName14", "iSketchVersion14", "presentation20", "iGatewayReady20",
         "iDiscoverResponse20", "iHeartbeatResponse20", "iHeartbeatResponse22", "iPreSleepNotification22", "<GLUE_TYPED>",
         "presentation14", "internal14", "stream14", "<GLUE_RECV>"]
GLUE = {"<GLUE_SEND>": GLUE_SEND, "<GLUE_TYPED>": GLUE_TYPED, "<GLUE_RECV>": GLUE_RECV}


def main() -> int:
    ap = argparse.ArgumentParser()
    ap.add_argument("--repo", default="/repo")
    ap.add_argument("--out", required=True)
    ap.add_argument("--snapshot", required=True, help="tools/bodies_snapshot.json (read; written with --update-snapshot)")
    ap.add_argument("--json", default=None, help="write the per-body status here")
    ap.add_argument("--update-snapshot", action="store_true")
    ap.add_argument("--stream-out", default=None, help="also translate StreamTransport into this file")
    ap.add_argument("--codec-out", default=None, help="also translate the decoder's validators into this file")
    ap.add_argument("--mqtt-out", default=None, help="also translate the MQTT topic/line mapping into this file")
    ap.add_argument("--persist-out", default=None, help="also translate Persistence.load / save into this file")
    ap.add_argument("--force-snapshot", action="store_true", help="write every body from the snapshot")
    a = ap.parse_args()
    try:
        res = {} if a.force_snapshot else translate(a.repo)
    except Exception as err:  # noqa: BLE001
        print(f"TRANSLATE-FAILED {type(err).__name__}: {err}")
        res = {}
    try:
        with open(a.snapshot, encoding="utf-8") as f:
            snap = json.load(f)
    except (OSError, ValueError):
        snap = {}
    chunks, status = [], {}
    for name in ORDER:
        if name in GLUE:
            chunks.append(GLUE[name])
            continue
        r = res.get(name, {"error": "snapshot forced" if a.force_snapshot else "not attempted"})
        if "lean" in r:
            chunks.append(r["lean"])
            status[name] = "translated" if snap.get(name) == r["lean"] else "translated-changed"
        elif name in snap:
            chunks.append("-- snapshot (untranslatable on this run: " + r["error"].replace("\n", " ") + ")\n" + snap[name])
            status[name] = "untranslatable: " + r["error"]
        else:
            print(f"TRANSLATE-FAILED {name}: {r['error']} (and no snapshot)")
            return 1
    text = HEADER + "\n\n".join(chunks) + "\n\nend AioMySensors.GenBodies\n"
    old = None
    try:
        with open(a.out, encoding="utf-8") as f:
            old = f.read()
    except OSError:
        pass
    if old != text:
        with open(a.out, "w", encoding="utf-8") as f:
            f.write(text)
    if a.update_snapshot:
        with open(a.snapshot, "w", encoding="utf-8") as f:
            json.dump({n: res[n]["lean"] for n in ORDER if n not in GLUE and "lean" in res.get(n, {})}, f, indent=1, sort_keys=True)
    if a.json:
        with open(a.json, "w", encoding="utf-8") as f:
            json.dump(status, f, indent=1, sort_keys=True)
    groups = [("stream", a.stream_out, translate_stream, list(STREAM_SIGS), STREAM_HEADER, "", "AioMySensors.GenStream"),
              ("codec", a.codec_out, translate_codec, CODEC_ORDER, CODEC_HEADER, CODEC_GLUE, "AioMySensors.GenCodec"),
              ("mqtt", a.mqtt_out, translate_mqtt, MQTT_ORDER, MQTT_HEADER, "", "AioMySensors.GenMqtt"),
              ("persist", a.persist_out, translate_persist, PERSIST_ORDER, PERSIST_HEADER, "", "AioMySensors.GenPersist")]
    for gname, gout, gfun, gorder, gheader, gglue, gns in groups:
        if not gout:
            continue
        try:
            gres = {} if a.force_snapshot else gfun(a.repo)
        except Exception as err:  # noqa: BLE001
            print(f"TRANSLATE-{gname.upper()}-FAILED {type(err).__name__}: {err}")
            gres = {}
        gchunks = []
        for name in gorder:
            key = gname + "." + name
            r = gres.get(name, {"error": "snapshot forced" if a.force_snapshot else "not attempted"})
            if "lean" in r:
                gchunks.append(r["lean"])
                status[key] = "translated" if snap.get(key) == r["lean"] else "translated-changed"
            elif key in snap:
                gchunks.append("-- snapshot (untranslatable on this run: " + r["error"].replace("\n", " ") + ")\n" + snap[key])
                status[key] = "untranslatable: " + r["error"]
            else:
                print(f"TRANSLATE-FAILED {key}: {r['error']} (and no snapshot)")
                return 1
        gtext = gheader + "\n\n".join(gchunks) + ("\n\n" + gglue if gglue else "") + f"\n\nend {gns}\n"
        try:
            with open(gout, encoding="utf-8") as f:
                gold = f.read()
        except OSError:
            gold = None
        if gold != gtext:
            with open(gout, "w", encoding="utf-8") as f:
                f.write(gtext)
        if a.update_snapshot:
            with open(a.snapshot, encoding="utf-8") as f:
                cur = json.load(f)
            cur.update({gname + "." + n: gres[n]["lean"] for n in gorder if "lean" in gres.get(n, {})})
            with open(a.snapshot, "w", encoding="utf-8") as f:
                json.dump(cur, f, indent=1, sort_keys=True)
    if a.json:
        with open(a.json, "w", encoding="utf-8") as f:
            json.dump(status, f, indent=1, sort_keys=True)
    bad = [n for n, s in status.items() if s.startswith("untranslatable")]
    changed = [n for n, s in status.items() if s == "translated-changed"]
    print(f"TRANSLATE-OK bodies={len(status)} untranslatable={len(bad)} changed={len(changed)}"
          + (" [" + ", ".join(bad + changed) + "]" if bad or changed else ""))
    return 0


if __name__ == "__main__":
    sys.exit(main())
