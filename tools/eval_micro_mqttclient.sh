#!/bin/sh
# tools/eval_micro_mqttclient.sh [diff ...] — the micro-rewrites of the MQTT transport object (seeded/micro-refactors/m6*_mqtt_*.diff,
# or the diffs given): each is applied to a scratch copy of /repo, the tables and the object's methods are re-translated
# (tools/extract.py, tools/translate.py for the topic mapping, tools/translate_mqttclient.py) and the equality modules rebuilt.
# Behaviour-preserving rewrites must leave every equality provable or leave the subset (untranslatable=k, snapshot used).
cd "$(dirname "$0")/.." || exit 2
C=/root/work/scratch_mqttclient/micro_repo
OUTS="--out lean/AioMySensors/Generated/Bodies.lean --stream-out lean/AioMySensors/Generated/StreamBodies.lean --codec-out lean/AioMySensors/Generated/CodecBodies.lean --mqtt-out lean/AioMySensors/Generated/MqttBodies.lean --persist-out lean/AioMySensors/Generated/PersistBodies.lean"
MODS="AioMySensors.Lemmas.MqttBodiesEq AioMySensors.Lemmas.MqttObjectBodiesEq AioMySensors.Properties.C18"
GEN="--out lean/AioMySensors/Generated/MqttObjectBodies.lean --snapshot tools/snap_mqttclient.json"
[ $# -gt 0 ] || set -- seeded/micro-refactors/m6*_mqtt_*.diff
rm -rf "$C"; mkdir -p "$C"; (cd /repo && git archive HEAD) | tar -x -C "$C"
(cd "$C" && git init -q && git add -A >/dev/null 2>&1 && git -c user.email=x@x -c user.name=x commit -qm base >/dev/null)
for d in "$@"; do
  git -C "$C" checkout -q -- .; git -C "$C" apply "$(pwd)/$d" || { echo "$d: does not apply"; continue; }
  e=$(/venv/bin/python tools/extract.py --repo "$C" --out lean/AioMySensors/Generated/Tables.lean --json "${TMPDIR:-/tmp}/eval_micro_json.$$" 2>&1 | tail -1 | cut -c1-80)
  /venv/bin/python tools/translate.py --repo "$C" $OUTS --snapshot tools/bodies_snapshot.json --json "${TMPDIR:-/tmp}/eval_micro_json.$$" >/dev/null 2>&1
  t=$(/venv/bin/python tools/translate_mqttclient.py --repo "$C" $GEN | tail -1 | cut -c1-200)
  if (cd lean && lake build AioMySensors.Generated.MqttObjectBodies >/tmp/micro_mq.log 2>&1); then :; else
    t="$t; fresh translation does not type-check -> $(/venv/bin/python tools/translate_mqttclient.py --repo "$C" $GEN --force-snapshot | tail -1 | cut -c1-60)"; fi
  if (cd lean && lake build $MODS >/tmp/micro_mq.log 2>&1); then r="equalities hold"; else r="EQUALITY BROKEN: $(grep 'error:' /tmp/micro_mq.log | grep -o 'AioMySensors/[A-Za-z/]*.lean:[0-9]*' | sort -u | tr '\n' ' ' | cut -c1-300)"; fi
  echo "$(basename "$d" .diff): $e | $t -> $r"
done
rm -rf "$C" /tmp/micro_mq.log
/venv/bin/python tools/extract.py --repo /repo --out lean/AioMySensors/Generated/Tables.lean --json tools/tables.json | tail -1
/venv/bin/python tools/translate.py --repo /repo $OUTS --snapshot tools/bodies_snapshot.json --json tools/bodies_status.json | cut -c1-60
/venv/bin/python tools/translate_mqttclient.py --repo /repo $GEN | tail -1
(cd lean && lake build $MODS 2>&1 | tail -1)
