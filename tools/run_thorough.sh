#!/bin/sh
# Run every registered thorough check once (after setup); print one line per check.  For `vp run`.
cd "$(dirname "$0")/.." || exit 2
./setup.sh > setup.log 2>&1 || { tail -5 setup.log; exit 2; }
for p in $(python3 -c "import json;print(' '.join(c['property_id'] for c in json.load(open('MANIFEST.json'))['checks']))"); do
  /usr/bin/time -f "%es %MKB" ./check "$p" --tier thorough 2>&1 | grep -E "VIOLATION|KNOWN|-> exit|KB$" | tr '\n' ' '; echo
done
