#!/bin/sh
# tools/eval_micro_nodeschema.sh — the nodeschema tie (tools/translate_nodeschema.py, Lemmas/NodeSchemaBodiesEq.lean) against
#   seeded/micro-refactors/m4[0-9]_*.diff   behaviour-preserving rewrites of the hooks / constructors of model/node.py:
#                                     every equality must still check (or the function falls back to its snapshot), and
#   seeded/ext-nodeschema/b*.diff     behaviour-changing edits: an equality must break (or the function leave the subset).
# Each diff is applied to a scratch copy of /repo, the bodies are re-translated and the equality module rebuilt.
cd "$(dirname "$0")/.." || exit 2
C=/root/work/micro_repo_nodeschema
OUT=lean/AioMySensors/Generated/NodeSchemaBodies.lean
rm -rf "$C"; mkdir -p "$C"; (cd /repo && git archive HEAD) | tar -x -C "$C"
(cd "$C" && git init -q && git add -A >/dev/null 2>&1 && git -c user.email=x@x -c user.name=x commit -qm base >/dev/null)
for d in seeded/micro-refactors/m4[0-9]_*.diff seeded/ext-nodeschema/b*.diff; do
  git -C "$C" checkout -q -- .; git -C "$C" apply "$(pwd)/$d" || { echo "$d: does not apply"; continue; }
  t=$(/venv/bin/python tools/translate_nodeschema.py --repo "$C" --out $OUT --snapshot tools/snap_nodeschema.json | tail -1 | cut -c1-140)
  if ! (cd lean && lake build AioMySensors.Generated.NodeSchemaBodies >/tmp/micro_ns.log 2>&1); then
    t="$t (did not type-check: snapshot forced)"
    /venv/bin/python tools/translate_nodeschema.py --repo "$C" --out $OUT --snapshot tools/snap_nodeschema.json --force-snapshot >/dev/null
  fi
  if (cd lean && lake build AioMySensors.Lemmas.NodeSchemaBodiesEq >/tmp/micro_ns.log 2>&1); then r="equalities hold"
  else r="EQUALITY BROKEN: $(grep -o 'NodeSchemaBodiesEq.lean:[0-9]*' /tmp/micro_ns.log | sort -u | tr '\n' ' ')"; fi
  echo "$(basename "$d" .diff): $t -> $r"
done
rm -rf "$C" /tmp/micro_ns.log
/venv/bin/python tools/translate_nodeschema.py --repo /repo --out $OUT --snapshot tools/snap_nodeschema.json | tail -1
(cd lean && lake build AioMySensors.Lemmas.NodeSchemaBodiesEq 2>&1 | tail -1)
