#!/usr/bin/env python3
"""tools/make_seed_briefs.py <round number>  — create one scratch worktree of /repo per property under /tmp/r<N>_<Cxx>
with a BRIEF.md for an independent seed writer (a sub-agent that sees only that brief: the property's text, the list
of earlier attempts from DESIGN.md section 14, and how to run the tests).  A test of the machinery, not a check."""
import json, os, re, subprocess, sys

N = int(sys.argv[1])
ORD = {9: "ninth", 10: "tenth", 11: "eleventh", 12: "twelfth"}.get(N, f"{N}th")
props = {json.loads(l)['id']: json.loads(l) for l in open('/verif/properties.jsonl')}
earlier = {}
for line in open('/verif/DESIGN.md'):
    m = re.match(r"\| (C\d\d)[a-z]? \| (.*?) \| (caught|\*\*not|first run|\*\*discarded|PENDING)", line)
    if m:
        earlier.setdefault(m.group(1), []).append(m.group(2))
for pid, p in props.items():
    w = f"/tmp/r{N}_{pid}"
    if not os.path.isdir(w):
        subprocess.run(["git", "-C", "/repo", "worktree", "add", "--detach", w, "HEAD"], check=True, capture_output=True)
    os.makedirs(w + "/seed", exist_ok=True)
    prev = "\n".join(f"  - {e}" for e in earlier.get(pid, []))
    k = len(earlier.get(pid, []))
    brief = f"""# Brief

You are working in a scratch git worktree of the Python library MartinHjelmare/aiomysensors at `{w}`
(asyncio client library for MySensors gateways; source in `src/aiomysensors`, tests in `tests/`).
Work ONLY inside `{w}`. Do not read or write `/repo`, `/verif` or any other worktree under /tmp.
Do NOT use `git stash` (shared between worktrees); to compare with the original use
`git -C {w} diff -- src > /tmp/{pid}_r{N}.diff; git -C {w} apply -R /tmp/{pid}_r{N}.diff; ...; git -C {w} apply /tmp/{pid}_r{N}.diff`.
Never run `conda config`.

Run the test suite with:  cd {w} && PYTHONPATH={w}/src /venv/bin/python -m pytest -q -p no:cacheprovider --no-cov
Run a program against this worktree with:  PYTHONPATH={w}/src /venv/bin/python your_program.py
(No network. Python 3.12 at /venv/bin/python has every dependency of the library.)

## The property

The library is supposed to satisfy this semantic property (JSON, as given to its maintainers):

```json
{json.dumps(p, indent=1)}
```

## Your task

Write ONE change to the library's source (under `src/aiomysensors` only; do not touch `tests/`) that **breaks this
property** while

* the library still imports and the existing test suite still passes completely and reliably (273 tests; run it three
  times), unedited;
* the change looks like something a maintainer could plausibly commit (a refactoring, an optimisation, a
  "robustness" tweak, a new small feature, a clean-up, a dependency-compatibility shim) - not sabotage, no dead
  give-aways in names or comments;
* the breakage does **not** show in ordinary use at once. It must need something specific to manifest: a particular
  interleaving of tasks; a fault, cancellation or crash at a particular point; a multi-step sequence of operations;
  an unusual but legal input; two cooperating sites that each look fine alone; state shared across objects or sessions.

This is the {ORD} round: {k} people before you have each written such a change for this same property (listed
below). Yours must be **different in kind** from all of them: a different code location AND a different mechanism.
Think about what a reviewer who knows those {k} would still overlook.

Earlier attempts (do not repeat or vary these):

{prev}

## Deliverables (all inside `{w}/seed/`)

1. `patch.diff` - the output of `git -C {w} diff -- src` with your change applied (leave the change applied in
   the worktree as well).
2. `demo.py` - a small self-contained program (stdlib + the library only; it may use asyncio, temporary
   directories, fake transports defined inside the file) that exercises the library through its public behaviour,
   prints what it observed, and **exits 1 when the property is violated and 0 when it holds**. It must exit 1 with
   your change and exit 0 on the unchanged source (check both), deterministically (run each three times). It must
   finish within 60 seconds.
3. `meta.json` - `{{"property": "{pid}", "summary": "<what the change does, 2-4 sentences>", "needs": "<exactly what
   is needed for the violation to manifest>", "files": [...], "tests_pass": true, "demo_fails_with_change": true,
   "demo_passes_without": true}}`

Before you finish, verify all three claims yourself (full test suite with the change; demo with; demo without).
Your final message should be a 5-line summary: what you changed, what it needs to manifest, and the three
verification results.
"""
    open(w + "/BRIEF.md", "w").write(brief)
print("ok", {k: len(v) for k, v in earlier.items()})
