#!/bin/sh
# Run inside `vp run --with-repo`: every quick check against every seeded change, in SHARDS parallel shards.
# Each shard owns a copy of this framework (with its build output) and a copy of the repo snapshot; nothing
# outside the run's snapshot directory is written.  Prints one row per seed: the checks that exit 1 on it,
# "(nf)" marking no-failing-input-found.
cd "$(dirname "$0")/.." || exit 2
R="${VP_RUN_REPO:?needs --with-repo}"
SHARDS="${SHARDS:-6}"
./setup.sh > setup.log 2>&1 || { tail -5 setup.log; exit 2; }
BASE="$(pwd)"
WORK="$BASE/.shards"
rm -rf "$WORK"; mkdir -p "$WORK"
CHECKS=$(python3 -c "import json;print(' '.join(c['property_id'] for c in json.load(open('MANIFEST.json'))['checks']))")
echo "baseline (no patch):"
if [ "${SKIP_BASELINE:-0}" != 1 ]; then
for c in $CHECKS; do VERIF_REPO="$R" ./check "$c" > out.txt 2>&1; rc=$?; [ $rc -ne 0 ] && echo "  $c exit $rc: $(grep -E 'VIOLATION' out.txt | head -1)"; done
fi
ls -d seeded/C*/ | sed 's|seeded/||; s|/||' > "$WORK/all.txt"
k=0
while [ $k -lt "$SHARDS" ]; do
  (
    S="$WORK/s$k"; mkdir -p "$S"
    cp -r "$BASE/lean" "$BASE/harness" "$BASE/tools" "$BASE/check" "$BASE/MANIFEST.json" "$BASE/properties.jsonl" \
          "$BASE/known-findings.txt" "$BASE/corpus" "$BASE/seeded" "$S/" 2>/dev/null
    mkdir -p "$S/evidence" "$S/replays"
    RS="$WORK/r$k"; mkdir -p "$RS"; (cd "$R" && git archive HEAD) | tar -x -C "$RS"
    (cd "$RS" && git init -q && git add -A >/dev/null 2>&1 && git -c user.email=x@x -c user.name=x commit -qm base >/dev/null)
    awk -v k=$k -v n="$SHARDS" 'NR % n == k' "$WORK/all.txt" | while read -r id; do
      git -C "$RS" apply "$S/seeded/$id/patch.diff" || { echo "$id: patch does not apply" >> "$WORK/rows$k.txt"; continue; }
      row="$id:"
      LIST="$CHECKS"
      # OWN=1: only the check of the property the seed was written against (ids are Cxx, Cxxb, ...)
      if [ "${OWN:-0}" = 1 ]; then LIST=$(echo "$id" | cut -c1-3); fi
      for c in $LIST; do
        (cd "$S" && VERIF_REPO="$RS" ./check "$c" > out.txt 2>&1); rc=$?
        if [ $rc -eq 1 ]; then
          if grep -q "no-failing-input-found" "$S/out.txt"; then row="$row $c(nf)"; else row="$row $c"; fi
        elif [ $rc -ne 0 ]; then row="$row $c(rc$rc)"; fi
      done
      echo "$row" >> "$WORK/rows$k.txt"
      git -C "$RS" checkout -- .
    done
  ) &
  k=$((k + 1))
done
wait
cat "$WORK"/rows*.txt | sort
rm -rf "$WORK"
