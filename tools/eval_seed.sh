#!/bin/sh
# tools/eval_seed.sh <Cxx> [all]  — confirm a seeded defect from /tmp/seed_<Cxx>/seed and run the checks on it.
# 1. tests pass with the patch, demo fails with it and passes without (in the scratch worktree);
# 2. copy patch.diff / demo.py / meta.json to seeded/<id>/;
# 3. apply the patch to /repo, run the property's check (or all checks with "all"), undo.
set -u
P="$1"; MODE="${2:-one}"; PREFIX="${3:-seed}"; SUF="${4:-}"
W=/tmp/${PREFIX}_$P
V="$(cd "$(dirname "$0")/.." && pwd)"
[ -f "$W/seed/patch.diff" ] || { echo "no seed for $P"; exit 2; }
cd "$W" || exit 2
git -C "$W" diff -- src > /tmp/seed_$P.current.diff
if [ ! -s /tmp/seed_$P.current.diff ]; then git -C "$W" apply seed/patch.diff || { echo "patch does not apply"; exit 2; }; fi
echo "== tests with the change"; PYTHONPATH=$W/src /venv/bin/python -m pytest -q -p no:cacheprovider 2>&1 | tail -1
echo "== demo with the change (expect exit 1)"; PYTHONPATH=$W/src timeout 120 /venv/bin/python seed/demo.py > /tmp/seed_$P.demo_with.txt 2>&1; echo "exit $?"; tail -3 /tmp/seed_$P.demo_with.txt
git -C "$W" diff -- src > /tmp/seed_$P.patch; git -C "$W" checkout -- src
echo "== demo without the change (expect exit 0)"; PYTHONPATH=$W/src timeout 120 /venv/bin/python seed/demo.py > /tmp/seed_$P.demo_without.txt 2>&1; echo "exit $?"; tail -2 /tmp/seed_$P.demo_without.txt
git -C "$W" apply /tmp/seed_$P.patch
mkdir -p "$V/seeded/$P$SUF"; cp /tmp/seed_$P.patch "$V/seeded/$P$SUF/patch.diff"; cp seed/demo.py "$V/seeded/$P$SUF/demo.py"; cp seed/meta.json "$V/seeded/$P$SUF/meta.json"
[ "$MODE" = confirm ] && exit 0
echo "== checks on /repo with the patch applied"
git -C /repo status --short | grep -q . && { echo "/repo not clean"; exit 2; }
git -C /repo apply "$V/seeded/$P$SUF/patch.diff" || { echo "patch does not apply to /repo"; exit 2; }
cd "$V"
if [ "$MODE" = all ]; then LIST=$(python3 -c "import json;print(' '.join(c['property_id'] for c in json.load(open('MANIFEST.json'))['checks']))"); else LIST="$P"; fi
for c in $LIST; do ./check "$c" 2>&1 | grep -E "^VIOLATION|-> exit" | tr '\n' ' '; echo; done
git -C /repo checkout -- .
# restore the generated tables for the unchanged tree
/venv/bin/python tools/extract.py --repo /repo --out lean/AioMySensors/Generated/Tables.lean --json tools/tables.json | tail -1
git -C /repo status --short
