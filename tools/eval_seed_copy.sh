#!/bin/sh
# tools/eval_seed_copy.sh <Cxx> <prefix> <suffix> [all]
# Like eval_seed.sh, but the checks run against a scratch copy of /repo (VERIF_REPO), so that /repo stays
# untouched while other work reads it.  Confirms the seed in its worktree /tmp/<prefix>_<Cxx> first.
set -u
P="$1"; PREFIX="$2"; SUF="$3"; MODE="${4:-one}"
W=/tmp/${PREFIX}_$P
V="$(cd "$(dirname "$0")/.." && pwd)"
C=/root/work/evalrepo
[ -f "$W/seed/patch.diff" ] || { echo "no seed for $P"; exit 2; }
cd "$W" || exit 2
git -C "$W" diff -- src > /tmp/seed_$P.current.diff
if [ ! -s /tmp/seed_$P.current.diff ]; then git -C "$W" apply seed/patch.diff || { echo "patch does not apply"; exit 2; }; fi
echo "== tests with the change"; PYTHONPATH=$W/src /venv/bin/python -m pytest -q -p no:cacheprovider --no-cov 2>&1 | tail -1
echo "== demo with the change (expect exit 1)"; PYTHONPATH=$W/src timeout 300 /venv/bin/python seed/demo.py > /tmp/seed_$P.demo_with.txt 2>&1; echo "exit $?"; tail -2 /tmp/seed_$P.demo_with.txt
git -C "$W" diff -- src > /tmp/seed_$P.patch; git -C "$W" checkout -- src
echo "== demo without the change (expect exit 0)"; PYTHONPATH=$W/src timeout 300 /venv/bin/python seed/demo.py > /tmp/seed_$P.demo_without.txt 2>&1; echo "exit $?"; tail -1 /tmp/seed_$P.demo_without.txt
git -C "$W" apply /tmp/seed_$P.patch
mkdir -p "$V/seeded/$P$SUF"; cp /tmp/seed_$P.patch "$V/seeded/$P$SUF/patch.diff"; cp seed/demo.py "$V/seeded/$P$SUF/demo.py"; cp seed/meta.json "$V/seeded/$P$SUF/meta.json"
rm -f /tmp/seed_$P.patch /tmp/seed_$P.current.diff /tmp/seed_$P.demo_with.txt /tmp/seed_$P.demo_without.txt
echo "== checks on a scratch copy with the patch applied"
rm -rf "$C"; mkdir -p "$C"; (cd /repo && git archive HEAD) | tar -x -C "$C"
(cd "$C" && git init -q && git add -A >/dev/null 2>&1 && git -c user.email=x@x -c user.name=x commit -qm base >/dev/null)
git -C "$C" apply "$V/seeded/$P$SUF/patch.diff" || { echo "patch does not apply"; exit 2; }
cd "$V"
if [ "$MODE" = all ]; then LIST=$(python3 -c "import json;print(' '.join(c['property_id'] for c in json.load(open('MANIFEST.json'))['checks']))"); else LIST="$P"; fi
for c in $LIST; do VERIF_REPO="$C" ./check "$c" 2>&1 | grep -E "^VIOLATION|-> exit" | tr '\n' ' '; echo; done
rm -rf "$C"
/venv/bin/python tools/extract.py --repo /repo --out lean/AioMySensors/Generated/Tables.lean --json tools/tables.json | tail -1
git checkout -q -- evidence 2>/dev/null
