#!/venv/bin/python
"""Translator tie for the marshmallow hooks and constructors of `model/node.py`.

`NodeSchema.handle_compatibility` / `ChildSchema.handle_compatibility` (the `pre_load` hooks that accept files written by
pymysensors), `make_node` / `make_child` (the `post_load` hooks) and `Node.__init__` / `Child.__init__` are compiled from
their AST into `lean/AioMySensors/Generated/NodeSchemaBodies.lean` over the vocabulary `Model/LitNodeSchema.lean`
(`LN.contains` = `k in data`, `LN.pop` = `data.pop(k)`, `LN.getItem` = `data[k]`, `LN.setItem` = `data[k] = v`, `LN.isNone`;
`LN.kwargs` / `LN.arg*` = binding `**data` to the live signature with its defaults, `LN.orEmpty` = `d or {}`,
`LN.pyIntOfInt` = `int(n)`).  marshmallow's field-by-field deserialisation between the hooks is the constant glue
`Schema.loadRecord` over the generated tables `Gen.nodeSchema` / `Gen.childSchema`.
`Lemmas/NodeSchemaBodiesEq.lean` proves the generated definitions equal to the hand-written model (`Schema.nodePreLoad`,
`childPreLoad`, `mkNode`, `mkChild`, `loadNode`, `loadChild`).

Subset of the hooks: `if` / `else`, `data[K] = e`, `x = e`, a bare `data.pop(K)`, `return data` (last statement, or ending
an `if` branch); expressions: constants (None, bool, int, str), locals, `data.pop(K)`, `data[K]`, `K in data`,
`K not in data`, `e is None` / `is not None` / `== None` / `!= None`, `not`, `and` / `or` of conditions, `a if c else b`;
`K` a string constant.  Anything else makes that function untranslatable: its committed translation
(`tools/snap_nodeschema.json`) is written instead and the correspondence run alone ties it (never an alarm).
"""
from __future__ import annotations

import argparse
import ast
import importlib
import inspect
import json
import os
import sys

sys.path.insert(0, os.path.dirname(os.path.abspath(__file__)))
from translate import Untranslatable, fn_ast, lean_int, lean_str, strip  # noqa: E402


def lean_key(s: str) -> str:
    """A `Str` literal: the `cs!` macro of Model/Json.lean for plain ASCII, explicit code points otherwise."""
    if s and all(32 <= ord(c) < 127 and c not in '"\\' for c in s):
        return f'cs!"{s}"'
    return lean_str(s)


class TrHook:
    """Compiler for one `pre_load` hook: (self, data, **kwargs) -> data."""

    def __init__(self, fn, data_name: str):
        self.globals = fn.__globals__
        self.data = data_name
        self.env = {}                       # python local -> (lean text, 'json' | 'bool')
        self.n = 0

    def fresh(self, base: str) -> str:
        self.n += 1
        return f"{base}{self.n}"

    # ---- constants
    def key(self, node) -> str:
        if isinstance(node, ast.Constant) and isinstance(node.value, str):
            return lean_key(node.value)
        if isinstance(node, ast.Name) and node.id not in self.env and node.id != self.data and isinstance(self.globals.get(node.id), str):
            return lean_key(self.globals[node.id])
        raise Untranslatable("dict key is not a string constant: " + ast.unparse(node)[:60])

    def json_const(self, v):
        if v is None:
            return "Json.null"
        if isinstance(v, bool):
            return f"(Json.bool {'true' if v else 'false'})"
        if isinstance(v, int):
            return f"(Json.int {lean_int(v)})"
        if isinstance(v, str):
            return f"(Json.str {lean_key(v)})"
        return None

    def is_data(self, node) -> bool:
        return isinstance(node, ast.Name) and node.id == self.data

    # ---- expressions: -> (pre, text, type); pre = [(var, HM term)] bound before, in Python's evaluation order
    def expr(self, node):
        if isinstance(node, ast.Constant):
            t = self.json_const(node.value)
            if t is None:
                raise Untranslatable(f"constant {node.value!r}")
            return [], t, "json"
        if isinstance(node, ast.Name):
            if node.id in self.env:
                t, ty = self.env[node.id]
                return [], t, ty
            if node.id != self.data and node.id in self.globals:
                t = self.json_const(self.globals[node.id]) if isinstance(self.globals[node.id], (int, str, bool)) else None
                if t is not None:
                    return [], t, "json"
            raise Untranslatable(f"name {node.id}")
        if isinstance(node, ast.Subscript) and self.is_data(node.value):
            x = self.fresh("x")
            return [(x, f"LN.getItem {self.key(node.slice)}")], x, "json"
        if isinstance(node, ast.Call) and isinstance(node.func, ast.Attribute) and self.is_data(node.func.value):
            if node.func.attr == "pop" and len(node.args) == 1 and not node.keywords:
                x = self.fresh("x")
                return [(x, f"LN.pop {self.key(node.args[0])}")], x, "json"
            raise Untranslatable(f"data.{node.func.attr}(...) outside the vocabulary")
        if isinstance(node, ast.Compare) and len(node.ops) == 1:
            op, left, right = node.ops[0], node.left, node.comparators[0]
            if isinstance(op, (ast.In, ast.NotIn)) and self.is_data(right):
                c = self.fresh("c")
                pre = [(c, f"LN.contains {self.key(left)}")]
                return pre, (c if isinstance(op, ast.In) else f"(!{c})"), "bool"
            if isinstance(op, (ast.Is, ast.IsNot, ast.Eq, ast.NotEq)):
                none_r = isinstance(right, ast.Constant) and right.value is None
                none_l = isinstance(left, ast.Constant) and left.value is None
                if none_r or none_l:
                    pre, t, ty = self.expr(left if none_r else right)
                    if ty != "json":
                        raise Untranslatable("`is None` of a condition")
                    pos = isinstance(op, (ast.Is, ast.Eq))
                    return pre, (f"(LN.isNone {t})" if pos else f"(!(LN.isNone {t}))"), "bool"
            raise Untranslatable("comparison " + ast.unparse(node)[:80])
        if isinstance(node, ast.UnaryOp) and isinstance(node.op, ast.Not):
            pre, t, ty = self.expr(node.operand)
            if ty != "bool":
                raise Untranslatable("`not` of a value")
            return pre, f"(!{t})", "bool"
        if isinstance(node, ast.BoolOp):
            is_and = isinstance(node.op, ast.And)
            pre, t, ty = self.expr(node.values[0])
            if ty != "bool":
                raise Untranslatable("and/or of values")
            for v in node.values[1:]:
                pre2, t2, ty2 = self.expr(v)
                if ty2 != "bool":
                    raise Untranslatable("and/or of values")
                if not pre2:
                    t = f"({t} && {t2})" if is_and else f"({t} || {t2})"
                    continue
                c = self.fresh("c")
                later = self.wrap(pre2, f"(LN.pure {t2})")
                if is_and:
                    pre = pre + [(c, f"(if {t} then {later} else (LN.pure false))")]
                else:
                    pre = pre + [(c, f"(if {t} then (LN.pure true) else {later})")]
                t = c
            return pre, t, "bool"
        if isinstance(node, ast.IfExp):
            prec, tc, tyc = self.expr(node.test)
            if tyc != "bool":
                raise Untranslatable("truth value of a JSON value")
            pa, ta, tya = self.expr(node.body)
            pb, tb, tyb = self.expr(node.orelse)
            if tya != tyb:
                raise Untranslatable("conditional expression of two kinds")
            if not pa and not pb:
                return prec, f"(if {tc} then {ta} else {tb})", tya
            x = self.fresh("x" if tya == "json" else "c")
            return prec + [(x, f"(if {tc} then {self.wrap(pa, f'(LN.pure {ta})')} else {self.wrap(pb, f'(LN.pure {tb})')})")], x, tya
        raise Untranslatable("expression " + ast.unparse(node)[:80])

    def wrap(self, pre, body: str) -> str:
        for var, term in reversed(pre):
            body = f"(LN.bind ({term}) fun {var} =>\n  {body})" if not term.startswith("(") else f"(LN.bind {term} fun {var} =>\n  {body})"
        return body

    def cond(self, node):
        pre, t, ty = self.expr(node)
        if ty != "bool":
            raise Untranslatable("truth value of a JSON value: " + ast.unparse(node)[:60])
        return pre, t

    # ---- statements
    def terminates(self, stmts) -> bool:
        stmts = strip(stmts)
        if not stmts:
            return False
        last = stmts[-1]
        if isinstance(last, ast.Return):
            return True
        if isinstance(last, ast.If):
            return self.terminates(last.body) and self.terminates(last.orelse)
        return False

    def assigned(self, stmts) -> list:
        """Locals (re)bound somewhere inside these statements, in order of first binding."""
        out = []
        for s in stmts:
            for n in ast.walk(s):
                tg = []
                if isinstance(n, ast.Assign):
                    tg = n.targets
                elif isinstance(n, (ast.AnnAssign, ast.AugAssign, ast.NamedExpr)):
                    tg = [n.target]
                for t in tg:
                    for m in ast.walk(t):
                        if isinstance(m, ast.Name) and isinstance(m.ctx, ast.Store) and m.id not in out:
                            out.append(m.id)
        return out

    def block(self, stmts, ret: bool, result: str | None = None) -> str:
        """`ret`: the block must end the function (type `HM Json`); otherwise it falls through: type `HM Unit`, or, with
        `result` (a local the block rebinds), the type of that local, whose value at the end of the block is yielded."""
        stmts = strip(stmts)
        if not stmts:
            if ret:
                raise Untranslatable("falls off the end (returns None)")
            if result is not None:
                if result not in self.env:
                    raise Untranslatable(f"local {result} may be unbound")
                return f"(LN.pure {self.env[result][0]})"
            return "LN.skip"
        s, rest = stmts[0], stmts[1:]
        last = not rest and not ret and result is None
        if isinstance(s, ast.Return):
            if not ret or rest:
                raise Untranslatable("return in the middle")
            if s.value is None or not self.is_data(s.value):
                raise Untranslatable("returns something else than the object passed in")
            return "LN.retData"
        if isinstance(s, ast.Pass):
            return self.block(rest, ret, result)
        if isinstance(s, (ast.Assign, ast.AnnAssign)):
            if isinstance(s, ast.Assign):
                if len(s.targets) != 1:
                    raise Untranslatable("chained assignment")
                target, value = s.targets[0], s.value
            else:
                target, value = s.target, s.value
                if value is None:
                    return self.block(rest, ret, result)
            if isinstance(target, ast.Subscript) and self.is_data(target.value):
                # Python evaluates the right-hand side first, then the subscript store
                pre, t, ty = self.expr(value)
                if ty != "json":
                    raise Untranslatable("stores a condition")
                k = self.key(target.slice)
                store = f"(LN.setItem {k} {t})"
                if last:
                    return self.wrap(pre, store)
                return self.wrap(pre, f"(LN.seq {store}\n  {self.block(rest, ret, result)})")
            if isinstance(target, ast.Name) and target.id != self.data:
                pre, t, ty = self.expr(value)
                self.env[target.id] = (t, ty)
                return self.wrap(pre, self.block(rest, ret, result))
            raise Untranslatable("assignment to " + ast.unparse(target)[:60])
        if isinstance(s, ast.Expr):
            pre, _t, _ty = self.expr(s.value)
            if not pre:
                return self.block(rest, ret, result)
            pre = pre[:-1] + [("_", pre[-1][1])]
            return self.wrap(pre, self.block(rest, ret, result))
        if isinstance(s, ast.If):
            pre, c = self.cond(s.test)
            saved = dict(self.env)
            t_body, t_else = self.terminates(s.body), self.terminates(s.orelse)
            if t_body or t_else:
                if not ret:
                    raise Untranslatable("return inside a nested block")
                a = self.block(s.body, True) if t_body else self.block(list(s.body) + list(rest), True)
                self.env = dict(saved)
                b = self.block(s.orelse, True) if t_else else self.block(list(s.orelse) + list(rest), True)
                self.env = saved
                return self.wrap(pre, f"(if {c} then {a}\n  else {b})")
            # a local rebound inside the branches is what the `if` yields (one such local at most)
            # (a local first bound inside a branch stays local to it: using it afterwards is outside the subset)
            names = [n for n in self.assigned(list(s.body) + list(s.orelse)) if n in saved]
            if len(names) > 1:
                raise Untranslatable("an `if` rebinds several locals: " + ", ".join(names))
            if names:
                name = names[0]
                a = self.block(s.body, False, name)
                ty_a = self.env[name][1]
                self.env = dict(saved)
                b = self.block(s.orelse, False, name)
                ty_b = self.env[name][1]
                self.env = saved
                if ty_a != ty_b:
                    raise Untranslatable(f"local {name} of two kinds")
                v = self.fresh("x" if ty_a == "json" else "c")
                self.env[name] = (v, ty_a)
                return self.wrap(pre, f"(LN.bind (if {c} then {a} else {b}) fun {v} =>\n  {self.block(rest, ret, result)})")
            a = self.block(s.body, False)
            self.env = dict(saved)
            b = self.block(s.orelse, False)
            self.env = saved
            branch = f"(if {c} then {a} else {b})"
            if last:
                return self.wrap(pre, branch)
            return self.wrap(pre, f"(LN.seq {branch}\n  {self.block(rest, ret, result)})")
        raise Untranslatable("statement " + ast.unparse(s)[:80])


# ---- constructors ------------------------------------------------------------------------------

NODE_ATTRS = {"node_id": ("<key>", "int"), "node_type": ("ntype", "int"), "protocol_version": ("pv", "str"),
              "children": ("children", "childDict"), "sketch_name": ("sketchName", "str"),
              "sketch_version": ("sketchVersion", "str"), "battery_level": ("battery", "int"),
              "heartbeat": ("heartbeat", "int"), "reboot": ("reboot", "bool"), "sleeping": ("sleeping", "bool")}
CHILD_ATTRS = {"child_id": ("cid", "int"), "child_type": ("ctype", "int"), "description": ("desc", "str"),
               "values": ("values", "strDict")}


def field_kind(f, mfields, nested_name):
    if isinstance(f, mfields.Bool):
        return "bool"
    if isinstance(f, mfields.Int):
        return "int"
    if isinstance(f, mfields.Str):
        return "str"
    if isinstance(f, mfields.Dict) and isinstance(f.key_field, mfields.Int):
        if isinstance(f.value_field, mfields.Str):
            return "strDict"
        if isinstance(f.value_field, mfields.Nested) and type(f.value_field.schema).__name__ == nested_name:
            return "childDict"
    raise Untranslatable(f"field kind {type(f).__name__}")


def compile_ctor(cls, schema_cls, nested_name, attrs, lean_name, result_type):
    from marshmallow import fields as mfields

    fn = cls.__dict__["__init__"]
    params = list(inspect.signature(fn).parameters.values())
    if not params or params[0].name != "self":
        raise Untranslatable("__init__ without self")
    params = params[1:]
    kinds = {n: field_kind(f, mfields, nested_name) for n, f in schema_cls().fields.items()}
    binds, env = [], {}
    for p in params:
        if p.kind not in (p.POSITIONAL_OR_KEYWORD, p.KEYWORD_ONLY):
            raise Untranslatable(f"parameter {p.name}: {p.kind}")
        kind = kinds.get(p.name)
        if kind is None:
            raise Untranslatable(f"parameter {p.name} has no schema field")
        var = "p_" + p.name
        d = p.default
        if kind == "int":
            if d is p.empty:
                dflt = "none"
            elif isinstance(d, int) and not isinstance(d, bool):
                dflt = f"(some {lean_int(d)})"
            else:
                raise Untranslatable(f"default of {p.name}: {d!r}")
            binds.append((var, f'LN.argInt data "{p.name}" {dflt}'))
            env[p.name] = (var, "int")
        elif kind == "str":
            if d is p.empty:
                dflt = "none"
            elif isinstance(d, str):
                dflt = f"(some {lean_key(d)})"
            else:
                raise Untranslatable(f"default of {p.name}: {d!r}")
            binds.append((var, f'LN.argStr data "{p.name}" {dflt}'))
            env[p.name] = (var, "str")
        elif kind == "bool":
            if d is p.empty:
                dflt = "none"
            elif isinstance(d, bool):
                dflt = f"(some {'true' if d else 'false'})"
            else:
                raise Untranslatable(f"default of {p.name}: {d!r}")
            binds.append((var, f'LN.argBool data "{p.name}" {dflt}'))
            env[p.name] = (var, "bool")
        else:
            if d is not None:
                raise Untranslatable(f"default of {p.name}: {d!r} (only None is modelled for a dict parameter)")
            binds.append((var, f'LN.arg{"Str" if kind == "strDict" else "Child"}DictOrNone data "{p.name}"'))
            env[p.name] = (var, "opt:" + kind)

    def ex(e):
        if isinstance(e, ast.Name) and e.id in env:
            return env[e.id]
        if isinstance(e, ast.Constant):
            v = e.value
            if isinstance(v, bool):
                return ("true" if v else "false", "bool")
            if isinstance(v, int):
                return (lean_int(v), "int")
            if isinstance(v, str):
                return (lean_key(v), "str")
            raise Untranslatable(f"constant {v!r}")
        if isinstance(e, ast.Call) and isinstance(e.func, ast.Name) and e.func.id == "int" and len(e.args) == 1 and not e.keywords \
                and fn.__globals__.get("int", int) is int:
            t, ty = ex(e.args[0])
            if ty != "int":
                raise Untranslatable("int() of something that is not an int")
            return (f"(LN.pyIntOfInt {t})", "int")
        if isinstance(e, ast.BoolOp) and isinstance(e.op, ast.Or) and len(e.values) == 2 \
                and isinstance(e.values[1], ast.Dict) and not e.values[1].keys:
            t, ty = ex(e.values[0])
            if not ty.startswith("opt:"):
                raise Untranslatable("`or {}` of something that is not an optional dict")
            return (f"(LN.orEmpty {t})", ty[4:])
        raise Untranslatable("expression " + ast.unparse(e)[:80])

    stores = {}
    for s in strip(fn_ast(fn).body):
        if isinstance(s, ast.AnnAssign) and s.value is not None:
            target, value = s.target, s.value
        elif isinstance(s, ast.Assign) and len(s.targets) == 1:
            target, value = s.targets[0], s.value
        else:
            raise Untranslatable("statement " + ast.unparse(s)[:80])
        if not (isinstance(target, ast.Attribute) and isinstance(target.value, ast.Name) and target.value.id == "self"):
            raise Untranslatable("statement " + ast.unparse(s)[:80])
        if target.attr not in attrs:
            raise Untranslatable(f"attribute {target.attr} is not in the model")
        t, ty = ex(value)
        if ty != attrs[target.attr][1]:
            raise Untranslatable(f"attribute {target.attr} gets a {ty}, the model holds a {attrs[target.attr][1]}")
        stores[target.attr] = t
    missing = [a for a in attrs if a not in stores]
    if missing:
        raise Untranslatable("attributes never set: " + ", ".join(missing))
    key = None
    fields_txt = []
    for a, (lf, _ty) in attrs.items():
        if lf == "<key>":
            key = stores[a]
        else:
            fields_txt.append(f"{lf} := {stores[a]}")
    struct = "({ " + ", ".join(fields_txt) + " } : " + ("Node" if key is not None else "Child") + ")"
    body = f".ok ({key}, {struct})" if key is not None else f".ok {struct}"
    names = "[" + ", ".join(f'"{p.name}"' for p in params) + "]"
    lines = [f"def {lean_name} (data : Schema.Rec) : Except PyExn {result_type} :=",
             f"  (LN.kwargs data {names}).bind fun _ =>"]
    for var, term in binds:
        lines.append(f"  ({term}).bind fun {var} =>")
    lines.append("  " + body)
    return "\n".join(lines)


def hooks_of(schema_cls):
    """(pre_load name, post_load name) when the schema has exactly these two hooks, each per item."""
    hooks = {k: list(v) for k, v in dict(schema_cls._hooks).items() if v}
    if set(hooks) != {"pre_load", "post_load"} or len(hooks["pre_load"]) != 1 or len(hooks["post_load"]) != 1:
        raise Untranslatable(f"hooks of {schema_cls.__name__}: {hooks}")
    (pre, pre_many, pre_kw), (post, post_many, post_kw) = hooks["pre_load"][0], hooks["post_load"][0]
    if pre_many or post_many or pre_kw or post_kw not in ({}, {"pass_original": False}):
        raise Untranslatable(f"hook options of {schema_cls.__name__}: {hooks}")
    return pre, post


def data_param(fn) -> str:
    ps = list(inspect.signature(fn).parameters.values())
    if len(ps) < 2 or ps[0].name != "self" or ps[1].kind != ps[1].POSITIONAL_OR_KEYWORD:
        raise Untranslatable("hook signature")
    for p in ps[2:]:
        if p.kind != p.VAR_KEYWORD and p.default is p.empty:
            raise Untranslatable("hook signature")
    return ps[1].name


def translate_nodeschema(repo: str):
    src = os.path.join(repo, "src")
    sys.path.insert(0, src)
    for m in [m for m in sys.modules if m == "aiomysensors" or m.startswith("aiomysensors.")]:
        del sys.modules[m]
    mod = importlib.import_module("aiomysensors.model.node")
    if not os.path.realpath(mod.__file__).startswith(os.path.realpath(src)):
        raise RuntimeError(f"imported {mod.__file__}, not from {src}")
    out = {}

    def attempt(name, f):
        try:
            out[name] = {"lean": f()}
        except (Untranslatable, KeyError, TypeError, OSError, AttributeError, IndexError, ValueError) as err:
            out[name] = {"error": f"{type(err).__name__}: {err}"[:300]}

    def pre_hook(schema_cls, lean_name):
        pre, _post = hooks_of(schema_cls)
        fn = schema_cls.__dict__[pre]
        tr = TrHook(fn, data_param(fn))
        return f"def {lean_name} : LN.HM Json :=\n  {tr.block(fn_ast(fn).body, True)}"

    def post_hook(schema_cls, cls_name, lean_name, ctor, result_type):
        _pre, post = hooks_of(schema_cls)
        fn = schema_cls.__dict__[post]
        d = data_param(fn)
        st = strip(fn_ast(fn).body)
        ok = (len(st) == 1 and isinstance(st[0], ast.Return) and isinstance(st[0].value, ast.Call)
              and isinstance(st[0].value.func, ast.Name) and fn.__globals__.get(st[0].value.func.id) is getattr(mod, cls_name)
              and not st[0].value.args and len(st[0].value.keywords) == 1 and st[0].value.keywords[0].arg is None
              and isinstance(st[0].value.keywords[0].value, ast.Name) and st[0].value.keywords[0].value.id == d)
        if not ok:
            raise Untranslatable(f"post_load hook is not `return {cls_name}(**{d})`: " + " / ".join(ast.unparse(x) for x in st)[:160])
        return f"def {lean_name} (data : Schema.Rec) : Except PyExn {result_type} :=\n  {ctor} data"

    attempt("ChildSchema.pre_load", lambda: pre_hook(mod.ChildSchema, "ChildSchema_pre_load"))
    attempt("Child.__init__", lambda: compile_ctor(mod.Child, mod.ChildSchema, "-", CHILD_ATTRS, "Child_init", "Child"))
    attempt("ChildSchema.post_load", lambda: post_hook(mod.ChildSchema, "Child", "ChildSchema_post_load", "Child_init", "Child"))
    attempt("NodeSchema.pre_load", lambda: pre_hook(mod.NodeSchema, "NodeSchema_pre_load"))
    attempt("Node.__init__", lambda: compile_ctor(mod.Node, mod.NodeSchema, "ChildSchema", NODE_ATTRS, "Node_init", "(Int × Node)"))
    attempt("NodeSchema.post_load", lambda: post_hook(mod.NodeSchema, "Node", "NodeSchema_post_load", "Node_init", "(Int × Node)"))
    return out


ORDER = ["ChildSchema.pre_load", "Child.__init__", "ChildSchema.post_load",
         "NodeSchema.pre_load", "Node.__init__", "NodeSchema.post_load"]

HEADER = """/-
GENERATED by tools/translate_nodeschema.py from the marshmallow hooks and constructors of `model/node.py`
(`ChildSchema` / `NodeSchema`: the `pre_load` hook `handle_compatibility`, the `post_load` hook `make_child` / `make_node`;
`Child.__init__`, `Node.__init__`) — do not edit.  Regenerated on every check run of C13 / C14; rewritten only when its
content changes.  A definition marked `-- snapshot` could not be translated on this run and is the last committed
translation.
-/
import AioMySensors.Model.LitNodeSchema

set_option linter.unusedVariables false

namespace AioMySensors.GenNodeSchema
open AioMySensors

"""

GLUE = """/-! glue (constant text): marshmallow's `Schema.load` = the `pre_load` hook, the field-by-field deserialisation over
the generated declarations (`Schema.loadRecord Gen.childSchema` / `Gen.nodeSchema`), the `post_load` hook; and the loop of
`Persistence.load` around `NodeSchema().load` -/

/-- `ChildSchema().load(j)` -/
def loadChild (j : Json) : Except PyExn Child :=
  match LN.run ChildSchema_pre_load j with
  | .error e => .error e
  | .ok (.obj kvs) => (Schema.loadRecord Gen.childSchema Schema.noNested kvs).bind ChildSchema_post_load
  | .ok _ => Schema.soft

/-- `NodeSchema().load(j)` -/
def loadNode (j : Json) : Except PyExn (Int × Node) :=
  match LN.run NodeSchema_pre_load j with
  | .error e => .error e
  | .ok (.obj kvs) => (Schema.loadRecord Gen.nodeSchema loadChild kvs).bind NodeSchema_post_load
  | .ok _ => Schema.soft

/-- `for node_data in data.values(): node = node_schema.load(node_data); self.nodes[node.node_id] = node` -/
def loadNodes (acc : PDict Int Node) : List (Str × Json) → Except PyExn (PDict Int Node)
  | [] => .ok acc
  | (_, v) :: rest =>
    match loadNode v with
    | .ok (id, n) => loadNodes (acc.set id n) rest
    | .error e => .error e

/-- The body of the second `try` of `Persistence.load` (`LP.loadEach`), every record through the generated hooks. -/
def loadEach (cur : PDict Int Node) : Json → Except PyExn (PDict Int Node)
  | .obj kvs => loadNodes cur kvs
  | _ => .error .AttributeError"""


def main() -> int:
    ap = argparse.ArgumentParser()
    ap.add_argument("--repo", default="/repo")
    ap.add_argument("--out", required=True)
    ap.add_argument("--snapshot", required=True)
    ap.add_argument("--force-snapshot", action="store_true")
    ap.add_argument("--update-snapshot", action="store_true")
    a = ap.parse_args()
    try:
        res = {} if a.force_snapshot else translate_nodeschema(a.repo)
    except Exception as err:  # noqa: BLE001
        print(f"TRANSLATE-NODESCHEMA-FAILED {type(err).__name__}: {err}")
        res = {}
    try:
        with open(a.snapshot, encoding="utf-8") as f:
            snap = json.load(f)
    except (OSError, ValueError):
        snap = {}
    chunks, status = [], {}
    for name in ORDER:
        r = res.get(name, {"error": "snapshot forced" if a.force_snapshot else "not attempted"})
        if "lean" in r:
            chunks.append(r["lean"])
            status[name] = "translated" if snap.get(name) == r["lean"] else "translated-changed"
        elif name in snap:
            chunks.append("-- snapshot (untranslatable on this run: " + r["error"].replace("\n", " ") + ")\n" + snap[name])
            status[name] = "untranslatable: " + r["error"]
        else:
            print(f"TRANSLATE-FAILED {name}: {r['error']} (and no snapshot)")
            return 1
    text = HEADER + "\n\n".join(chunks) + "\n\n" + GLUE + "\n\nend AioMySensors.GenNodeSchema\n"
    try:
        with open(a.out, encoding="utf-8") as f:
            old = f.read()
    except OSError:
        old = None
    if old != text:
        with open(a.out, "w", encoding="utf-8") as f:
            f.write(text)
    if a.update_snapshot:
        with open(a.snapshot, "w", encoding="utf-8") as f:
            json.dump({n: res[n]["lean"] for n in ORDER if "lean" in res.get(n, {})}, f, indent=1, sort_keys=True)
            f.write("\n")
    bad = [n for n, s in status.items() if s.startswith("untranslatable")]
    changed = [n for n, s in status.items() if s == "translated-changed"]
    for n in bad:
        print(f"  {n}: {status[n]}")
    print(f"TRANSLATE-OK bodies={len(status)} untranslatable={len(bad)} changed={len(changed)}"
          + (" [" + ", ".join(bad + changed) + "]" if bad or changed else ""))
    return 0


if __name__ == "__main__":
    sys.exit(main())
