#!/bin/sh
# Run inside `vp run --with-repo`: for every seeded defect apply it to the repo snapshot, run every quick check
# against that snapshot (VERIF_REPO), undo; print one table row per seed.
cd "$(dirname "$0")/.." || exit 2
R="${VP_RUN_REPO:?needs --with-repo}"
export VERIF_REPO="$R"
./setup.sh > setup.log 2>&1 || { tail -5 setup.log; exit 2; }
CHECKS=$(python3 -c "import json;print(' '.join(c['property_id'] for c in json.load(open('MANIFEST.json'))['checks']))")
echo "baseline (no patch):"
for c in $CHECKS; do ./check "$c" > out.txt 2>&1; rc=$?; [ $rc -ne 0 ] && echo "  $c exit $rc: $(grep -E 'VIOLATION' out.txt | head -1)"; done
for d in seeded/*/; do
  id=$(basename "$d")
  git -C "$R" apply "$PWD/$d/patch.diff" || { echo "$id: patch does not apply"; continue; }
  row="$id:"
  for c in $CHECKS; do
    ./check "$c" > out.txt 2>&1; rc=$?
    if [ $rc -eq 1 ]; then
      if grep -q "no-failing-input-found" out.txt; then row="$row $c(nf)"; else row="$row $c"; fi
    elif [ $rc -ne 0 ]; then row="$row $c(rc$rc)"; fi
  done
  echo "$row"
  git -C "$R" checkout -- .
done
