#!/venv/bin/python
"""Mutation sweep: how many small, test-surviving changes of the library do the checks notice?

This is a test of the *machinery* (generators, oracles, correspondence), not a verification step and
not part of any registered command.  It never touches /repo or /verif: every worker owns a scratch
copy of the library and a clone of this framework under --work (default /root/work/mut), removed by
--clean.

  tools/mutate.py list                       # enumerate the mutants, print counts per file / operator
  tools/mutate.py run --workers 6 [--only gateway.py] [--sample 300] [--seed 0]
  tools/mutate.py report                     # summarise results.jsonl (killed by tests / caught / survived)
  tools/mutate.py clean

A mutant is a single source-segment replacement produced from the AST (comparison swaps, and/or,
negated conditions, constant tweaks, deleted statements, swapped adjacent statements, dropped except
classes, dropped decorators, +/-).  For each mutant: the test suite runs first (a mutant the tests kill
is uninteresting); a test-surviving mutant is handed to the quick checks of the properties anchored in
the mutated file; "caught" = some check exits 1, with or without a concrete failing input.
Survivors are either equivalent mutants or gaps in the checks: they are what one reads.
"""

from __future__ import annotations

import argparse
import ast
import hashlib
import json
import os
import random
import shutil
import subprocess
import sys
import time
from concurrent.futures import ThreadPoolExecutor

VERIF = os.path.dirname(os.path.dirname(os.path.abspath(__file__)))
REPO = os.environ.get("VERIF_REPO", "/repo")
PY = "/venv/bin/python"
SRC = "src/aiomysensors"
FILES = [
    "gateway.py", "persistence.py", "exceptions.py", "model/message.py", "model/node.py", "model/const.py",
    "model/protocol/__init__.py", "model/protocol/protocol_14.py", "model/protocol/protocol_15.py",
    "model/protocol/protocol_20.py", "model/protocol/protocol_21.py", "model/protocol/protocol_22.py",
    "model/protocol/message_handler.py", "transport/__init__.py", "transport/serial.py", "transport/tcp.py", "transport/mqtt.py",
]
EXTRA = {   # properties that exercise a file although they are not anchored in it
    "model/message.py": ["C03", "C04"], "model/const.py": ["C01", "C02", "C11"], "exceptions.py": ["C03", "C14", "C17"],
    "gateway.py": ["C03", "C06", "C12"], "model/node.py": ["C04", "C13", "C14"],
    "model/protocol/__init__.py": ["C05", "C19"], "model/protocol/message_handler.py": ["C03", "C06", "C12"],
    "transport/__init__.py": ["C17", "C16"], "transport/serial.py": ["C17", "C16"], "transport/tcp.py": ["C17", "C16"],
}

CMP = {ast.Lt: "<=", ast.LtE: "<", ast.Gt: ">=", ast.GtE: ">", ast.Eq: "!=", ast.NotEq: "==",
       ast.Is: "is not", ast.IsNot: "is", ast.In: "not in", ast.NotIn: "in"}


def anchored() -> dict[str, list[str]]:
    out: dict[str, list[str]] = {}
    for line in open(os.path.join(VERIF, "properties.jsonl")):
        p = json.loads(line)
        for f in p["anchors"]["files"]:
            rel = f.replace(SRC + "/", "")
            out.setdefault(rel, []).append(p["id"])
    for f, extra in EXTRA.items():
        for e in extra:
            if e not in out.setdefault(f, []):
                out[f].append(e)
    return out


class Collector(ast.NodeVisitor):
    def __init__(self, text: str) -> None:
        self.text = text
        self.lines = text.split("\n")
        self.offs = [0]
        for ln in self.lines:
            self.offs.append(self.offs[-1] + len(ln.encode("utf-8")) + 1)
        self.btext = text.encode("utf-8")
        self.muts: list[tuple[int, int, str, str]] = []   # (start byte, end byte, replacement, operator)

    def span(self, node) -> tuple[int, int]:
        return (self.offs[node.lineno - 1] + node.col_offset, self.offs[node.end_lineno - 1] + node.end_col_offset)

    def seg(self, node) -> str:
        a, b = self.span(node)
        return self.btext[a:b].decode("utf-8")

    def add(self, node, repl: str, op: str) -> None:
        a, b = self.span(node)
        if self.btext[a:b].decode("utf-8") != repl:
            self.muts.append((a, b, repl, op))

    # -- expressions
    def visit_Compare(self, node):
        if len(node.ops) == 1 and type(node.ops[0]) in CMP:
            self.add(node, f"{self.seg(node.left)} {CMP[type(node.ops[0])]} {self.seg(node.comparators[0])}", "cmp")
        self.generic_visit(node)

    def visit_BoolOp(self, node):
        new = " or " if isinstance(node.op, ast.And) else " and "
        self.add(node, "(" + new.join("(" + self.seg(v) + ")" for v in node.values) + ")", "boolop")
        for i in range(len(node.values)):       # drop one operand
            rest = [v for j, v in enumerate(node.values) if j != i]
            old = " and " if isinstance(node.op, ast.And) else " or "
            self.add(node, "(" + old.join("(" + self.seg(v) + ")" for v in rest) + ")", "drop-operand")
        self.generic_visit(node)

    def visit_UnaryOp(self, node):
        if isinstance(node.op, ast.Not):
            self.add(node, "(" + self.seg(node.operand) + ")", "drop-not")
        self.generic_visit(node)

    def visit_BinOp(self, node):
        if isinstance(node.op, (ast.Add, ast.Sub)):
            new = "-" if isinstance(node.op, ast.Add) else "+"
            self.add(node, f"({self.seg(node.left)}) {new} ({self.seg(node.right)})", "arith")
        self.generic_visit(node)

    def visit_Constant(self, node):
        v = node.value
        if v is True or v is False:
            self.add(node, str(not v), "bool")
        elif isinstance(v, int):
            self.add(node, str(v + 1), "int+1" if self.depth > 0 else "table+1")
            if self.depth > 0:
                self.add(node, str(v - 1), "int-1")
        elif isinstance(v, str) and 0 < len(v) <= 2 and not getattr(node, "_doc", False):
            self.add(node, repr(v + v), "str")

    def visit_IfExp(self, node):
        self.add(node.test, f"not ({self.seg(node.test)})", "negate")
        self.generic_visit(node)

    # -- statements
    def _body(self, body):
        if body and isinstance(body[0], ast.Expr) and isinstance(body[0].value, ast.Constant) and isinstance(body[0].value.value, str):
            body[0].value._doc = True
        simple = (ast.Expr, ast.Assign, ast.AugAssign, ast.AnnAssign)
        for i, st in enumerate(body):
            if isinstance(st, ast.Expr) and getattr(st.value, "_doc", False):
                continue
            if isinstance(st, (ast.Expr, ast.Assign, ast.AugAssign, ast.Raise)) or (isinstance(st, ast.AnnAssign) and st.value is not None):
                self.add(st, "pass", "delete")
            if isinstance(st, ast.Return) and st.value is not None and not isinstance(st.value, ast.Constant):
                pass
            if i + 1 < len(body) and isinstance(st, simple) and isinstance(body[i + 1], simple) and not (
                    isinstance(st, ast.Expr) and getattr(st.value, "_doc", False)) and st.col_offset == body[i + 1].col_offset:
                a, _ = self.span(st)
                _, b = self.span(body[i + 1])
                indent = " " * st.col_offset
                self.muts.append((a, b, self.seg(body[i + 1]) + "\n" + indent + self.seg(st), "swap"))

    depth = 0       # > 0 inside a function body: statement-level mutants only there (class bodies are enum tables)

    def generic_visit(self, node):
        is_fn = isinstance(node, (ast.FunctionDef, ast.AsyncFunctionDef))
        if is_fn:
            self.depth += 1
        for field in ("body", "orelse", "finalbody"):
            b = getattr(node, field, None)
            if isinstance(b, list) and b and isinstance(b[0], ast.stmt):
                if self.depth > 0:
                    self._body(b)
                elif b and isinstance(b[0], ast.Expr) and isinstance(b[0].value, ast.Constant) and isinstance(b[0].value.value, str):
                    b[0].value._doc = True
        super().generic_visit(node)
        if is_fn:
            self.depth -= 1

    def visit_If(self, node):
        self.add(node.test, f"not ({self.seg(node.test)})", "negate")
        self.generic_visit(node)

    def visit_While(self, node):
        if not (isinstance(node.test, ast.Constant)):
            self.add(node.test, f"not ({self.seg(node.test)})", "negate")
        self.generic_visit(node)

    def visit_ExceptHandler(self, node):
        if isinstance(node.type, ast.Tuple) and len(node.type.elts) > 1:
            for i in range(len(node.type.elts)):
                rest = [self.seg(e) for j, e in enumerate(node.type.elts) if j != i]
                self.add(node.type, "(" + ", ".join(rest) + ("," if len(rest) == 1 else "") + ")", "except-drop")
        self.generic_visit(node)

    def _decorators(self, node):
        for d in node.decorator_list:
            if isinstance(d, ast.Name) and d.id in ("classmethod", "staticmethod", "property", "dataclass"):
                continue
            if isinstance(d, ast.Attribute) and d.attr in ("setter",):
                continue
            a = self.offs[d.lineno - 1]
            b = self.offs[d.end_lineno]          # whole line(s) including the newline
            self.muts.append((a, b, "", "drop-decorator"))

    def visit_FunctionDef(self, node):
        self._decorators(node)
        self.generic_visit(node)

    visit_AsyncFunctionDef = visit_FunctionDef

    def visit_With(self, node):
        self.generic_visit(node)

    def visit_Call(self, node):
        for kw in node.keywords:       # drop a keyword argument (e.g. message_buffer=False, maxsplit)
            if kw.arg is None:
                continue
            args = [self.seg(a) for a in node.args] + [f"{k.arg}={self.seg(k.value)}" if k.arg else "**" + self.seg(k.value)
                                                       for k in node.keywords if k is not kw]
            self.add(node, f"{self.seg(node.func)}({', '.join(args)})", "drop-kwarg")
        self.generic_visit(node)


def mutants_of(rel: str, repo: str = REPO):
    path = os.path.join(repo, SRC, rel)
    text = open(path, encoding="utf-8").read()
    tree = ast.parse(text)
    c = Collector(text)
    c.visit(tree)
    seen = set()
    out = []
    for a, b, repl, op in c.muts:
        new = (c.btext[:a] + repl.encode("utf-8") + c.btext[b:]).decode("utf-8")
        h = hashlib.sha1(new.encode()).hexdigest()[:12]
        if h in seen:
            continue
        try:
            ast.parse(new)
        except SyntaxError:
            continue
        seen.add(h)
        line = text[: len(c.btext[:a].decode("utf-8"))].count("\n") + 1
        out.append({"id": f"{rel}:{line}:{op}:{h}", "file": rel, "line": line, "op": op,
                    "old": c.btext[a:b].decode("utf-8")[:160], "new": repl[:160], "text": new})
    return out


def all_mutants(only: list[str] | None):
    out = []
    for rel in FILES:
        if only and not any(o in rel for o in only):
            continue
        out.extend(mutants_of(rel))
    return out


def sh(cmd, cwd=None, env=None, timeout=900):
    try:
        p = subprocess.run(cmd, cwd=cwd, env=env, stdout=subprocess.PIPE, stderr=subprocess.STDOUT, text=True, timeout=timeout)
        return p.returncode, p.stdout
    except subprocess.TimeoutExpired as e:
        return 124, (e.stdout or b"").decode("utf-8", "replace") if isinstance(e.stdout, bytes) else (e.stdout or "")


class Worker:
    def __init__(self, work: str, i: int) -> None:
        self.dir = os.path.join(work, f"w{i}")
        self.repo = os.path.join(self.dir, "repo")
        self.verif = os.path.join(self.dir, "verif")
        if not os.path.isdir(self.repo):
            os.makedirs(self.dir, exist_ok=True)
            shutil.copytree(REPO, self.repo, ignore=shutil.ignore_patterns(".git", "__pycache__", ".pytest_cache", "coverage.xml"))
        if not os.path.isdir(self.verif):
            sh(["git", "clone", "-q", VERIF, self.verif])
            lake = os.path.join(VERIF, "lean", ".lake")
            if os.path.isdir(lake):
                shutil.copytree(lake, os.path.join(self.verif, "lean", ".lake"))
        else:
            sh(["git", "pull", "-q"], cwd=self.verif)

    def run(self, m: dict, props: list[str]) -> dict:
        path = os.path.join(self.repo, SRC, m["file"])
        orig = open(os.path.join(REPO, SRC, m["file"]), encoding="utf-8").read()
        res = {k: m[k] for k in ("id", "file", "line", "op", "old", "new")}
        t0 = time.time()
        try:
            with open(path, "w", encoding="utf-8") as f:
                f.write(m["text"])
            env = dict(os.environ, PYTHONPATH=os.path.join(self.repo, "src"), PYTHONDONTWRITEBYTECODE="1")
            rc, out = sh([PY, "-m", "pytest", "-q", "-x", "--no-cov", "-p", "no:cacheprovider", "--timeout=120"], cwd=self.repo, env=env, timeout=600)
            res["tests"] = "pass" if rc == 0 else "fail"
            if rc != 0:
                return res
            env = dict(os.environ, VERIF_REPO=self.repo, PYTHONDONTWRITEBYTECODE="1")
            res["checks"] = {}
            for p in props:
                rc, out = sh(["./check", p], cwd=self.verif, env=env, timeout=1200)
                tag = "ok" if rc == 0 else ("nf" if "no-failing-input-found" in out else "caught") if rc == 1 else f"rc{rc}"
                res["checks"][p] = tag
                if rc == 1 and not m.get("all"):
                    break
            res["caught"] = any(v in ("caught", "nf") for v in res["checks"].values())
            return res
        finally:
            with open(path, "w", encoding="utf-8") as f:
                f.write(orig)
            res["seconds"] = round(time.time() - t0, 1)


def main() -> int:
    ap = argparse.ArgumentParser()
    ap.add_argument("cmd", choices=["list", "run", "report", "clean", "show"])
    ap.add_argument("--work", default="/root/work/mut")
    ap.add_argument("--workers", type=int, default=4)
    ap.add_argument("--only", nargs="*")
    ap.add_argument("--ops", nargs="*")
    ap.add_argument("--sample", type=int, default=0)
    ap.add_argument("--seed", type=int, default=0)
    ap.add_argument("--out", default=None)
    ap.add_argument("--id", default=None)
    args = ap.parse_args()
    out_path = args.out or os.path.join(args.work, "results.jsonl")

    if args.cmd == "clean":
        shutil.rmtree(args.work, ignore_errors=True)
        return 0
    if args.cmd == "report":
        rows = [json.loads(x) for x in open(out_path)]
        killed = [r for r in rows if r["tests"] == "fail"]
        alive = [r for r in rows if r["tests"] == "pass"]
        caught = [r for r in alive if r.get("caught")]
        surv = [r for r in alive if not r.get("caught")]
        print(f"mutants {len(rows)}: killed by the test suite {len(killed)}, test-surviving {len(alive)}: caught by the checks {len(caught)} "
              f"(with a failing input {sum(1 for r in caught if 'caught' in r['checks'].values())}), not caught {len(surv)}")
        by = {}
        for r in alive:
            k = r["file"]
            by.setdefault(k, [0, 0])
            by[k][0 if r.get("caught") else 1] += 1
        for k, (c, s) in sorted(by.items()):
            print(f"  {k:40s} caught {c:4d}  not caught {s:4d}")
        print("not caught:")
        for r in surv:
            print(f"  {r['id']}\n      - {r['old']!r}\n      + {r['new']!r}   checks={r.get('checks')}")
        return 0

    muts = all_mutants(args.only)
    if args.ops:
        muts = [m for m in muts if m["op"] in args.ops]
    if args.cmd == "show":
        for m in muts:
            if m["id"] == args.id:
                sys.stdout.write(m["text"])
        return 0
    if args.cmd == "list":
        by = {}
        for m in muts:
            by[(m["file"], m["op"])] = by.get((m["file"], m["op"]), 0) + 1
        for k, v in sorted(by.items()):
            print(f"{k[0]:40s} {k[1]:16s} {v}")
        print("total", len(muts))
        return 0

    rng = random.Random(args.seed)
    done = set()
    if os.path.exists(out_path):
        done = {json.loads(x)["id"] for x in open(out_path)}
    muts = [m for m in muts if m["id"] not in done]
    if args.sample and len(muts) > args.sample:
        muts = rng.sample(muts, args.sample)
    props = anchored()
    os.makedirs(args.work, exist_ok=True)
    workers = [Worker(args.work, i) for i in range(args.workers)]
    free = list(workers)
    import threading
    lock = threading.Lock()

    def job(m):
        with lock:
            w = free.pop()
        try:
            r = w.run(m, props.get(m["file"], ["C03"]))
        finally:
            with lock:
                free.append(w)
        with lock:
            with open(out_path, "a") as f:
                f.write(json.dumps(r) + "\n")
            print(f"{r['id']}: tests {r['tests']}" + (f", checks {r.get('checks')}" if r["tests"] == "pass" else ""), flush=True)
        return r

    with ThreadPoolExecutor(args.workers) as ex:
        list(ex.map(job, muts))
    return 0


if __name__ == "__main__":
    sys.exit(main())
