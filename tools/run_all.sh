#!/bin/sh
# Run every registered quick check for the given seeds; print one line per check.
cd "$(dirname "$0")/.." || exit 2
for seed in "$@"; do
  for p in $(python3 -c "import json;print(' '.join(c['property_id'] for c in json.load(open('MANIFEST.json'))['checks']))"); do
    VERIF_SEED=$seed ./check "$p" 2>&1 | grep -E "VIOLATION|KNOWN|-> exit" | tr '\n' ' '; echo
  done
done
