#!/bin/sh
# tools/eval_micro.sh — behaviour-preserving micro-rewrites of handler bodies that STAY inside the translatable subset
# (seeded/micro-refactors/*.diff): each is applied to a scratch copy of /repo, the bodies are re-translated and the
# equality proofs (Lemmas/BodiesEq.lean) rebuilt.  A proof that breaks on one of them would make the check report
# `no-failing-input-found` on code whose behaviour is unchanged; the proofs are kept robust against all of these.
cd "$(dirname "$0")/.." || exit 2
C=/root/work/micro_repo
OUTS="--out lean/AioMySensors/Generated/Bodies.lean --stream-out lean/AioMySensors/Generated/StreamBodies.lean --codec-out lean/AioMySensors/Generated/CodecBodies.lean --mqtt-out lean/AioMySensors/Generated/MqttBodies.lean --persist-out lean/AioMySensors/Generated/PersistBodies.lean"
MODS="AioMySensors.Lemmas.BodiesEq AioMySensors.Lemmas.StreamBodiesEq AioMySensors.Lemmas.CodecBodiesEq AioMySensors.Lemmas.MqttBodiesEq AioMySensors.Lemmas.PersistBodiesEq"
# further ties registered in tools/ties.json
XMODS=$(python3 -c "import json;print(' '.join(t['eq_mod'] for t in json.load(open('tools/ties.json'))))")
xtranslate() { python3 -c "
import json,subprocess,sys
for t in json.load(open('tools/ties.json')):
    r=subprocess.run(['/venv/bin/python',t['script'],'--repo',sys.argv[1],'--out',t['out'],'--snapshot',t['snapshot']],capture_output=True,text=True)
    print(t['name']+': '+(r.stdout.strip().split('\\n')[-1] if r.stdout.strip() else 'exit %d'%r.returncode)[:110])
" "$1" | tr '\n' ' '; }
rm -rf "$C"; mkdir -p "$C"; (cd /repo && git archive HEAD) | tar -x -C "$C"
(cd "$C" && git init -q && git add -A >/dev/null 2>&1 && git -c user.email=x@x -c user.name=x commit -qm base >/dev/null)
for d in seeded/micro-refactors/*.diff; do
  git -C "$C" checkout -q -- .; git -C "$C" apply "$(pwd)/$d" || { echo "$d: does not apply"; continue; }
  /venv/bin/python tools/extract.py --repo "$C" --out lean/AioMySensors/Generated/Tables.lean --json "${TMPDIR:-/tmp}/eval_micro_json.$$" >/dev/null 2>&1
  t=$(/venv/bin/python tools/translate.py --repo "$C" $OUTS --snapshot tools/bodies_snapshot.json --json "${TMPDIR:-/tmp}/eval_micro_json.$$" | cut -c1-140)
  x=$(xtranslate "$C")
  if (cd lean && lake build $MODS $XMODS >/tmp/micro.log 2>&1); then r="equalities hold"; else r="EQUALITY BROKEN: $(grep -m2 'error:' /tmp/micro.log | tr '\n' ' ' | cut -c1-200)"; fi
  echo "$(basename "$d" .diff): $t | $x-> $r"
done
rm -rf "$C" /tmp/micro.log
/venv/bin/python tools/extract.py --repo /repo --out lean/AioMySensors/Generated/Tables.lean --json tools/tables.json | tail -1
/venv/bin/python tools/translate.py --repo /repo $OUTS --snapshot tools/bodies_snapshot.json --json tools/bodies_status.json | cut -c1-60
xtranslate /repo; echo
(cd lean && lake build $MODS $XMODS 2>&1 | tail -1)
