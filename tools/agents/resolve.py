#!/usr/bin/env python3
"""Resolve the routine merge conflicts: tools/ties.json (union by name), lean/AioMySensors.lean (union of lines)."""
import json, re, subprocess, sys
def sides(path):
    ours = subprocess.run(["git", "show", ":2:" + path], capture_output=True, text=True).stdout
    theirs = subprocess.run(["git", "show", ":3:" + path], capture_output=True, text=True).stdout
    return ours, theirs
st = subprocess.run(["git", "status", "--short"], capture_output=True, text=True).stdout
for line in st.splitlines():
    if not re.match(r"^(UU|AA) ", line):
        continue
    path = line[3:]
    if path == "tools/ties.json":
        o, t = sides(path)
        a, b = json.loads(o), json.loads(t)
        names = [x["name"] for x in a]
        a += [x for x in b if x["name"] not in names]
        json.dump(a, open(path, "w"), indent=1)
        subprocess.run(["git", "add", path]); print("resolved", path, [x["name"] for x in a])
    elif path == "lean/AioMySensors.lean":
        o, t = sides(path)
        lines = o.splitlines()
        for l in t.splitlines():
            if l.strip() and l not in lines:
                lines.append(l)
        open(path, "w").write("\n".join(lines) + "\n")
        subprocess.run(["git", "add", path]); print("resolved", path)
    else:
        print("UNRESOLVED", path)
