#!/bin/sh
# run every quick check against each refactoring Rxx given as arguments, one copy of /verif per refactoring, in parallel
for R in "$@"; do
(
  V=/root/work/vr_$R; C=/root/work/vr_repo_$R
  rm -rf $V $C; cp -r /verif $V; mkdir -p $C; (cd /repo && git archive HEAD) | tar -x -C $C
  (cd $C && git init -q && git add -A >/dev/null 2>&1 && git -c user.email=x@x -c user.name=x commit -qm base >/dev/null)
  git -C $C apply /verif/seeded/refactor-$R/patch.diff || { echo "$R: patch does not apply" > /root/work/vr_$R.log; exit; }
  : > /root/work/vr_$R.log
  for c in C01 C02 C03 C04 C05 C06 C07 C08 C09 C10 C11 C12 C13 C14 C15 C16 C17 C18 C19; do
    (cd $V && VERIF_REPO=$C ./check $c > out.txt 2>&1); rc=$?
    echo "$R $c rc=$rc $(grep -E '^VIOLATION' $V/out.txt | cut -c1-140)" >> /root/work/vr_$R.log
    [ $rc -ne 0 ] && cp $V/replays/$c-quick-0.json /root/work/vr_${R}_$c.json
  done
  rm -rf $V $C
) &
done
wait
