#!/venv/bin/python
"""The MQTT transport OBJECT: `MQTTTransport` / `MQTTClient` (transport/mqtt.py) -> Generated/MqttObjectBodies.lean.

Eleven methods are compiled from their AST, statement by statement, into Lean terms over the vocabulary of
`lean/AioMySensors/Model/LitMqttObject.lean` (a monad `OM` over the model's client object plus the list of calls made
on the aiomqtt client; one primitive per operation on the client, the receive task and the queue; the outcome of every
awaited client call — where an injected fault strikes — is a parameter):

  MQTTClient._connect / _disconnect / _publish / _subscribe   -> client_connect / client_disconnect / client_publish / client_subscribe
  MQTTTransport.connect / disconnect / read / write           -> connect (+ connectTopics, connectArgs) / disconnect / read / write
  MQTTTransport._receive / _receive_error                     -> receive / receive_error
  MQTTClient._handle_incoming                                 -> handle_incoming (+ handle_incomingBody: the body of its `async for`)

`Lemmas/MqttObjectBodiesEq.lean` proves each equal to the hand-written object model (`oConnect`, `oDisconnect`, `oWrite`,
`oSubscribe`, `qStep`, `taskStep`) that the C18 theorems speak about.

A statement or expression outside the subset makes the *function* untranslatable: its definition is then taken from the
committed snapshot (`tools/snap_mqttclient.json`), it is listed in the last output line, and that method is tied to the
code by the correspondence run alone.  That is not an alarm.

Ignored on purpose: docstrings, logging, annotations, the text and arguments of exception messages, `from err` causes,
the arguments of `AsyncioClient(...)`, `cast(...)`, and a leading `if not self._client: raise ...` of `_handle_incoming`
(the model's task exists only while the client does: `OInv`).
"""
from __future__ import annotations

import argparse
import ast
import importlib
import inspect
import json
import os
import sys

sys.path.insert(0, os.path.dirname(os.path.abspath(__file__)))
import translate as T  # noqa: E402
from translate import Untranslatable, fn_ast, lean_str, strip  # noqa: E402

SUB = "₁₂₃₄₅₆₇₈₉"

# fault binders: the outcome of the awaited calls on the aiomqtt client, as in the hand-written model
F_AENTER, F_AEXIT, F_PUB, F_SUB, F_SUBS = "f_aenter", "f_aexit", "f_pub", "f_sub", "f_subs"

# Lean name, class, python name, python parameter types (after self), extra binders, attribute binders, result type
METHODS = [
    ("client_connect", "MQTTClient", "_connect", [], [(F_AENTER, "Outcome")], {}, "unit"),
    ("client_disconnect", "MQTTClient", "_disconnect", [], [(F_AEXIT, "Outcome")], {}, "unit"),
    ("client_publish", "MQTTClient", "_publish", ["str", "str", "int"], [(F_PUB, "Outcome")], {}, "unit"),
    ("client_subscribe", "MQTTClient", "_subscribe", ["str", "int"], [(F_SUB, "Outcome")], {}, "unit"),
    ("connect", "MQTTTransport", "connect", [], [(F_AENTER, "Outcome"), (F_SUBS, "List Outcome"), (F_AEXIT, "Outcome")],
     {"in_prefix": "str"}, "unit"),
    ("disconnect", "MQTTTransport", "disconnect", [], [(F_AEXIT, "Outcome")], {}, "unit"),
    ("read", "MQTTTransport", "read", [], [], {}, "str"),
    ("write", "MQTTTransport", "write", ["str"], [(F_PUB, "Outcome")], {"out_prefix": "str"}, "unit"),
    ("receive", "MQTTTransport", "_receive", ["str", "str"], [], {}, "unit"),
    ("receive_error", "MQTTTransport", "_receive_error", ["tferror"], [], {}, "unit"),
    ("handle_incoming", "MQTTClient", "_handle_incoming", [], [], {}, "task"),
]
ORDER = [m[0] for m in METHODS]
# self._x(...) -> generated callee, the fault binder it consumes, the python argument types
CALLEES = {
    "_connect": ("client_connect", F_AENTER, []),
    "_disconnect": ("client_disconnect", F_AEXIT, []),
    "_publish": ("client_publish", F_PUB, ["str", "str", "int"]),
    "_subscribe": ("client_subscribe", F_SUB, ["str", "int"]),
}
LEAN_TY = {"str": "Str", "int": "Int", "strlist": "List Str", "item": "Item", "optexn": "Option MqttExn",
           "optstr": "Option Str", "exn": "MqttExn", "kw": "Kw", "bytes": "List Nat", "bool": "Bool"}


def is_self_attr(node, attr=None) -> bool:
    return isinstance(node, ast.Attribute) and isinstance(node.value, ast.Name) and node.value.id == "self" \
        and (attr is None or node.attr == attr)


def is_none(node) -> bool:
    return isinstance(node, ast.Constant) and node.value is None


class TrObj:
    def __init__(self, fn, lname: str, faults: dict, attrs: dict, result: str, mod):
        self.fn = fn
        self.glob = fn.__globals__
        self.mod = mod
        self.lname = lname
        self.faults = dict(faults)      # binder -> number of uses
        self.attrs = dict(attrs)        # self.<attr> -> type (bound as a parameter of the generated method)
        self.result = result            # 'unit' | 'str'
        self.env = {}                   # python local -> (lean text, type)  or  (None, ('strlits', [...])) etc.
        self.aux = []                   # auxiliary definitions emitted before the method
        self.n = 0
        self.nclauses = 0
        self.nsuppress = 0
        self.ncatch = 0
        self.in_loop = False

    # ---- helpers
    def fresh(self, base: str) -> str:
        self.n += 1
        if self.n > len(SUB):
            raise Untranslatable("too many temporaries")
        return base + SUB[self.n - 1]

    def use_fault(self, name: str) -> str:
        if name not in self.faults:
            raise Untranslatable(f"this method has no {name} (an awaited client call the model gives no outcome for here)")
        self.faults[name] += 1
        if self.faults[name] > 1:
            raise Untranslatable(f"two call sites for the outcome {name}")
        return name

    def exc_name(self, node) -> str:
        if isinstance(node, ast.Name):
            name = node.id
        elif isinstance(node, ast.Attribute) and isinstance(node.value, ast.Name) and node.value.id == "asyncio":
            name = node.attr
        else:
            raise Untranslatable("except class expression")
        if name not in T.PYEXN:
            raise Untranslatable(f"except class {name} outside the model's vocabulary")
        return name

    def classes(self, typ) -> str:
        elts = typ.elts if isinstance(typ, ast.Tuple) else [typ]
        return "[" + ", ".join("." + self.exc_name(e) for e in elts) + "]"

    def exn_of_ctor(self, e) -> str:
        """TransportError(...) / TransportFailedError(...) / RuntimeError(...) -> MqttExn term"""
        node = e.func if isinstance(e, ast.Call) else e
        if not isinstance(node, ast.Name):
            raise Untranslatable("raise of a computed class")
        cls = self.glob.get(node.id, getattr(__import__("builtins"), node.id, None))
        exc_mod = importlib.import_module("aiomysensors.exceptions")
        if cls is exc_mod.TransportError:
            return ".transportError"
        if cls is exc_mod.TransportFailedError:
            return ".transportFailed"
        if inspect.isclass(cls) and issubclass(cls, BaseException) and cls.__name__ == node.id and node.id in T.PYEXN \
                and not issubclass(cls, exc_mod.AIOMySensorsError):
            return f"(.foreign .{node.id})"
        raise Untranslatable(f"raise of {node.id}")

    def is_tf_error_ctor(self, e) -> bool:
        exc_mod = importlib.import_module("aiomysensors.exceptions")
        return isinstance(e, ast.Call) and isinstance(e.func, ast.Name) and self.glob.get(e.func.id) is exc_mod.TransportFailedError

    # ---- pure / PM expressions: -> (kind, text, type) with kind 'pure' | 'pm'
    def bindpm(self, sub, k):
        kind, text, ty = sub
        if kind == "pure":
            return k(text)
        v = self.fresh("x")
        k2 = k(v)
        inner = k2[1] if k2[0] == "pm" else f"(.ok {k2[1]})"
        return ("pm", f"(LMq.bind {text} fun {v} => {inner})", k2[2])

    def char(self, node) -> str:
        if isinstance(node, ast.Constant) and isinstance(node.value, str) and len(node.value) == 1:
            return f"(Char.ofNat {ord(node.value)})"
        raise Untranslatable("separator that is not a one-character literal")

    def enum_member(self, node):
        """MQTTMessageType.X -> 'ERROR' | 'MESSAGE'"""
        if isinstance(node, ast.Attribute) and isinstance(node.value, ast.Name) \
                and self.glob.get(node.value.id) is self.mod.MQTTMessageType and node.attr in ("ERROR", "MESSAGE"):
            if sorted(m.name for m in self.mod.MQTTMessageType) != ["ERROR", "MESSAGE"]:
                raise Untranslatable("MQTTMessageType has other members")
            return node.attr
        return None

    def expr(self, node):
        if isinstance(node, ast.Name) and node.id in self.env and self.env[node.id][0] is not None:
            return ("pure", *self.env[node.id])
        if is_self_attr(node) and node.attr in self.attrs:
            return ("pure", node.attr, self.attrs[node.attr])
        if isinstance(node, ast.Constant):
            if isinstance(node.value, bool):
                return ("pure", "true" if node.value else "false", "bool")
            if isinstance(node.value, int):
                return ("pure", T.lean_int(node.value), "int")
            if isinstance(node.value, str):
                return ("pure", lean_str(node.value), "str")
        # cast(T, e)
        if isinstance(node, ast.Call) and isinstance(node.func, ast.Name) and node.func.id == "cast" and len(node.args) == 2 \
                and not node.keywords and self.glob.get("cast") is __import__("typing").cast:
            return self.expr(node.args[1])
        # message.payload / message.topic.value inside the receive loop
        if isinstance(node, ast.Attribute) and isinstance(node.value, ast.Name) and self.env.get(node.value.id, (None, None))[1] == "brokermsg":
            if node.attr == "payload":
                return ("pure", "payload", "bytes")
        if isinstance(node, ast.Attribute) and node.attr == "value" and isinstance(node.value, ast.Attribute) and node.value.attr == "topic" \
                and isinstance(node.value.value, ast.Name) and self.env.get(node.value.value.id, (None, None))[1] == "brokermsg":
            return ("pure", "topic", "str")
        # fields of a ReceivedMessage
        if isinstance(node, ast.Attribute) and isinstance(node.value, ast.Name) and self.env.get(node.value.id, (None, None))[1] == "item":
            it = self.env[node.value.id][0]
            if node.attr == "error":
                return ("pure", f"(LO.errorOf {it})", "optexn")
            if node.attr == "message":
                return ("pure", f"(LO.messageOf {it})", "optstr")
        # f"{a}{b}"
        if isinstance(node, ast.JoinedStr):
            parts = []
            for v in node.values:
                if isinstance(v, ast.Constant) and isinstance(v.value, str):
                    parts.append(lean_str(v.value))
                elif isinstance(v, ast.FormattedValue) and v.conversion == -1 and v.format_spec is None:
                    k, t, ty = self.expr(v.value)
                    if k != "pure" or ty != "str":
                        raise Untranslatable("f-string of something else than a plain str")
                    parts.append(t)
                else:
                    raise Untranslatable("f-string part")
            return ("pure", "(" + " ++ ".join(parts) + ")", "str")
        if isinstance(node, ast.BinOp) and isinstance(node.op, ast.Add):
            a, b = self.expr(node.left), self.expr(node.right)
            if a[0] == b[0] == "pure" and a[2] == b[2] == "str":
                return ("pure", f"({a[1]} ++ {b[1]})", "str")
        # x.split("/")
        if isinstance(node, ast.Call) and isinstance(node.func, ast.Attribute) and node.func.attr == "split" and len(node.args) == 1 \
                and not node.keywords:
            d = self.char(node.args[0])
            return self.bindpm(self.expr(node.func.value), lambda t: self._typed("str", ("pure", f"(splitOn {d} {t})", "strlist"), node))
        # xs[k]
        if isinstance(node, ast.Subscript) and not isinstance(node.slice, ast.Slice):
            idx = node.slice
            neg = isinstance(idx, ast.UnaryOp) and isinstance(idx.op, ast.USub)
            lit = idx.operand if neg else idx
            if isinstance(lit, ast.Constant) and isinstance(lit.value, int) and not isinstance(lit.value, bool) and lit.value >= 0:
                base = self.expr(node.value)
                if base[2] != "strlist":
                    raise Untranslatable("subscript of something else than a list of str")
                prim = "PM.indexNeg" if neg and lit.value > 0 else "PM.indexPos"
                return self.bindpm(base, lambda t: ("pm", f"({prim} {t} {lit.value})", "str"))
        # int(x)
        if isinstance(node, ast.Call) and isinstance(node.func, ast.Name) and node.func.id == "int" and len(node.args) == 1 \
                and not node.keywords and "int" not in self.glob:
            sub = self.expr(node.args[0])
            if sub[2] != "str":
                raise Untranslatable("int() of something else than a str")
            return self.bindpm(sub, lambda t: ("pm", f"(LMq.pyInt {t})", "int"))
        # a if c else b
        if isinstance(node, ast.IfExp):
            c = self.cond(node.test)
            a, b = self.expr(node.body), self.expr(node.orelse)
            if a[2] != b[2]:
                raise Untranslatable("conditional expression with branches of different types")

            def both(ct):
                if a[0] == b[0] == "pure":
                    return ("pure", f"(if {ct} then {a[1]} else {b[1]})", a[2])
                at = a[1] if a[0] == "pm" else f"(.ok {a[1]})"
                bt = b[1] if b[0] == "pm" else f"(.ok {b[1]})"
                return ("pm", f"(if {ct} then {at} else {bt})", a[2])
            return self.bindpm(c, both)
        # self._parse_mqtt_to_message(topic, payload)
        if isinstance(node, ast.Call) and is_self_attr(node.func, "_parse_mqtt_to_message") and len(node.args) == 2 and not node.keywords:
            a, b = self.expr(node.args[0]), self.expr(node.args[1])
            if a[0] == b[0] == "pure" and a[2] == b[2] == "str":
                return ("pure", f"(GenMqtt.parse_mqtt_to_message {a[1]} {b[1]})", "str")
        # ReceivedMessage(...)
        if isinstance(node, ast.Call) and isinstance(node.func, ast.Name) and self.glob.get(node.func.id) is self.mod.ReceivedMessage:
            try:
                ba = inspect.signature(self.mod.ReceivedMessage).bind(*node.args, **{k.arg: k.value for k in node.keywords if k.arg})
            except TypeError as err:
                raise Untranslatable(f"ReceivedMessage call: {err}") from err
            if any(k.arg is None for k in node.keywords):
                raise Untranslatable("ReceivedMessage(**…)")
            args = ba.arguments
            kind = self.enum_member(args.get("message_type"))
            msg, err = args.get("message"), args.get("error")
            if kind == "MESSAGE" and msg is not None and (err is None or is_none(err)):
                m = self.expr(msg)
                if m[0] == "pure" and m[2] == "str":
                    return ("pure", f"(LO.messageEntry {m[1]})", "item")
            if kind == "ERROR" and err is not None and (msg is None or is_none(msg)):
                e = self.expr(err)
                if e[0] == "pure" and e[2] == "tferror":
                    return ("pure", "LO.errorEntry", "item")
            raise Untranslatable("ReceivedMessage of a shape the model's queue has no entry for")
        # {"k": v, ...}
        if isinstance(node, ast.Dict):
            return ("pure", self.kwlist([(k, v) for k, v in zip(node.keys, node.values)]), "kw")
        raise Untranslatable(f"expression {ast.unparse(node)[:60]}")

    def _typed(self, want, res, node):
        return res

    def kwval(self, v) -> str:
        k, t, ty = self.expr(v)
        if k != "pure" or ty not in ("str", "int", "bool"):
            raise Untranslatable("keyword argument value")
        return f".{ty} {t}"

    def kwlist(self, pairs) -> str:
        out = []
        for k, v in pairs:
            key = k.value if isinstance(k, ast.Constant) else k
            if not isinstance(key, str):
                raise Untranslatable("keyword that is not a literal name")
            out.append(f'("{key}", {self.kwval(v)})')
        return "[" + ", ".join(out) + "]"

    def cond(self, node):
        """A pure condition -> (kind, Bool text, 'bool')."""
        if isinstance(node, ast.UnaryOp) and isinstance(node.op, ast.Not):
            return self.bindpm(self.cond(node.operand), lambda t: ("pure", f"(!{t})", "bool"))
        if isinstance(node, ast.BoolOp):
            op = "&&" if isinstance(node.op, ast.And) else "||"
            parts = [self.cond(v) for v in node.values]
            if any(p[0] != "pure" for p in parts):
                raise Untranslatable("and/or over a condition that can raise")
            return ("pure", "(" + f" {op} ".join(p[1] for p in parts) + ")", "bool")
        if isinstance(node, ast.Compare) and len(node.ops) == 1:
            op, l, r = node.ops[0], node.left, node.comparators[0]
            member = self.enum_member(r)
            if member and isinstance(op, (ast.Is, ast.IsNot, ast.Eq, ast.NotEq)) and isinstance(l, ast.Attribute) and l.attr == "message_type" \
                    and isinstance(l.value, ast.Name) and self.env.get(l.value.id, (None, None))[1] == "item":
                pos = (member == "ERROR") == isinstance(op, (ast.Is, ast.Eq))
                t = f"(LO.isError {self.env[l.value.id][0]})"
                return ("pure", t if pos else f"(!{t})", "bool")
            if isinstance(op, (ast.Eq, ast.NotEq)):
                a, b = self.expr(l), self.expr(r)
                if a[2] == b[2] and a[2] in ("str", "int"):
                    neg = isinstance(op, ast.NotEq)
                    return self.bindpm(a, lambda at: self.bindpm(b, lambda bt: ("pure", f"({at} != {bt})" if neg else f"({at} == {bt})", "bool")))
        k, t, ty = self.expr(node) if not isinstance(node, (ast.Compare, ast.BoolOp)) else (None, None, None)
        if k == "pure" and ty == "str":
            return ("pure", f"(LO.truthy {t})", "bool")
        if k == "pure" and ty == "bool":
            return ("pure", t, "bool")
        raise Untranslatable(f"condition {ast.unparse(node)[:60]}")

    def state_cond(self, node):
        """A condition on self._client / self._incoming_task -> Bool text over `o`, or None."""
        if isinstance(node, ast.UnaryOp) and isinstance(node.op, ast.Not):
            t = self.state_cond(node.operand)
            return None if t is None else f"!({t})"
        if isinstance(node, ast.BoolOp):
            ts = [self.state_cond(v) for v in node.values]
            if any(t is None for t in ts):
                return None
            return "(" + (" && " if isinstance(node.op, ast.And) else " || ").join(ts) + ")"
        if isinstance(node, ast.Compare) and len(node.ops) == 1 and is_none(node.comparators[0]) and isinstance(node.ops[0], (ast.Is, ast.IsNot)):
            t = self.state_cond(node.left)
            if t is None:
                return None
            return t if isinstance(node.ops[0], ast.IsNot) else f"!({t})"
        if is_self_attr(node, "_client"):
            return "LO.hasClient o"
        if is_self_attr(node, "_incoming_task"):
            return "LO.hasTask o"
        return None

    # ---- effects: one statement -> OM Unit term, or None
    def client_kwargs(self, call: ast.Call) -> str:
        """keyword arguments of a call on the aiomqtt client: explicit keywords, then at most one **dict"""
        explicit = [(k.arg, k.value) for k in call.keywords if k.arg is not None]
        stars = [k.value for k in call.keywords if k.arg is None]
        text = self.kwlist(explicit)
        if not stars:
            return text
        if len(stars) > 1 or not isinstance(stars[0], ast.Name) or self.env.get(stars[0].id, (None, None))[1] != "kw":
            raise Untranslatable("** of something else than a local dict")
        d = self.env[stars[0].id][0]
        if explicit:
            if call.keywords[-1].arg is not None:
                raise Untranslatable("keywords after **")
            return f"({text} ++ {d})"
        return d

    def effect(self, node):
        aw = isinstance(node, ast.Await)
        c = node.value if aw else node
        if aw and is_self_attr(c, "_incoming_task"):
            return "LO.awaitTask"
        if not isinstance(c, ast.Call):
            return None
        f = c.func
        if not isinstance(f, ast.Attribute):
            return None
        # calls on the aiomqtt client
        if is_self_attr(f.value, "_client"):
            if f.attr == "__aenter__" and aw and not c.args and not c.keywords:
                return f"(LO.aenter {self.use_fault(F_AENTER)})"
            if f.attr == "__aexit__" and aw and len(c.args) == 3 and all(is_none(a) for a in c.args) and not c.keywords:
                return f"(LO.aexit {self.use_fault(F_AEXIT)})"
            if f.attr in ("publish", "subscribe") and aw and len(c.args) == 1:
                t = self.expr(c.args[0])
                if t[0] != "pure" or t[2] != "str":
                    raise Untranslatable("topic argument")
                return f"(LO.{f.attr} {t[1]} {self.client_kwargs(c)} {self.use_fault(F_PUB if f.attr == 'publish' else F_SUB)})"
            raise Untranslatable(f"call on the aiomqtt client: {ast.unparse(c)[:60]}")
        # the receive task
        if is_self_attr(f.value, "_incoming_task"):
            if f.attr == "cancel" and not aw and not c.args and not c.keywords:
                return "LO.taskCancel"
            raise Untranslatable(f"call on the receive task: {ast.unparse(c)[:60]}")
        # the queue
        if is_self_attr(f.value, "_incoming_messages"):
            if f.attr == "task_done" and not aw and not c.args and not c.keywords:
                return "LO.taskDone"
            if f.attr == "put_nowait" and not aw and len(c.args) == 1 and not c.keywords:
                x = self.expr(c.args[0])
                if x[0] == "pure" and x[2] == "item":
                    return f"(LO.putNowait {x[1]})"
            raise Untranslatable(f"call on the queue: {ast.unparse(c)[:60]}")
        # the four hooks
        if is_self_attr(f) and f.attr in CALLEES and aw and not c.keywords:
            callee, fault, tys = CALLEES[f.attr]
            if len(c.args) != len(tys):
                raise Untranslatable(f"arity of {f.attr}")
            args = []
            for a, ty in zip(c.args, tys):
                x = self.expr(a)
                if x[0] != "pure" or x[2] != ty:
                    raise Untranslatable(f"argument of {f.attr}")
                args.append(x[1])
            return "(" + " ".join([callee] + args + [self.use_fault(fault)]) + ")"
        if is_self_attr(f, "_receive") and not aw and len(c.args) == 2 and not c.keywords:
            a, b = self.expr(c.args[0]), self.expr(c.args[1])
            if a[0] == b[0] == "pure" and a[2] == b[2] == "str":
                return f"(receive {a[1]} {b[1]})"
            raise Untranslatable("arguments of _receive")
        if is_self_attr(f, "_receive_error") and not aw and len(c.args) == 1 and not c.keywords:
            if self.is_tf_error_ctor(c.args[0]):
                return "receive_error"
            raise Untranslatable("_receive_error of something else than a TransportFailedError(...)")
        # await asyncio.gather(*tasks)
        if aw and isinstance(f.value, ast.Name) and f.value.id == "asyncio" and f.attr == "gather" and len(c.args) == 1 \
                and isinstance(c.args[0], ast.Starred) and isinstance(c.args[0].value, ast.Name) and not c.keywords:
            name = c.args[0].value.id
            ent = self.env.get(name, (None, None))
            if isinstance(ent[1], tuple) and ent[1][0] == "coros":
                a = self.fresh("a")
                return f"(LO.gather ({ent[0]}.map fun {a} => {ent[1][1]} {a}.1 {a}.2) {self.use_fault(F_SUBS)})"
            raise Untranslatable("gather of something else than the list of pending _subscribe calls")
        return None

    def seqs(self, terms) -> str:
        out = terms[-1]
        for t in reversed(terms[:-1]):
            out = f"(OM.seq {t}\n  {out})"
        return out

    def effects_block(self, stmts) -> str:
        """A block made of effect statements only (a try body, a with body, a handler) -> OM Unit."""
        stmts = strip(stmts)
        terms = []
        for s in stmts:
            if isinstance(s, ast.Pass):
                continue
            t = self.effect(s.value) if isinstance(s, ast.Expr) else None
            if t is None:
                raise Untranslatable(f"statement {ast.unparse(s)[:60]}")
            terms.append(t)
        return self.seqs(terms) if terms else "(OM.pure ())"

    def named(self, kind: str, ty: str, body: str) -> str:
        idx = {"Clauses": self.nclauses, "Suppress": self.nsuppress, "Catch": self.ncatch, "Outer": 0}[kind]
        if kind == "Clauses":
            self.nclauses += 1
        elif kind == "Suppress":
            self.nsuppress += 1
        elif kind == "Catch":
            self.ncatch += 1
        name = f"{self.lname}{kind}{idx}"
        self.aux.append(f"def {name} : {ty} := {body}")
        return name

    def raise_term(self, s: ast.Raise) -> str:
        if s.exc is None:
            raise Untranslatable("bare raise outside a catch-all clause")
        if isinstance(s.exc, ast.Name) and self.env.get(s.exc.id, (None, None))[1] == "exn":
            return f"(OM.raise {self.env[s.exc.id][0]})"
        return f"(OM.raise {self.exn_of_ctor(s.exc)})"

    def terminates(self, stmts) -> bool:
        stmts = strip(stmts)
        if not stmts:
            return False
        last = stmts[-1]
        if isinstance(last, (ast.Raise, ast.Return, ast.Continue)):
            return True
        if isinstance(last, ast.If) and last.orelse:
            return self.terminates(last.body) and self.terminates(last.orelse)
        return False

    def end(self) -> str:
        if self.result == "unit":
            return "(OM.pure ())"
        raise Untranslatable("function falls off its end")

    def then(self, term: str, rest) -> str:
        """an OM Unit term followed by the rest of the block"""
        if not rest:
            if self.result != "unit":
                raise Untranslatable("function falls off its end")
            return term
        return f"(OM.seq {term}\n  {self.block(rest)})"

    # ---- statements
    def block(self, stmts) -> str:
        stmts = strip(stmts)
        if not stmts:
            return self.end()
        st, rest = stmts[0], stmts[1:]
        if isinstance(st, ast.Pass):
            return self.block(rest)
        if isinstance(st, ast.Return):
            if rest:
                raise Untranslatable("code after return")
            if st.value is None or is_none(st.value):
                if self.result != "unit":
                    raise Untranslatable("return without a value")
                return "(OM.pure ())"
            x = self.expr(st.value)
            if self.result != "str" or x[2] != "str":
                raise Untranslatable("return value")
            return f"(OM.pure {x[1]})" if x[0] == "pure" else f"(OM.liftPM {x[1]})"
        if isinstance(st, ast.Continue):
            if rest or not self.in_loop:
                raise Untranslatable("continue")
            return "(OM.pure ())"
        if isinstance(st, ast.Raise):
            if rest:
                raise Untranslatable("code after raise")
            return self.raise_term(st)
        if isinstance(st, ast.If):
            return self.if_(st, rest)
        if isinstance(st, ast.Try):
            return self.try_(st, rest)
        if isinstance(st, (ast.With, ast.AsyncWith)):
            return self.with_(st, rest)
        if isinstance(st, ast.For):
            return self.for_(st, rest)
        if isinstance(st, ast.Expr):
            # xs.append(...) on the list of pending calls is handled by for_
            t = self.effect(st.value)
            if t is None:
                raise Untranslatable(f"statement {ast.unparse(st)[:60]}")
            return self.then(t, rest)
        if isinstance(st, ast.AnnAssign) and st.value is not None and isinstance(st.target, ast.Name):
            return self.assign(st.target, st.value, rest)
        if isinstance(st, ast.Assign) and len(st.targets) == 1:
            return self.assign(st.targets[0], st.value, rest)
        raise Untranslatable(f"statement {ast.unparse(st)[:60]}")

    def assign(self, target, value, rest) -> str:
        # fields of the object
        if is_self_attr(target, "_client"):
            if is_none(value):
                return self.then("LO.clearClient", rest)
            if isinstance(value, ast.Call) and isinstance(value.func, ast.Name) and value.func.id == "AsyncioClient" \
                    and "AsyncioClient" in self.glob:
                return self.then("LO.newClient", rest)
            raise Untranslatable("assignment to self._client")
        if is_self_attr(target, "_incoming_task"):
            if is_none(value):
                return self.then("LO.clearTask", rest)
            if isinstance(value, ast.Call) and isinstance(value.func, ast.Attribute) and value.func.attr == "create_task" \
                    and isinstance(value.func.value, ast.Name) and value.func.value.id == "asyncio" and len(value.args) == 1 \
                    and not value.keywords and isinstance(value.args[0], ast.Call) and is_self_attr(value.args[0].func, "_handle_incoming") \
                    and not value.args[0].args and not value.args[0].keywords:
                return self.then("LO.createTask", rest)
            raise Untranslatable("assignment to self._incoming_task")
        # topic, payload, qos = self._parse_message_to_mqtt(line)
        if isinstance(target, ast.Tuple) and isinstance(value, ast.Call) and is_self_attr(value.func, "_parse_message_to_mqtt") \
                and len(value.args) == 1 and not value.keywords and len(target.elts) == 3 and all(isinstance(e, ast.Name) for e in target.elts) \
                and "out_prefix" in self.attrs:
            a = self.expr(value.args[0])
            if a[0] != "pure" or a[2] != "str":
                raise Untranslatable("argument of _parse_message_to_mqtt")
            names = [e.id for e in target.elts]
            if len(set(names)) != 3:
                raise Untranslatable("repeated name in a tuple assignment")
            for n, ty in zip(names, ["str", "str", "int"]):
                self.env[n] = (n, ty)
            return f"(OM.bind (OM.liftPM (GenMqtt.parse_message_to_mqtt out_prefix {a[1]})) fun ({', '.join(names)}) =>\n  {self.block(rest)})"
        if not isinstance(target, ast.Name):
            raise Untranslatable(f"assignment target {ast.unparse(target)[:40]}")
        name = target.id
        # x = await self._incoming_messages.get()
        if isinstance(value, ast.Await) and isinstance(value.value, ast.Call) and isinstance(value.value.func, ast.Attribute) \
                and value.value.func.attr == "get" and is_self_attr(value.value.func.value, "_incoming_messages") \
                and not value.value.args and not value.value.keywords:
            self.env[name] = (name, "item")
            return f"(OM.bind LO.queueGet fun {name} =>\n  {self.block(rest)})"
        # literal list of str / the empty list that collects the pending calls
        if isinstance(value, ast.List):
            if not value.elts:
                self.env[name] = (None, ("emptylist",))
                return self.block(rest)
            if all(isinstance(e, ast.Constant) and isinstance(e.value, str) for e in value.elts):
                self.env[name] = (None, ("strlits", [e.value for e in value.elts]))
                return self.block(rest)
        x = self.expr(value)
        if x[2] == "tferror":
            raise Untranslatable("alias of the error parameter")
        self.env[name] = (name, x[2])
        if x[0] == "pure":
            return f"(let {name} : {LEAN_TY[x[2]]} := {x[1]};\n  {self.block(rest)})"
        return f"(OM.bind (OM.liftPM {x[1]}) fun {name} =>\n  {self.block(rest)})"

    def if_(self, st: ast.If, rest) -> str:
        body, orelse = strip(st.body), strip(st.orelse)
        # if payload: params["payload"] = payload
        if not orelse and len(body) == 1 and isinstance(body[0], ast.Assign) and len(body[0].targets) == 1 \
                and isinstance(body[0].targets[0], ast.Subscript) and isinstance(body[0].targets[0].value, ast.Name) \
                and self.env.get(body[0].targets[0].value.id, (None, None))[1] == "kw" \
                and isinstance(body[0].targets[0].slice, ast.Constant) and isinstance(body[0].targets[0].slice.value, str):
            c = self.cond(st.test)
            if c[0] != "pure":
                raise Untranslatable("condition that can raise")
            d = body[0].targets[0].value.id
            key = body[0].targets[0].slice.value
            return (f"(let {d} : Kw := if {c[1]} then (LO.kwSet {d} \"{key}\" ({self.kwval(body[0].value)})) else {d};\n"
                    f"  {self.block(rest)})")
        # if x is None: raise ...   (x an optional local)
        t = st.test
        if not orelse and isinstance(t, ast.Compare) and len(t.ops) == 1 and isinstance(t.ops[0], ast.Is) and is_none(t.comparators[0]) \
                and isinstance(t.left, ast.Name) and self.env.get(t.left.id, (None, None))[1] in ("optexn", "optstr") and self.terminates(body):
            name = t.left.id
            lean, ty = self.env[name]
            a = self.block(body)
            self.env[name] = (name, "exn" if ty == "optexn" else "str")
            return f"(OM.ifNone {lean} {a} fun {name} =>\n  {self.block(rest)})"
        # a guard on the object's fields
        sc = self.state_cond(t)
        if sc is not None:
            g = self.fresh("g")
            if not self.terminates(body):
                raise Untranslatable("a guard that does not leave the method")
            a = self.block(body)
            b = self.block(orelse + rest)
            return f"(OM.bind (OM.test fun o => {sc}) fun {g} => if {g} then {a}\n  else {b})"
        # a pure condition
        c = self.cond(t)
        if c[0] != "pure":
            raise Untranslatable("condition that can raise")
        if self.terminates(body):
            saved = dict(self.env)
            a = self.block(body)
            self.env = saved
            b = self.block(orelse + rest)
            return f"(if {c[1]} then {a}\n  else {b})"
        if orelse and self.terminates(orelse):
            saved = dict(self.env)
            b = self.block(orelse)
            self.env = saved
            a = self.block(body + rest)
            return f"(if {c[1]} then {a}\n  else {b})"
        raise Untranslatable("if whose branches both continue")

    def with_(self, st, rest) -> str:
        if isinstance(st, ast.AsyncWith) or len(st.items) != 1 or st.items[0].optional_vars is not None:
            raise Untranslatable("with statement")
        c = st.items[0].context_expr
        if not (isinstance(c, ast.Call) and isinstance(c.func, ast.Attribute) and c.func.attr == "suppress"
                and isinstance(c.func.value, ast.Name) and c.func.value.id == "contextlib" and c.args and not c.keywords):
            raise Untranslatable("with something else than contextlib.suppress")
        cl = "[" + ", ".join("." + self.exc_name(a) for a in c.args) + "]"
        body = self.effects_block(st.body)
        return self.then(f"(OM.suppress {body} {self.named('Suppress', 'List PyExn', cl)})", rest)

    def try_(self, st: ast.Try, rest) -> str:
        if st.finalbody or st.orelse or not st.handlers:
            raise Untranslatable("try shape")
        hs = st.handlers
        body = strip(st.body)
        # try: v = x.decode()  except C: handler…; continue      (inside the receive loop)
        if len(body) == 1 and isinstance(body[0], ast.Assign) and len(body[0].targets) == 1 and isinstance(body[0].targets[0], ast.Name) \
                and isinstance(body[0].value, ast.Call) and isinstance(body[0].value.func, ast.Attribute) and body[0].value.func.attr == "decode" \
                and not body[0].value.args and not body[0].value.keywords:
            src = self.expr(body[0].value.func.value)
            if src[0] != "pure" or src[2] != "bytes" or len(hs) != 1 or hs[0].type is None:
                raise Untranslatable("decode in a try of another shape")
            if not self.terminates(hs[0].body):
                raise Untranslatable("handler that falls through to code using the value")
            handler = self.block(hs[0].body)
            name = body[0].targets[0].id
            self.env[name] = (name, "str")
            cl = self.named("Catch", "List PyExn", self.classes(hs[0].type))
            return f"(OM.tryCatch (LO.decodeBytes {src[1]}) {cl} {handler} fun {name} =>\n  {self.block(rest)})"
        inner = self.effects_block(body)
        # except BaseException: cleanup; raise
        if len(hs) == 1 and (hs[0].type is None or (isinstance(hs[0].type, ast.Name) and hs[0].type.id == "BaseException"
                                                   and "BaseException" not in self.glob)):
            hb = strip(hs[0].body)
            if not hb or not (isinstance(hb[-1], ast.Raise) and hb[-1].exc is None):
                raise Untranslatable("catch-all clause that does not re-raise")
            return self.then(f"(OM.onExcept {inner}\n  {self.effects_block(hb[:-1])})", rest)
        # except C: pass
        if len(hs) == 1 and hs[0].type is not None and all(isinstance(b, ast.Pass) for b in strip(hs[0].body)):
            return self.then(f"(OM.suppress {inner} {self.named('Suppress', 'List PyExn', self.classes(hs[0].type))})", rest)
        # except C₁: raise Lib₁ …
        clauses = []
        for h in hs:
            if h.type is None:
                raise Untranslatable("bare except")
            hb = strip(h.body)
            if len(hb) != 1 or not isinstance(hb[0], ast.Raise) or hb[0].exc is None:
                raise Untranslatable("except clause that does more than raise")
            e = self.exn_of_ctor(hb[0].exc)
            if e.startswith("(.foreign"):
                raise Untranslatable("except clause raising something else than a transport error")
            clauses.append(f"({self.classes(h.type)}, {e})")
        name = self.named("Clauses", "List (List PyExn × MqttExn)", "[" + ", ".join(clauses) + "]")
        return self.then(f"(OM.catchMap {inner} {name})", rest)

    # ---- the loop of `connect`: collects the pending _subscribe calls
    def for_(self, st: ast.For, rest) -> str:
        if st.orelse or not isinstance(st.target, ast.Name):
            raise Untranslatable("for shape")
        if isinstance(st.iter, ast.Name) and isinstance(self.env.get(st.iter.id, (None, None))[1], tuple) \
                and self.env[st.iter.id][1][0] == "strlits":
            lits = self.env[st.iter.id][1][1]
        elif isinstance(st.iter, ast.List) and st.iter.elts and all(isinstance(e, ast.Constant) and isinstance(e.value, str) for e in st.iter.elts):
            lits = [e.value for e in st.iter.elts]
        else:
            raise Untranslatable("for over something else than a literal list of str")
        body = strip(st.body)
        last = body[-1] if body else None
        if not (isinstance(last, ast.Expr) and isinstance(last.value, ast.Call) and isinstance(last.value.func, ast.Attribute)
                and last.value.func.attr == "append" and isinstance(last.value.func.value, ast.Name)
                and self.env.get(last.value.func.value.id, (None, None))[1] == ("emptylist",)
                and len(last.value.args) == 1 and not last.value.keywords):
            raise Untranslatable("loop that does not end by appending to the list of pending calls")
        coll = last.value.func.value.id
        call = last.value.args[0]
        if not (isinstance(call, ast.Call) and is_self_attr(call.func, "_subscribe") and len(call.args) == 2 and not call.keywords):
            raise Untranslatable("pending call of something else than _subscribe(topic, qos)")
        if self.aux and any(a.startswith(f"def {self.lname}Topics") for a in self.aux):
            raise Untranslatable("two loops")
        sub = TrObj(self.fn, self.lname, {}, self.attrs, "unit", self.mod)
        sub.env = {st.target.id: (st.target.id, "str")}
        text = sub.pm_block(body[:-1], call)
        binders = "".join(f" ({a} : {LEAN_TY[t]})" for a, t in self.attrs.items()) + f" ({st.target.id} : Str)"
        self.aux.append(f"def {self.lname}Topics : List Str := [" + ", ".join(lean_str(s) for s in lits) + "]")
        self.aux.append(f"def {self.lname}Args{binders} : LMq.PM (Str × Int) :=\n  {text}")
        self.env[coll] = (coll, ("coros", "client_subscribe"))
        attrs = "".join(" " + a for a in self.attrs)
        return f"(OM.bind (OM.liftPM (PM.mapM ({self.lname}Args{attrs}) {self.lname}Topics)) fun {coll} =>\n  {self.block(rest)})"

    def pm_block(self, stmts, call) -> str:
        """The body of the loop (no effects, may raise) ending with the arguments of the pending call -> LMq.PM (Str × Int)."""
        if not stmts:
            a, b = self.expr(call.args[0]), self.expr(call.args[1])
            if a[2] != "str" or b[2] != "int":
                raise Untranslatable("arguments of the pending _subscribe call")
            r = self.bindpm(a, lambda at: self.bindpm(b, lambda bt: ("pure", f"({at}, {bt})", "pair")))
            return r[1] if r[0] == "pm" else f"(.ok {r[1]})"
        st, rest = stmts[0], stmts[1:]
        if isinstance(st, ast.AnnAssign) and st.value is not None and isinstance(st.target, ast.Name):
            target, value = st.target, st.value
        elif isinstance(st, ast.Assign) and len(st.targets) == 1 and isinstance(st.targets[0], ast.Name):
            target, value = st.targets[0], st.value
        elif isinstance(st, ast.Try):
            # try: v = e  except C: v = d
            b, hs = strip(st.body), st.handlers
            if st.finalbody or st.orelse or len(b) != 1 or len(hs) != 1 or hs[0].type is None or len(strip(hs[0].body)) != 1:
                raise Untranslatable("try shape in the loop")
            s1, s2 = b[0], strip(hs[0].body)[0]
            if not (isinstance(s1, ast.Assign) and isinstance(s2, ast.Assign) and len(s1.targets) == len(s2.targets) == 1
                    and isinstance(s1.targets[0], ast.Name) and isinstance(s2.targets[0], ast.Name) and s1.targets[0].id == s2.targets[0].id):
                raise Untranslatable("try in the loop that is not `v = e except C: v = d`")
            e, d = self.expr(s1.value), self.expr(s2.value)
            if d[0] != "pure" or e[2] != d[2]:
                raise Untranslatable("default of another type / that can raise")
            et = e[1] if e[0] == "pm" else f"(.ok {e[1]})"
            name = s1.targets[0].id
            self.env[name] = (name, e[2])
            return f"(LMq.bind (PM.catchDefault {et} {self.classes(hs[0].type)} {d[1]}) fun {name} =>\n  {self.pm_block(rest, call)})"
        else:
            raise Untranslatable(f"statement in the loop: {ast.unparse(st)[:60]}")
        x = self.expr(value)
        if x[2] not in LEAN_TY:
            raise Untranslatable("value in the loop")
        self.env[target.id] = (target.id, x[2])
        if x[0] == "pure":
            return f"(let {target.id} : {LEAN_TY[x[2]]} := {x[1]};\n  {self.pm_block(rest, call)})"
        return f"(LMq.bind {x[1]} fun {target.id} =>\n  {self.pm_block(rest, call)})"


# --------------------------------------------------------------------------------------------------------------------


def params_of(fn, tys, lname):
    node = fn_ast(fn)
    a = node.args
    if a.vararg or a.kwarg or a.kwonlyargs or a.posonlyargs or a.defaults:
        raise Untranslatable("signature")
    names = [x.arg for x in a.args]
    if not names or names[0] != "self" or len(names) - 1 != len(tys):
        raise Untranslatable("signature changed")
    return node, names[1:]


def check_receive_error_sites(mod):
    """Every call of _receive_error passes a TransportFailedError(...): the model's queue has one kind of error entry."""
    exc_mod = importlib.import_module("aiomysensors.exceptions")
    for cls in (mod.MQTTTransport, mod.MQTTClient):
        for name, f in cls.__dict__.items():
            f = getattr(f, "__func__", f)
            if not inspect.isfunction(f):
                continue
            for node in ast.walk(fn_ast(f)):
                if isinstance(node, ast.Call) and isinstance(node.func, ast.Attribute) and node.func.attr == "_receive_error":
                    ok = len(node.args) == 1 and not node.keywords and isinstance(node.args[0], ast.Call) \
                        and isinstance(node.args[0].func, ast.Name) and f.__globals__.get(node.args[0].func.id) is exc_mod.TransportFailedError
                    if not ok:
                        raise Untranslatable(f"{cls.__name__}.{name} calls _receive_error with something else than a TransportFailedError(...)")


def translate_method(mod, lname, cname, pname, tys, extra, attrs, result):
    cls = getattr(mod, cname)
    fn = cls.__dict__[pname]
    fn = getattr(fn, "__func__", fn)
    if isinstance(cls.__dict__[pname], (staticmethod, classmethod)) or not inspect.iscoroutinefunction(fn) and lname not in ("receive", "receive_error"):
        raise Untranslatable("kind of method changed")
    if inspect.iscoroutinefunction(fn) and lname in ("receive", "receive_error"):
        raise Untranslatable("kind of method changed")
    node, pnames = params_of(fn, tys, lname)
    tr = TrObj(fn, lname, {b: 0 for b, _ in extra}, attrs, result if result != "task" else "unit", mod)
    binders = "".join(f" ({a} : {LEAN_TY[t]})" for a, t in attrs.items())
    for n, ty in zip(pnames, tys):
        tr.env[n] = (n, ty)
        if ty != "tferror":
            binders += f" ({n} : {LEAN_TY[ty]})"
    binders += "".join(f" ({b} : {t})" for b, t in extra)
    if lname == "receive_error":
        check_receive_error_sites(mod)
    if result == "task":
        return translate_incoming(tr, node)
    text = tr.block(node.body)
    rty = {"unit": "OM Unit", "str": "OM Str"}[result]
    return "".join(d + "\n\n" for d in tr.aux) + f"def {lname}{binders} : {rty} :=\n  {text}"


def translate_incoming(tr: TrObj, node) -> str:
    body = strip(node.body)
    # an optional leading guard on the client (not modelled: the task exists only while the client does)
    if body and isinstance(body[0], ast.If) and not body[0].orelse and tr.state_cond(body[0].test) in ("!(LO.hasClient o)",) \
            and len(strip(body[0].body)) == 1 and isinstance(strip(body[0].body)[0], ast.Raise):
        body = body[1:]
    if len(body) != 1 or not isinstance(body[0], ast.Try):
        raise Untranslatable("_handle_incoming is not one try around the receive loop")
    t = body[0]
    tb = strip(t.body)
    if t.finalbody or t.orelse or len(tb) != 1 or not isinstance(tb[0], ast.AsyncFor):
        raise Untranslatable("the try of _handle_incoming does not hold exactly the async for")
    loop = tb[0]
    if loop.orelse or not isinstance(loop.target, ast.Name) or not (isinstance(loop.iter, ast.Attribute) and loop.iter.attr == "messages"
                                                                     and is_self_attr(loop.iter.value, "_client")):
        raise Untranslatable("async for over something else than self._client.messages")
    tr.env[loop.target.id] = (None, "brokermsg")
    tr.in_loop = True
    btext = tr.block(loop.body)
    tr.in_loop = False
    clauses = []
    for i, h in enumerate(t.handlers):
        if h.type is None:
            raise Untranslatable("bare except around the receive loop")
        name = f"{tr.lname}Outer{i}"
        tr.aux.append(f"def {name} : List PyExn := {tr.classes(h.type)}")
        clauses.append(f"({name}, {tr.effects_block(h.body)})")
    return ("".join(d + "\n\n" for d in tr.aux)
            + f"def {tr.lname}Body (topic : Str) (payload : List Nat) : OM Unit :=\n  {btext}\n\n"
            + f"def {tr.lname} : LO.Incoming :=\n  {{ body := {tr.lname}Body, clauses := [" + ", ".join(clauses) + "] }")


def translate(repo: str) -> dict:
    sys.path.insert(0, os.path.join(repo, "src"))
    mod = importlib.import_module("aiomysensors.transport.mqtt")
    out = {}
    for lname, cname, pname, tys, extra, attrs, result in METHODS:
        try:
            out[lname] = {"lean": translate_method(mod, lname, cname, pname, tys, extra, attrs, result)}
        except (Untranslatable, KeyError, TypeError, OSError, AttributeError, IndexError, ValueError) as err:
            out[lname] = {"error": f"{type(err).__name__}: {err}"[:300]}
    return out


HEADER = """/-
GENERATED by tools/translate_mqttclient.py from `MQTTTransport` / `MQTTClient` (transport/mqtt.py) of the aiomysensors
working tree — do not edit.  Regenerated on every check run of C18; rewritten only when its content changes.  A
definition marked `-- snapshot` could not be translated on this run and is the last committed translation.
-/
import AioMySensors.Model.LitMqttObject
import AioMySensors.Generated.MqttBodies

set_option linter.unusedVariables false

namespace AioMySensors.GenMqttObj
open AioMySensors AioMySensors.Mqtt

"""
FOOTER = "\n\nend AioMySensors.GenMqttObj\n"


def main() -> int:
    ap = argparse.ArgumentParser()
    ap.add_argument("--repo", default="/repo")
    ap.add_argument("--out", required=True)
    ap.add_argument("--snapshot", required=True)
    ap.add_argument("--force-snapshot", action="store_true")
    ap.add_argument("--update-snapshot", action="store_true")
    a = ap.parse_args()
    try:
        res = {} if a.force_snapshot else translate(a.repo)
    except Exception as err:  # noqa: BLE001
        print(f"TRANSLATE-MQTTCLIENT-FAILED {type(err).__name__}: {err}")
        res = {}
    try:
        with open(a.snapshot, encoding="utf-8") as f:
            snap = json.load(f)
    except (OSError, ValueError):
        snap = {}
    chunks, status = [], {}
    for name in ORDER:
        r = res.get(name, {"error": "snapshot forced" if a.force_snapshot else "not attempted"})
        if "lean" in r:
            chunks.append(r["lean"])
            status[name] = "translated" if snap.get(name) == r["lean"] else "translated-changed"
        elif name in snap:
            chunks.append("-- snapshot (untranslatable on this run: " + r["error"].replace("\n", " ") + ")\n" + snap[name])
            status[name] = "untranslatable: " + r["error"]
        else:
            print(f"TRANSLATE-FAILED {name}: {r['error']} (and no snapshot)")
            return 1
    text = HEADER + "\n\n".join(chunks) + FOOTER
    try:
        with open(a.out, encoding="utf-8") as f:
            old = f.read()
    except OSError:
        old = None
    if old != text:
        with open(a.out, "w", encoding="utf-8") as f:
            f.write(text)
    if a.update_snapshot:
        snap.update({n: res[n]["lean"] for n in ORDER if "lean" in res.get(n, {})})
        with open(a.snapshot, "w", encoding="utf-8") as f:
            json.dump(snap, f, indent=1, sort_keys=True)
    bad = [n for n, s in status.items() if s.startswith("untranslatable")]
    changed = [n for n, s in status.items() if s == "translated-changed"]
    for n in bad:
        print(f"  {n}: {status[n]}")
    print(f"TRANSLATE-OK bodies={len(status)} untranslatable={len(bad)} changed={len(changed)}"
          + (" [" + ", ".join(bad + changed) + "]" if bad or changed else ""))
    return 0


if __name__ == "__main__":
    sys.exit(main())
