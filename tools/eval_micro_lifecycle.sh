#!/bin/sh
# tools/eval_micro_lifecycle.sh — the lifecycle tie (tools/translate_lifecycle.py, Lemmas/LifecycleBodiesEq.lean) against
#  * the behaviour-preserving rewrites seeded/micro-refactors/m5*_lifecycle_*.diff and m11 (expected: equalities hold),
#  * the behaviour-changing edits notes/EXT_lifecycle_edits/x*.diff (expected: an equality breaks) and u*.diff
#    (expected: the function leaves the subset, its snapshot is written, equalities hold).
# Each diff is applied to a scratch copy of /repo; tables and skeletons are regenerated, the equality module rebuilt.
cd "$(dirname "$0")/.." || exit 2
C=/root/work/micro_repo_lifecycle
rm -rf "$C"; mkdir -p "$C"; (cd /repo && git archive HEAD) | tar -x -C "$C"
(cd "$C" && git init -q && git add -A >/dev/null 2>&1 && git -c user.email=x@x -c user.name=x commit -qm base >/dev/null)
for d in seeded/micro-refactors/m11_*.diff seeded/micro-refactors/m5*_lifecycle_*.diff notes/EXT_lifecycle_edits/*.diff; do
  git -C "$C" checkout -q -- .; git -C "$C" apply "$(pwd)/$d" || { echo "$d: does not apply"; continue; }
  /venv/bin/python tools/extract.py --repo "$C" --out lean/AioMySensors/Generated/Tables.lean --json "${TMPDIR:-/tmp}/eval_micro_json.$$" >/dev/null 2>&1
  t=$(/venv/bin/python tools/translate_lifecycle.py --repo "$C" --out lean/AioMySensors/Generated/LifecycleBodies.lean --snapshot tools/snap_lifecycle.json | tail -1 | cut -c1-140)
  if (cd lean && lake build AioMySensors.Lemmas.LifecycleBodiesEq >/tmp/micro_lc.log 2>&1); then r="equalities hold"; else r="EQUALITY BROKEN: $(grep -m2 'error:' /tmp/micro_lc.log | tr '\n' ' ' | cut -c1-160)"; fi
  echo "$(basename "$d" .diff): $t -> $r"
done
rm -rf "$C" /tmp/micro_lc.log
/venv/bin/python tools/extract.py --repo /repo --out lean/AioMySensors/Generated/Tables.lean --json tools/tables.json | tail -1
/venv/bin/python tools/translate_lifecycle.py --repo /repo --out lean/AioMySensors/Generated/LifecycleBodies.lean --snapshot tools/snap_lifecycle.json | tail -1
(cd lean && lake build AioMySensors.Lemmas.LifecycleBodiesEq 2>&1 | tail -1)
