#!/bin/sh
# tools/eval_micro_one.sh [-t] [-f] <diff>... — like tools/eval_micro.sh, for the named rewrites only
# (paths or ids such as `m70`; no argument: every m7x+ diff).  Per rewrite one line:
#   <id>: [tests] <translate status> | <further ties> -> equalities hold | EQUALITY BROKEN: ...
#   -t  also run the library's test suite on the rewritten copy (expects 273 passed)
#   -f  also build the whole library (`lake build AioMySensors`: every property theorem that reads the regenerated
#       tables / bodies), not only the equality modules
# The scratch copy lives in $MICRO_REPO (default /root/work/scratch_micro/micro_repo).  At the end everything is
# regenerated from /repo again.
cd "$(dirname "$0")/.." || exit 2
# a scratch sink: extract.py REPLACES its --json target by rename, so it must never be given /dev/null
SINK=$(mktemp /tmp/micro_sink.XXXXXX)
C=${MICRO_REPO:-/root/work/scratch_micro/micro_repo}
TESTS=0; FULL=0
while [ $# -gt 0 ]; do case "$1" in -t) TESTS=1; shift;; -f) FULL=1; shift;; *) break;; esac; done
OUTS="--out lean/AioMySensors/Generated/Bodies.lean --stream-out lean/AioMySensors/Generated/StreamBodies.lean --codec-out lean/AioMySensors/Generated/CodecBodies.lean --mqtt-out lean/AioMySensors/Generated/MqttBodies.lean --persist-out lean/AioMySensors/Generated/PersistBodies.lean"
MODS="AioMySensors.Lemmas.BodiesEq AioMySensors.Lemmas.StreamBodiesEq AioMySensors.Lemmas.CodecBodiesEq AioMySensors.Lemmas.MqttBodiesEq AioMySensors.Lemmas.PersistBodiesEq"
GMODS="AioMySensors.Generated.Bodies AioMySensors.Generated.StreamBodies AioMySensors.Generated.CodecBodies AioMySensors.Generated.MqttBodies AioMySensors.Generated.PersistBodies"
XMODS=$(python3 -c "import json;print(' '.join(t['eq_mod'] for t in json.load(open('tools/ties.json'))))")
[ $FULL = 1 ] && MODS="$MODS AioMySensors"
xtranslate() { python3 -c "
import json,subprocess,sys
for t in json.load(open('tools/ties.json')):
    r=subprocess.run(['/venv/bin/python',t['script'],'--repo',sys.argv[1],'--out',t['out'],'--snapshot',t['snapshot']],capture_output=True,text=True)
    print(t['name']+': '+(r.stdout.strip().split('\\n')[-1] if r.stdout.strip() else 'exit %d'%r.returncode)[:110])
" "$1" | tr '\n' ' '; }
LOG=$(mktemp /tmp/micro_one.XXXXXX)
rm -rf "$C"; mkdir -p "$C"; (cd /repo && git archive HEAD) | tar -x -C "$C"
(cd "$C" && git init -q && git add -A >"$SINK.out" 2>&1 && git -c user.email=x@x -c user.name=x commit -qm base >"$SINK.out")
if [ $# -eq 0 ]; then set -- $(ls seeded/micro-refactors/m[7-9][0-9]*.diff seeded/micro-refactors/m[1-9][0-9][0-9]*.diff 2>"$SINK.out"); fi
for a in "$@"; do
  d=$a; [ -f "$d" ] || d=$(ls seeded/micro-refactors/${a}_*.diff 2>"$SINK.out" | head -1)
  [ -f "$d" ] || { echo "$a: no such rewrite"; continue; }
  git -C "$C" checkout -q -- .; git -C "$C" apply "$(pwd)/$d" || { echo "$d: does not apply"; continue; }
  tt=""
  if [ $TESTS = 1 ]; then tt="[$(cd "$C" && PYTHONDONTWRITEBYTECODE=1 PYTHONPATH="$C/src" /venv/bin/python -m pytest -q -p no:cacheprovider --no-cov 2>&1 | tail -1 | cut -c1-40)] "; fi
  /venv/bin/python tools/extract.py --repo "$C" --out lean/AioMySensors/Generated/Tables.lean --json "$SINK" >"$SINK.out" 2>&1
  t=$(/venv/bin/python tools/translate.py --repo "$C" $OUTS --snapshot tools/bodies_snapshot.json --json "$SINK" | cut -c1-200)
  x=$(xtranslate "$C")
  # as harness/check.py does: a fresh translation that does not type-check is replaced by the committed snapshot
  g=""
  if ! (cd lean && lake build $GMODS >"$LOG" 2>&1); then
    g="[GENERATED TEXT DOES NOT TYPE-CHECK -> snapshot: $(grep -m1 'error:' "$LOG" | cut -c1-160)] "
    /venv/bin/python tools/translate.py --repo "$C" $OUTS --snapshot tools/bodies_snapshot.json --json "$SINK" --force-snapshot >"$SINK.out"
  fi
  if (cd lean && lake build $MODS $XMODS >"$LOG" 2>&1); then r="${g}equalities hold"; else r="${g}EQUALITY BROKEN: $(grep -m3 'error:' "$LOG" | tr '\n' ' ' | cut -c1-300)"; mkdir -p "${MICRO_LOGS:-/tmp}"; cp "$LOG" "${MICRO_LOGS:-/tmp}/$(basename "$d" .diff).log"; fi
  echo "$(basename "$d" .diff): $tt$t | $x-> $r"
done
rm -rf "$C" "$LOG" "$SINK" "$SINK.out"
/venv/bin/python tools/extract.py --repo /repo --out lean/AioMySensors/Generated/Tables.lean --json tools/tables.json | tail -1
/venv/bin/python tools/translate.py --repo /repo $OUTS --snapshot tools/bodies_snapshot.json --json tools/bodies_status.json | cut -c1-60
xtranslate /repo; echo
(cd lean && lake build $MODS $XMODS 2>&1 | tail -1)
