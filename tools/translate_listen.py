#!/venv/bin/python
"""Translator of the top of the receive path and of the send path.

`Gateway.listen` (one iteration of its `while True`), `Gateway.send` (gateway.py) and the two handler lookups
`get_incoming_message_handler` / `get_outgoing_message_handler` (model/protocol/__init__.py) are compiled from their
AST into `lean/AioMySensors/Generated/GatewayBodies.lean` over the vocabulary `Model/LitGateway.lean` (namespace `LG`),
together with the two attribute tables the `getattr` of the lookups reads (which `handle_<command name>` attributes the
handler classes of each protocol have, resolved like tools/extract.py resolves them) and the default of `send`'s
`message_buffer` parameter.  `Lemmas/GatewayBodiesEq.lean` proves the generated `listenStep` equal to
`GenBodies.recvGen` (hence `recv`) and the generated `send` equal to `GenBodies.apiSendGen` (hence `apiSend`).

A construct outside the subset makes that *function* untranslatable: its definition is taken from the snapshot
(tools/snap_listen.json) and the correspondence run alone ties it.  Not an alarm.

Ignored on purpose: docstrings, logging statements, annotations, exception messages / arguments and `from` causes.

Usage: translate_listen.py --repo /repo --out lean/AioMySensors/Generated/GatewayBodies.lean --snapshot tools/snap_listen.json
       [--force-snapshot] [--update-snapshot]
"""
from __future__ import annotations

import argparse
import ast
import builtins
import importlib
import json
import os
import sys

sys.path.insert(0, os.path.dirname(os.path.abspath(__file__)))
import translate as T  # noqa: E402
from translate import LIB_ERR_CTOR, MSG_FIELDS, PYEXN, Untranslatable, fn_ast, strip  # noqa: E402


def lean_string(s: str) -> str:
    return json.dumps(s, ensure_ascii=True)


class TrGw:
    """Compiler state for one function.  `monad`: 'E' (a lookup: `Except PyExn`) or 'M' (a gateway method)."""

    def __init__(self, fn, monad: str, env: dict, ctx: dict):
        self.fn = fn
        self.globals = fn.__globals__
        self.monad = monad
        self.env = dict(env)          # python local -> (lean text, type)
        self.ctx = ctx                # the live functions a call may refer to
        self.n = 0

    def fresh(self) -> str:
        self.n += 1
        return f"x{self.n}"

    # ---- monad plumbing ----------------------------------------------------------------------
    def bind(self, term: str, kind: str, var: str, body: str) -> str:
        if self.monad == "E":
            if kind != "E":
                raise Untranslatable("an effect inside a lookup function")
            return f"(LG.bindE {term} fun {var} =>\n  {body})"
        if kind == "E":
            term = f"(Lit.liftPy {term})"
        return f"(bind {term} fun {var} =>\n  {body})"

    def wrap(self, pre, body: str) -> str:
        for var, term, kind in reversed(pre):
            body = self.bind(term, kind, var, body)
        return body

    def pure(self, t: str) -> str:
        return f"(.ok {t})" if self.monad == "E" else f"(pure {t})"

    def term_of(self, pre, text: str) -> str:
        """The monadic term that runs `pre` and returns `text` (without a trailing `bind x fun y => pure y`)."""
        if pre and pre[-1][0] == text:
            var, term, kind = pre[-1]
            if self.monad == "M" and kind == "E":
                term = f"(Lit.liftPy {term})"
            elif self.monad == "E" and kind != "E":
                raise Untranslatable("an effect inside a lookup function")
            return self.wrap(pre[:-1], term)
        return self.wrap(pre, self.pure(text))

    # ---- expressions -------------------------------------------------------------------------
    def expr(self, node):
        """-> (pre, text, type); pre = [(var, term, 'E' | 'M')] to bind before, in evaluation order."""
        if isinstance(node, ast.Constant):
            v = node.value
            if isinstance(v, bool):
                return [], "true" if v else "false", "bool"
            if v is None:
                return [], "false", "none"
            if isinstance(v, int):
                return [], T.lean_int(v), "int"
            if isinstance(v, str):
                return [], lean_string(v), "pystr"
            raise Untranslatable(f"constant {v!r}")
        if isinstance(node, ast.Name):
            if node.id in self.env:
                t, ty = self.env[node.id]
                return [], t, ty
            raise Untranslatable(f"name {node.id}")
        if isinstance(node, ast.Attribute):
            return self.attribute(node)
        if isinstance(node, ast.Call):
            return self.call(node, awaited=False)
        if isinstance(node, ast.Await):
            if not isinstance(node.value, ast.Call):
                raise Untranslatable("await of a non-call")
            return self.call(node.value, awaited=True)
        if isinstance(node, ast.JoinedStr):
            pre, parts = [], []
            for v in node.values:
                if isinstance(v, ast.Constant) and isinstance(v.value, str):
                    parts.append(lean_string(v.value))
                elif isinstance(v, ast.FormattedValue) and v.conversion == -1 and v.format_spec is None:
                    p, t, ty = self.expr(v.value)
                    if ty != "pystr":
                        raise Untranslatable(f"f-string field of type {ty}")
                    pre += p
                    parts.append(t)
                else:
                    raise Untranslatable("f-string with a conversion or format")
            if not parts:
                return [], '""', "pystr"
            return pre, "(" + " ++ ".join(parts) + ")", "pystr"
        if isinstance(node, ast.UnaryOp) and isinstance(node.op, ast.Not):
            pre, t = self.truth(node.operand)
            return pre, f"(!{t})", "bool"
        if isinstance(node, ast.IfExp):
            pt, c = self.truth(node.test)
            pa, a, ta = self.expr(node.body)
            pb, b, tb = self.expr(node.orelse)
            if pa or pb:
                raise Untranslatable("conditional expression with effects")
            ty = self.unify(ta, tb)
            return pt, f"(if {c} then {a} else {b})", ty
        if isinstance(node, ast.Compare) and len(node.ops) == 1:
            op, right = node.ops[0], node.comparators[0]
            pl, l, lt = self.expr(node.left)
            pr, r, rt = self.expr(right)
            if isinstance(op, (ast.Is, ast.IsNot)) and rt == "none" and lt in ("bufopt", "bufobj", "none"):
                return pl + pr, (l if isinstance(op, ast.IsNot) else f"(!{l})"), "bool"
            if isinstance(op, (ast.Eq, ast.NotEq)) and lt == rt and lt in ("int", "bool"):
                return pl + pr, f"({l} {'==' if isinstance(op, ast.Eq) else '!='} {r})", "bool"
            raise Untranslatable(f"comparison of {lt} and {rt}")
        if isinstance(node, ast.BoolOp):
            parts = [self.truth(v) for v in node.values]
            if any(p[0] for p in parts[1:]):
                raise Untranslatable("effect after a short-circuit operator")
            sym = " && " if isinstance(node.op, ast.And) else " || "
            return parts[0][0], "(" + sym.join(p[1] for p in parts) + ")", "bool"
        raise Untranslatable(f"expression {type(node).__name__}")

    def unify(self, ta, tb):
        if ta == tb:
            return ta
        if {ta, tb} <= {"bufobj", "none", "bufopt"}:
            return "bufopt"           # the buffer object, or None: a Bool (is it there?)
        raise Untranslatable(f"conditional of {ta} and {tb}")

    def truth(self, node):
        pre, t, ty = self.expr(node)
        if ty in ("bool", "bufopt", "bufobj", "none"):
            return pre, t
        if ty == "int":
            return pre, f"({t} != 0)"
        raise Untranslatable(f"truthiness of {ty}")

    def is_self(self, node, attr=None) -> bool:
        if attr is None:
            return isinstance(node, ast.Name) and self.env.get(node.id, ("", ""))[1] == "gateway"
        return isinstance(node, ast.Attribute) and node.attr == attr and self.is_self(node.value)

    def attribute(self, node: ast.Attribute):
        if self.is_self(node.value):
            if node.attr in ("protocol", "_protocol"):
                if self.monad != "M":
                    raise Untranslatable("self.protocol inside a lookup")
                v = self.fresh()
                return [(v, "LG.activeProtocol", "M")], v, "ver"
            if node.attr == "_message_buffer":
                return [], "true", "bufobj"
            if node.attr == "_message_schema":
                return [], "<schema>", "schema"
            if node.attr == "transport":
                return [], "<transport>", "transport"
            raise Untranslatable(f"self.{node.attr}")
        pre, t, ty = self.expr(node.value)
        if ty == "ver":
            if node.attr == "Command":
                return pre, f"(Gen.commandNames {t})", ("enumcls", "Command")
            if node.attr == "IncomingMessageHandler":
                return pre, f"(LG.inClass {t} (incomingAttrs {t}))", "inclass"
            if node.attr == "OutgoingMessageHandler":
                return pre, f"(outgoingAttrs {t})", "outclass"
        if ty == "msg" and node.attr in MSG_FIELDS:
            f, fty = MSG_FIELDS[node.attr]
            return pre, f"{t}.{f}", ("linestr" if fty == "str" else fty)
        if ty == "obj" and node.attr in MSG_FIELDS:
            f, fty = MSG_FIELDS[node.attr]
            v = self.fresh()
            return pre + [(v, f"(LG.attrOf {t} fun m => m.{f})", "E")], v, ("linestr" if fty == "str" else fty)
        if isinstance(ty, tuple) and ty[0] == "member":
            if node.attr == "name":
                return pre, f"{t}.name", "pystr"
            if node.attr == "value":
                return pre, f"{t}.value", "int"
        raise Untranslatable(f"attribute .{node.attr} of {ty}")

    def args_of(self, call: ast.Call, n: int):
        if call.keywords or len(call.args) != n or any(isinstance(a, ast.Starred) for a in call.args):
            raise Untranslatable(f"call {ast.unparse(call)[:60]}: expected {n} positional arguments")
        return call.args

    def call(self, node: ast.Call, awaited: bool):
        f = node.func
        # getattr(C, name)
        if isinstance(f, ast.Name) and f.id == "getattr" and "getattr" not in self.env and "getattr" not in self.globals:
            a0, a1 = self.args_of(node, 2)
            p0, c, cty = self.expr(a0)
            p1, s, sty = self.expr(a1)
            if cty not in ("inclass", "outclass") or sty != "pystr" or awaited:
                raise Untranslatable(f"getattr({cty}, {sty})")
            v = self.fresh()
            return p0 + p1 + [(v, f"(LG.getattr2 {c} {s})", "E")], v, ("inhandler" if cty == "inclass" else "outhandler")
        # the two lookups, called from the gateway
        if isinstance(f, ast.Name) and f.id in ("get_incoming_message_handler", "get_outgoing_message_handler") \
                and f.id not in self.env and self.globals.get(f.id) is self.ctx.get(f.id) and not awaited:
            a0, a1 = self.args_of(node, 2)
            p0, p, pty = self.expr(a0)
            p1, m, mty = self.expr(a1)
            want = "msg" if f.id == "get_incoming_message_handler" else "obj"
            if pty != "ver" or mty != want:
                raise Untranslatable(f"{f.id}({pty}, {mty})")
            v = self.fresh()
            return p0 + p1 + [(v, f"({f.id} {p} {m})", "E")], v, ("inhandler" if want == "msg" else "outhandler")
        if isinstance(f, ast.Attribute):
            # self._message_schema.load(line) / .dump(obj)
            if f.attr in ("load", "dump") and not awaited:
                ps, _, sty = self.expr(f.value)
                if sty == "schema":
                    (a0,) = self.args_of(node, 1)
                    p0, t, ty = self.expr(a0)
                    if self.monad != "M":
                        raise Untranslatable("schema call inside a lookup")
                    v = self.fresh()
                    if f.attr == "load" and ty == "linestr":
                        return ps + p0 + [(v, f"(LG.schemaLoad {t})", "M")], v, "msg"
                    if f.attr == "dump" and ty == "obj":
                        return ps + p0 + [(v, f"(LG.schemaDump {t})", "M")], v, "linestr"
                    raise Untranslatable(f"schema.{f.attr}({ty})")
        # protocol.Command(x)
        pf, c, cty = self.expr(f)
        if isinstance(cty, tuple) and cty[0] == "enumcls" and not awaited:
            (a0,) = self.args_of(node, 1)
            p0, t, ty = self.expr(a0)
            if ty != "int":
                raise Untranslatable(f"{cty[1]}({ty})")
            v = self.fresh()
            return pf + p0 + [(v, f"(LG.enumCall {c} {t})", "E")], v, ("member", cty[1])
        # await message_handler(self, message, self._message_buffer)
        if cty == "inhandler" and awaited:
            a0, a1, a2 = self.args_of(node, 3)
            if not self.is_self(a0):
                raise Untranslatable("incoming handler called with another gateway")
            p1, m, mty = self.expr(a1)
            p2, b, bty = self.expr(a2)
            if mty != "msg" or bty != "bufobj" or self.monad != "M":
                raise Untranslatable(f"incoming handler called with ({mty}, {bty})")
            v = self.fresh()
            return pf + p1 + p2 + [(v, f"(LG.callIncoming env {c} {m})", "M")], v, "msg"
        # await message_handler(self, message, buffer_or_None, decoded_message)
        if cty == "outhandler" and awaited:
            a0, a1, a2, a3 = self.args_of(node, 4)
            if not self.is_self(a0):
                raise Untranslatable("outgoing handler called with another gateway")
            p1, m, mty = self.expr(a1)
            p2, b, bty = self.expr(a2)
            p3, s, sty = self.expr(a3)
            if mty != "obj" or bty not in ("bufopt", "bufobj", "none") or sty != "linestr" or self.monad != "M":
                raise Untranslatable(f"outgoing handler called with ({mty}, {bty}, {sty})")
            v = self.fresh()
            return pf + p1 + p2 + p3 + [(v, f"(LG.callOutgoing {c} {m} {b} {s})", "M")], v, "unit"
        raise Untranslatable(f"call {ast.unparse(node)[:60]}")

    # ---- statements --------------------------------------------------------------------------
    def block(self, stmts, kind: str) -> str:
        """Compile a statement list to its end.  kind: 'step' (the loop body of `listen`: ends by yielding once),
        'unit' (`send`: falls off its end or returns), 'value' (a lookup: ends in `return <expr>`)."""
        stmts = strip(stmts)
        if not stmts:
            if kind == "unit":
                return self.pure("()")
            raise Untranslatable("the block ends without " + ("yielding" if kind == "step" else "returning a value"))
        s, rest = stmts[0], stmts[1:]
        # yield X  (last action of the iteration; `yield X; continue` inside a branch)
        if isinstance(s, ast.Expr) and isinstance(s.value, ast.Yield):
            if kind != "step":
                raise Untranslatable("yield outside the listen loop")
            if strip(rest) and not isinstance(strip(rest)[0], ast.Continue):
                raise Untranslatable("code after the yield of an iteration")   # (what follows a `continue` never runs)
            if s.value.value is None:
                raise Untranslatable("bare yield")
            pre, t, ty = self.expr(s.value.value)
            if ty != "msg":
                raise Untranslatable(f"yield of {ty}")
            return self.term_of(pre, t)
        if isinstance(s, ast.Return):
            if rest:
                raise Untranslatable("code after return")
            if kind == "unit" and s.value is None:
                return self.pure("()")
            if kind == "value" and s.value is not None:
                pre, t, ty = self.expr(s.value)
                if ty != self.ret_type:
                    raise Untranslatable(f"return of {ty}")
                return self.term_of(pre, t)
            raise Untranslatable("return")
        if isinstance(s, ast.Raise):
            if rest:
                raise Untranslatable("code after raise")
            return self.raise_(s)
        if isinstance(s, ast.If):
            pre, c = self.truth(s.test)
            saved = dict(self.env)
            a = self.block(list(s.body) + list(rest), kind)
            self.env = dict(saved)
            b = self.block(list(s.orelse) + list(rest), kind)
            self.env = saved
            return self.wrap(pre, f"(if {c} then {a}\n  else {b})")
        if isinstance(s, ast.Try):
            return self.try_(s, rest, kind)
        if isinstance(s, ast.Expr):
            pre, t, ty = self.expr(s.value)
            if ty != "unit":
                raise Untranslatable(f"expression statement of type {ty}")
            if not strip(rest) and kind == "unit":
                return self.term_of(pre, t)
            return self.wrap(pre, self.block(rest, kind))
        if isinstance(s, (ast.Assign, ast.AnnAssign)):
            target = s.targets[0] if isinstance(s, ast.Assign) and len(s.targets) == 1 else getattr(s, "target", None)
            if not isinstance(target, ast.Name) or s.value is None:
                raise Untranslatable(f"assignment {ast.unparse(s)[:50]}")
            pre, t, ty = self.expr(s.value)
            if ty in ("unit", "schema", "transport", "gateway"):
                raise Untranslatable(f"local bound to {ty}")
            self.env[target.id] = (t, ty)
            return self.wrap(pre, self.block(rest, kind))
        raise Untranslatable(f"statement {type(s).__name__}")

    def raise_(self, s: ast.Raise) -> str:
        e = s.exc
        name = e.func.id if isinstance(e, ast.Call) and isinstance(e.func, ast.Name) else (e.id if isinstance(e, ast.Name) else None)
        if name not in LIB_ERR_CTOR or self.globals.get(name) is None or self.monad != "M":
            raise Untranslatable(f"raise {ast.unparse(e)[:40] if e is not None else ''}")
        return f"(raise (.lib {LIB_ERR_CTOR[name]}))"

    def try_(self, s: ast.Try, rest, kind: str) -> str:
        """try: x = <effectful expr>  except (classes) [as err]: raise LibError(...) [from err]  (any number of clauses)"""
        body = strip(s.body)
        if s.finalbody or s.orelse or not s.handlers or len(body) != 1 or self.monad != "M":
            raise Untranslatable("try statement of an unknown shape")
        st = body[0]
        if not isinstance(st, (ast.Assign, ast.AnnAssign)):
            raise Untranslatable("try around something else than one assignment")
        target = st.targets[0] if isinstance(st, ast.Assign) and len(st.targets) == 1 else getattr(st, "target", None)
        if not isinstance(target, ast.Name) or st.value is None:
            raise Untranslatable("try around something else than one assignment to a local")
        pre, t, ty = self.expr(st.value)
        if ty in ("unit", "schema", "transport", "gateway"):
            raise Untranslatable(f"local bound to {ty}")
        term = self.term_of(pre, t)
        for h in s.handlers:
            if h.type is None:
                raise Untranslatable("bare except")
            elts = h.type.elts if isinstance(h.type, ast.Tuple) else [h.type]
            classes = []
            for e in elts:
                cls = self.globals.get(e.id, getattr(builtins, e.id, None)) if isinstance(e, ast.Name) else None
                if cls is None or e.id not in PYEXN or getattr(cls, "__name__", None) != e.id:
                    raise Untranslatable(f"except class {ast.unparse(e)[:30]} outside the model's vocabulary")
                classes.append("." + e.id)
            hb = strip(h.body)
            if not (len(hb) == 1 and isinstance(hb[0], ast.Raise) and hb[0].exc is not None):
                raise Untranslatable("except clause that does more than raise a library error")
            e = hb[0].exc
            ename = e.func.id if isinstance(e, ast.Call) and isinstance(e.func, ast.Name) else (e.id if isinstance(e, ast.Name) else None)
            if ename not in LIB_ERR_CTOR or self.globals.get(ename) is None:
                raise Untranslatable(f"except clause raises {ename}")
            term = f"(Lit.catchTo {term} [{', '.join(classes)}] {LIB_ERR_CTOR[ename]})"
        v = self.fresh()
        self.env[target.id] = (v, ty)
        return f"(bind {term} fun {v} =>\n  {self.block(rest, kind)})"


# ------------------------------------------------------------------------------------------------

def positional(node, n: int):
    a = node.args
    if a.vararg or a.kwarg or a.posonlyargs or len(a.args) != n:
        raise Untranslatable(f"signature of {node.name} changed")
    return [x.arg for x in a.args]


def walk_has(stmts, kinds) -> bool:
    return any(isinstance(x, kinds) for s in stmts for x in ast.walk(s))


def translate(repo: str):
    sys.path.insert(0, os.path.join(repo, "src"))
    sys.path.insert(0, os.path.join(os.path.dirname(os.path.abspath(__file__))))
    import extract as X  # noqa: PLC0415  (resolve_chain: decorators and `super()` delegations of a handler attribute)
    gw = importlib.import_module("aiomysensors.gateway")
    proto = importlib.import_module("aiomysensors.model.protocol")
    mods = {v: importlib.import_module(f"aiomysensors.model.protocol.{m}") for _, v, m in X.VERS}
    for k, v, _ in X.VERS:
        if proto.PROTOCOL_VERSIONS.get(k) is not mods[v]:
            raise Untranslatable(f"PROTOCOL_VERSIONS[{k}]")
    out = {}
    ctx = {"get_incoming_message_handler": getattr(proto, "get_incoming_message_handler", None),
           "get_outgoing_message_handler": getattr(proto, "get_outgoing_message_handler", None)}

    def attempt(name, thunk):
        try:
            out[name] = {"lean": thunk()}
        except (Untranslatable, X.ExtractError, KeyError, TypeError, OSError, AttributeError, IndexError, ValueError) as err:
            out[name] = {"error": f"{type(err).__name__}: {err}"[:300]}

    # ---- the attribute tables `getattr(handlers, f"handle_{command.name}")` reads
    def attrs_table(which: str):
        arms = []
        for _, v, _ in X.VERS:
            mod = mods[v]
            cls = mod.IncomingMessageHandler if which == "in" else mod.OutgoingMessageHandler
            rows = []
            for member in mod.Command:          # canonical members: what `Command(x).name` can be
                attr = f"handle_{member.name}"
                ch = X.resolve_chain(cls, attr, X.BODIES if which == "in" else X.OUT_BODIES, {})
                if ch is None:
                    continue                    # no such attribute: getattr raises AttributeError
                if which == "in":
                    rows.append(f"({lean_string(attr)}, {X.lean_chain(ch)[5:]})")
                else:
                    if ch[0]:
                        raise Untranslatable(f"wrapped outgoing handler {attr}")
                    rows.append(f"({lean_string(attr)}, .{ch[1]})")
            arms.append(f"  | .{v} => [{', '.join(rows)}]")
        ty = "Chain" if which == "in" else "OutBody"
        nm = "incomingAttrs" if which == "in" else "outgoingAttrs"
        cl = "IncomingMessageHandler" if which == "in" else "OutgoingMessageHandler"
        return (f"/-- The `handle_<command name>` attributes of `protocol.{cl}`, resolved (decorators, `super()` chains). -/\n"
                f"def {nm} : Ver → List (String × {ty})\n" + "\n".join(arms))

    attempt("incomingAttrs", lambda: attrs_table("in"))
    attempt("outgoingAttrs", lambda: attrs_table("out"))

    # ---- the two lookups
    def lookup(name: str, mty: str, ret: str, lean_ret: str):
        fn = ctx[name]
        node = fn_ast(fn)
        if isinstance(node, ast.AsyncFunctionDef) or node.args.kwonlyargs or node.args.defaults:
            raise Untranslatable(f"signature of {name} changed")
        p, m = positional(node, 2)
        tr = TrGw(fn, "E", {p: ("protocol", "ver"), m: ("message", mty)}, ctx)
        tr.ret_type = ret
        body = tr.block(node.body, "value")
        lean_m = "Msg" if mty == "msg" else "Option Msg"
        return f"def {name} (protocol : Ver) (message : {lean_m}) : Except PyExn {lean_ret} :=\n  {body}"

    attempt("get_incoming_message_handler", lambda: lookup("get_incoming_message_handler", "msg", "inhandler", "LG.InHandler"))
    attempt("get_outgoing_message_handler", lambda: lookup("get_outgoing_message_handler", "obj", "outhandler", "OutBody"))

    # ---- Gateway.protocol: `self.protocol` is read as the active protocol
    def check_protocol_property():
        prop = gw.Gateway.__dict__.get("protocol")
        if not isinstance(prop, property) or prop.fget is None:
            raise Untranslatable("Gateway.protocol is not a property")
        st = strip(fn_ast(prop.fget).body)
        if [ast.unparse(x) for x in st] != ["return self._protocol"]:
            raise Untranslatable("Gateway.protocol is not `return self._protocol`")

    # ---- one iteration of Gateway.listen
    def listen():
        check_protocol_property()
        fn = gw.Gateway.__dict__["listen"]
        node = fn_ast(fn)
        if not isinstance(node, ast.AsyncFunctionDef) or node.args.kwonlyargs or node.args.defaults:
            raise Untranslatable("signature of listen changed")
        (self_,) = positional(node, 1)
        st = strip(node.body)
        if not (len(st) == 1 and isinstance(st[0], ast.While) and isinstance(st[0].test, ast.Constant)
                and st[0].test.value is True and not st[0].orelse):
            raise Untranslatable("listen is not a single `while True:` loop")
        body = strip(st[0].body)
        if walk_has(body, (ast.Break, ast.Return, ast.YieldFrom, ast.While, ast.For, ast.AsyncFor)):
            raise Untranslatable("break / return / inner loop inside the listen loop")
        tr = TrGw(fn, "M", {self_: ("<gateway>", "gateway")}, ctx)
        # decoded = await self.transport.read(): the line is the parameter of the step
        first = body[0] if body else None
        ok = isinstance(first, ast.Assign) and len(first.targets) == 1 and isinstance(first.targets[0], ast.Name) \
            and isinstance(first.value, ast.Await) and isinstance(first.value.value, ast.Call) \
            and isinstance(first.value.value.func, ast.Attribute) and first.value.value.func.attr == "read" \
            and tr.is_self(first.value.value.func.value, "transport") \
            and not first.value.value.args and not first.value.value.keywords
        if not ok:
            raise Untranslatable("the loop does not start with `<local> = await self.transport.read()`")
        tr.env[first.targets[0].id] = ("line", "linestr")
        text = tr.block(body[1:], "step")
        return f"def listenStep (env : Env) (line : Str) : M Msg :=\n  {text}"

    attempt("listenStep", listen)

    # ---- Gateway.send
    def send_sig():
        fn = gw.Gateway.__dict__["send"]
        node = fn_ast(fn)
        if not isinstance(node, ast.AsyncFunctionDef) or node.args.defaults or len(node.args.kwonlyargs) != 1:
            raise Untranslatable("signature of send changed")
        self_, m = positional(node, 2)
        kw = node.args.kwonlyargs[0].arg
        d = node.args.kw_defaults[0]
        if kw != "message_buffer" or not (isinstance(d, ast.Constant) and isinstance(d.value, bool)):
            raise Untranslatable("send's keyword parameter is not `message_buffer: bool = <constant>`")
        return fn, node, self_, m, kw, d.value

    def send_default():
        d = send_sig()[5]
        return ("/-- The default of `send`'s `message_buffer` parameter (what a handler's `gateway.send(msg)` passes). -/\n"
                f"def sendDefaultBuffer : Bool := {'true' if d else 'false'}")

    def send():
        check_protocol_property()
        fn, node, self_, m, kw, _ = send_sig()
        tr = TrGw(fn, "M", {self_: ("<gateway>", "gateway"), m: ("message", "obj"), kw: ("message_buffer", "bool")}, ctx)
        if walk_has(node.body, (ast.Yield, ast.YieldFrom, ast.While, ast.For, ast.AsyncFor)):
            raise Untranslatable("loop or yield inside send")
        text = tr.block(node.body, "unit")
        return f"def send (message : Option Msg) (message_buffer : Bool) : M Unit :=\n  {text}"

    attempt("sendDefaultBuffer", send_default)
    attempt("send", send)
    return out


HEADER = """/-
GENERATED by tools/translate_listen.py from `Gateway.listen` / `Gateway.send` (gateway.py) and the two handler lookups
(model/protocol/__init__.py) of the aiomysensors working tree — do not edit.
Regenerated on every check run of a gateway-level property; rewritten only when its content changes.  A definition
marked `-- snapshot` could not be translated on this run and is the last committed translation.
-/
import AioMySensors.Model.LitGateway

set_option linter.unusedVariables false

namespace AioMySensors.GenGateway
open AioMySensors M

"""
ORDER = ["sendDefaultBuffer", "incomingAttrs", "outgoingAttrs", "get_incoming_message_handler",
         "get_outgoing_message_handler", "listenStep", "send"]


def main() -> int:
    ap = argparse.ArgumentParser()
    ap.add_argument("--repo", default="/repo")
    ap.add_argument("--out", required=True)
    ap.add_argument("--snapshot", required=True)
    ap.add_argument("--force-snapshot", action="store_true", help="write every definition from the snapshot")
    ap.add_argument("--update-snapshot", action="store_true")
    a = ap.parse_args()
    try:
        res = {} if a.force_snapshot else translate(a.repo)
    except Exception as err:  # noqa: BLE001
        print(f"TRANSLATE-LISTEN-FAILED {type(err).__name__}: {err}")
        res = {}
    try:
        with open(a.snapshot, encoding="utf-8") as f:
            snap = json.load(f)
    except (OSError, ValueError):
        snap = {}
    chunks, status = [], {}
    for name in ORDER:
        r = res.get(name, {"error": "snapshot forced" if a.force_snapshot else "not attempted"})
        if "lean" in r:
            chunks.append(r["lean"])
            status[name] = "translated" if snap.get(name) == r["lean"] else "translated-changed"
        elif name in snap:
            chunks.append("-- snapshot (untranslatable on this run: " + r["error"].replace("\n", " ") + ")\n" + snap[name])
            status[name] = "untranslatable: " + r["error"]
        else:
            print(f"TRANSLATE-FAILED {name}: {r['error']} (and no snapshot)")
            return 1
    text = HEADER + "\n\n".join(chunks) + "\n\nend AioMySensors.GenGateway\n"
    try:
        with open(a.out, encoding="utf-8") as f:
            old = f.read()
    except OSError:
        old = None
    if old != text:
        with open(a.out, "w", encoding="utf-8") as f:
            f.write(text)
    if a.update_snapshot:
        cur = dict(snap)
        cur.update({n: res[n]["lean"] for n in ORDER if "lean" in res.get(n, {})})
        with open(a.snapshot, "w", encoding="utf-8") as f:
            json.dump(cur, f, indent=1, sort_keys=True)
    bad = [n for n, s in status.items() if s.startswith("untranslatable")]
    changed = [n for n, s in status.items() if s == "translated-changed"]
    for n in bad:
        print(f"  {n}: {status[n]}")
    print(f"TRANSLATE-OK bodies={len(status)} untranslatable={len(bad)} changed={len(changed)}"
          + (" [" + ", ".join(bad + changed) + "]" if bad or changed else ""))
    return 0


if __name__ == "__main__":
    sys.exit(main())
