#!/bin/sh
# tools/try_seed.sh <seed-id> <Cxx> [<Cyy> ...] — run checks against a scratch copy of /repo with seeded/<seed-id>/patch.diff applied.
set -u
S="$1"; shift
V="$(cd "$(dirname "$0")/.." && pwd)"
C=/root/work/tryrepo_$$
rm -rf "$C"; mkdir -p "$C"; (cd /repo && git archive HEAD) | tar -x -C "$C"
(cd "$C" && git init -q && git add -A >/dev/null 2>&1 && git -c user.email=x@x -c user.name=x commit -qm base >/dev/null)
git -C "$C" apply "$V/seeded/$S/patch.diff" || { echo "patch does not apply"; rm -rf "$C"; exit 2; }
cd "$V"
for c in "$@"; do VERIF_REPO="$C" VERIF_SEED="${VERIF_SEED:-0}" ./check "$c" 2>&1 | grep -E "^VIOLATION|-> exit" | tr '\n' ' '; echo; done
rm -rf "$C"
/venv/bin/python tools/extract.py --repo /repo --out lean/AioMySensors/Generated/Tables.lean --json tools/tables.json >/dev/null
git checkout -q -- evidence 2>/dev/null
