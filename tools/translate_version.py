#!/venv/bin/python
"""Translator for `get_protocol` (model/protocol/__init__.py) -> lean/AioMySensors/Generated/VersionBodies.lean.

The function is matched as: optional docstring; `X = next((ELEM for K in SOURCE if COND), DEFAULT)`; `return X` or
`return cast(T, X)` (or the `next(...)` returned directly).  SOURCE: `sorted(PROTOCOL_VERSIONS[, reverse=<bool>])`.
ELEM: `PROTOCOL_VERSIONS[K]`.  COND: `not AwesomeVersion(<param>) < AwesomeVersion(K)` (the only comparison of
awesomeversion the Lean model describes).  DEFAULT: a protocol module of PROTOCOL_VERSIONS, evaluated in the
function's globals.  Anything else is untranslatable: the committed snapshot is written (not an alarm).
"""
from __future__ import annotations

import argparse
import ast
import importlib
import json
import os
import sys

sys.path.insert(0, os.path.dirname(os.path.abspath(__file__)))
import translate as T  # noqa: E402

VER = {"1.4": "v14", "1.5": "v15", "2.0": "v20", "2.1": "v21", "2.2": "v22"}


def translate(repo: str) -> str:
    sys.path.insert(0, os.path.join(repo, "src"))
    pkg = importlib.import_module("aiomysensors.model.protocol")
    fn = pkg.get_protocol
    fn = getattr(fn, "__wrapped__", fn)  # functools.cache
    node = T.fn_ast(fn)
    params = [a.arg for a in node.args.args]
    if len(params) != 1:
        raise T.Untranslatable("get_protocol: expected one parameter")
    param = params[0]
    body = T.strip(node.body)
    g = fn.__globals__

    def is_pv(e):
        return isinstance(e, ast.Name) and g.get(e.id) is pkg.PROTOCOL_VERSIONS

    def unwrap_ret(e, bound):
        if isinstance(e, ast.Call) and isinstance(e.func, ast.Name) and e.func.id == "cast" and len(e.args) == 2:
            e = e.args[1]
        if isinstance(e, ast.Name) and e.id in bound:
            return bound[e.id]
        return e

    bound = {}
    # leading `name = <expression>` statements (the generator, or the sorted key list hoisted into a local), then `return`
    if body and isinstance(body[-1], ast.Return) and all(isinstance(b, (ast.Assign, ast.AnnAssign)) for b in body[:-1]) \
            and len(body) <= 3:
        for b in body[:-1]:
            tgt = (b.targets[0] if len(b.targets) == 1 else None) if isinstance(b, ast.Assign) else b.target
            if not isinstance(tgt, ast.Name) or tgt.id in bound or tgt.id == param or b.value is None:
                raise T.Untranslatable("get_protocol: assignment target")
            bound[tgt.id] = b.value
        call = unwrap_ret(body[-1].value, bound)
    else:
        raise T.Untranslatable("get_protocol: statement shape")
    if not (isinstance(call, ast.Call) and isinstance(call.func, ast.Name) and call.func.id == "next" and len(call.args) == 2
            and not call.keywords and isinstance(call.args[0], ast.GeneratorExp)):
        raise T.Untranslatable("get_protocol: not next(generator, default)")
    gen, default = call.args
    if len(gen.generators) != 1 or gen.generators[0].is_async or not isinstance(gen.generators[0].target, ast.Name):
        raise T.Untranslatable("get_protocol: generator shape")
    comp = gen.generators[0]
    k = comp.target.id
    # SOURCE
    src = comp.iter
    if isinstance(src, ast.Name) and src.id in bound and src.id != k:
        # a local holding the sorted keys: sorted(...) builds its list before the first comparison either way
        src = bound[src.id]
    if isinstance(src, ast.Call) and isinstance(src.func, ast.Name) and src.func.id == "sorted" and len(src.args) == 1 \
            and isinstance(src.args[0], ast.Call) and isinstance(src.args[0].func, ast.Attribute) and src.args[0].func.attr == "keys" \
            and not src.args[0].args and not src.args[0].keywords and is_pv(src.args[0].func.value):
        src = ast.Call(func=src.func, args=[src.args[0].func.value], keywords=src.keywords)   # sorted(d.keys()) == sorted(d)
    if not (isinstance(src, ast.Call) and isinstance(src.func, ast.Name) and src.func.id == "sorted" and len(src.args) == 1
            and is_pv(src.args[0])):
        raise T.Untranslatable("get_protocol: iteration source")
    reverse = False
    for kw in src.keywords:
        if kw.arg == "reverse" and isinstance(kw.value, ast.Constant) and isinstance(kw.value.value, bool):
            reverse = kw.value.value
        else:
            raise T.Untranslatable("get_protocol: sorted keyword")
    # ELEM
    e = gen.elt
    if not (isinstance(e, ast.Subscript) and is_pv(e.value) and isinstance(e.slice, ast.Name) and e.slice.id == k):
        raise T.Untranslatable("get_protocol: element expression")

    # COND
    def av(x, name):
        return (isinstance(x, ast.Call) and isinstance(x.func, ast.Name) and g.get(x.func.id).__name__ == "AwesomeVersion"
                and len(x.args) == 1 and not x.keywords and isinstance(x.args[0], ast.Name) and x.args[0].id == name)

    def cond(c):
        if isinstance(c, ast.UnaryOp) and isinstance(c.op, ast.Not):
            return f"LV.notB ({cond(c.operand)})"
        if (isinstance(c, ast.Compare) and len(c.ops) == 1 and isinstance(c.ops[0], ast.Lt)
                and av(c.left, param) and av(c.comparators[0], k)):
            return f"LV.avLt {param} {k}"
        raise T.Untranslatable("get_protocol: condition outside the subset (only `AwesomeVersion(param) < AwesomeVersion(key)` and `not`)")

    if len(comp.ifs) != 1:
        raise T.Untranslatable("get_protocol: expected one `if`")
    c = cond(comp.ifs[0])
    # DEFAULT
    if not isinstance(default, ast.Name):
        raise T.Untranslatable("get_protocol: default")
    mod = g.get(default.id)
    ver = getattr(mod, "VERSION", None)
    if ver not in VER or pkg.PROTOCOL_VERSIONS.get(ver) is not mod:
        raise T.Untranslatable("get_protocol: default is not a protocol module")
    lp, lk = T.lean_ident(param), T.lean_ident(k)
    c = c.replace(f"LV.avLt {param} {k}", f"LV.avLt {lp} {lk}")
    return (f"def getProtocol ({lp} : Str) : Except AvErr Ver :=\n"
            f"  LV.nextOr (LV.sortedKeys {'true' if reverse else 'false'}) (fun {lk} => {c}) (fun {lk} => LV.moduleOf {lk}) Ver.{VER[ver]}")


HEADER = """/-
GENERATED by tools/translate_version.py from `get_protocol` of the working tree — do not edit.
-/
import AioMySensors.Model.LitVersion

namespace AioMySensors.GenVersion
open AioMySensors

"""


def main() -> int:
    ap = argparse.ArgumentParser()
    ap.add_argument("--repo", default="/repo")
    ap.add_argument("--out", required=True)
    ap.add_argument("--snapshot", required=True)
    ap.add_argument("--force-snapshot", action="store_true")
    ap.add_argument("--update-snapshot", action="store_true")
    a = ap.parse_args()
    try:
        with open(a.snapshot, encoding="utf-8") as f:
            snap = json.load(f)
    except (OSError, ValueError):
        snap = {}
    lean, err = None, None
    if a.force_snapshot:
        err = "snapshot forced"
    else:
        try:
            lean = translate(a.repo)
        except Exception as e:  # noqa: BLE001
            err = f"{type(e).__name__}: {e}"
    untranslatable = []
    if lean is None:
        lean = snap.get("getProtocol")
        untranslatable.append("getProtocol")
        if lean is None:
            print(f"TRANSLATE-FAILED no snapshot and {err}")
            return 2
    changed = [] if snap.get("getProtocol") == lean else ["getProtocol"]
    with open(a.out, "w", encoding="utf-8") as f:
        f.write(HEADER + lean + "\n\nend AioMySensors.GenVersion\n")
    if a.update_snapshot and not untranslatable:
        with open(a.snapshot, "w", encoding="utf-8") as f:
            json.dump({"getProtocol": lean}, f, indent=1)
    print(f"TRANSLATE-OK bodies=1 untranslatable={len(untranslatable)} changed={len(changed)} {changed}"
          + (f" ({err})" if err else ""))
    return 0


if __name__ == "__main__":
    sys.exit(main())
