"""Shared helpers for the correspondence harness (stdlib only; runs under /venv/bin/python)."""

from __future__ import annotations

import json
import os
import random
import shutil
import subprocess
import sys
import tempfile
import time

VERIF = os.path.dirname(os.path.dirname(os.path.abspath(__file__)))
LEAN = os.path.join(VERIF, "lean")
REPO = os.environ.get("VERIF_REPO", "/repo")
VERSIONS = ["1.4", "1.5", "2.0", "2.1", "2.2"]

_scratch = None


def scratch() -> str:
    """A scratch directory removed at exit."""
    global _scratch
    if _scratch is None:
        base = os.environ.get("VERIF_SCRATCH")
        if base:
            os.makedirs(base, exist_ok=True)
        _scratch = tempfile.mkdtemp(prefix="aiomys-verif-", dir=base)
        import atexit

        atexit.register(shutil.rmtree, _scratch, ignore_errors=True)
    return _scratch


def use_repo() -> None:
    """Make `import aiomysensors` resolve to the working tree under REPO."""
    src = os.path.join(REPO, "src")
    if src not in sys.path:
        sys.path.insert(0, src)
    import aiomysensors

    real = os.path.realpath(aiomysensors.__file__)
    if not real.startswith(os.path.realpath(src)):
        raise RuntimeError(f"aiomysensors imported from {real}, expected under {src}")


def sleep_buffer(gateway):
    """The gateway's sleep buffer, located by WHAT IT IS — the one `MessageBuffer` (public class of gateway.py with the
    public fields `set_messages` / `internal_messages`) that the gateway object holds and hands to its handlers — not
    by the name of the private attribute holding it.  Renaming a private attribute is not a change of behaviour
    (DESIGN 13, false alarm 12: `gateway._message_buffer` renamed made twelve checks crash)."""
    from aiomysensors.gateway import MessageBuffer  # noqa: PLC0415

    names = list(getattr(gateway, "__dict__", ()))
    for cls in type(gateway).__mro__:
        slots = cls.__dict__.get("__slots__", ())
        names.extend([slots] if isinstance(slots, str) else slots)
    found = []
    for n in names:
        v = getattr(gateway, n, None)
        if isinstance(v, MessageBuffer) and not any(v is w for w in found):
            found.append(v)
    if len(found) != 1:
        raise RuntimeError(f"the gateway object holds {len(found)} MessageBuffer objects; expected exactly one")
    return found[0]


def direct_stream_transport(open_fn):
    """A concrete `StreamTransport` whose connection is opened by the coroutine function `open_fn()` (-> reader, writer),
    built on the class's abstract hook — IF that hook still is the single coroutine method `_open_connection`.  The
    hook is private: a library that organises the opening differently (a factory, a sync hook returning an opener, ...)
    has not changed any behaviour a property speaks about, so this returns None then and the caller goes through
    `TCPTransport` / `SerialTransport` and the module-level open functions they call (`asyncio.open_connection`,
    `transport.serial.open_serial_connection` — the seams the library's own tests patch).  DESIGN 13, false alarm 13."""
    import inspect  # noqa: PLC0415

    from aiomysensors.transport import StreamTransport  # noqa: PLC0415

    hook = StreamTransport.__dict__.get("_open_connection")
    if set(getattr(StreamTransport, "__abstractmethods__", ())) != {"_open_connection"} or not inspect.iscoroutinefunction(hook):
        return None

    class Direct(StreamTransport):
        async def _open_connection(self):
            return await open_fn()

    return Direct()


# ---- string transport encoding ---------------------------------------------------------------


def safe_repr(v) -> str:
    try:
        return repr(v)
    except Exception:  # noqa: BLE001  (an object of the code under test whose repr fails)
        return object.__repr__(v)


def enc(s) -> str:
    """The driver's token for a string.  The renderers are applied to objects the REAL library built (node and child
    attributes, payloads): whatever such an attribute holds must be rendered, not crash the harness.  A value that is
    not a `str` is rendered as `!<type>!<code points of its repr>` - a token the model never prints, so it differs
    from every model rendering and from every rendering of a string."""
    if not isinstance(s, str):
        return f"!{type(s).__name__}!{enc(safe_repr(s)) if safe_repr(s) else '-'}"
    if s == "":
        return "-"
    return ",".join(format(ord(c), "x") for c in s)


def num(v) -> str:
    """An integer attribute of an object the real library built, as the drivers print integers.  Anything that is
    not a plain `int` (None, a bool, a float, a string, an int subclass is fine) or cannot be printed in decimal (beyond
    CPython's digit limit) is rendered as a `!...` token the model never prints."""
    if isinstance(v, int) and not isinstance(v, bool):
        try:
            return str(int(v))
        except ValueError:
            return f"!int!{v.bit_length()}bits"
    return f"!{type(v).__name__}!{enc(safe_repr(v)) if safe_repr(v) else '-'}"


def key_sorted(xs) -> list:
    """`sorted` for the keys of a dict the real library built: plain ints in order first, anything else after them
    (by type name and repr) instead of a TypeError on keys that do not compare."""
    xs = list(xs)
    try:
        if all(type(x) is int for x in xs):
            return sorted(xs)
    except Exception:  # noqa: BLE001
        pass
    return sorted(xs, key=lambda x: (0, x, "") if type(x) is int else (1, 0, type(x).__name__ + safe_repr(x)))


def dec(tok: str) -> str:
    if tok == "-":
        return ""
    return "".join(chr(int(h, 16)) for h in tok.split(","))


def has_surrogate(s) -> bool:
    return isinstance(s, str) and any(0xD800 <= ord(c) <= 0xDFFF for c in s)


# ---- the model driver ------------------------------------------------------------------------


class ModelError(Exception):
    pass


def run_model(lines: list[str], timeout: int = 600, driver: str = "Driver.lean") -> list[str]:
    """Pipe operations through the Lean driver; one output line per input line."""
    if not lines:
        return []
    path = os.path.join(scratch(), f"ops-{time.monotonic_ns()}.txt")
    with open(path, "w", encoding="ascii") as f:
        f.write("\n".join(lines) + "\n")
    with open(path, "rb") as inp:
        proc = subprocess.run(
            ["lake", "env", "lean", "--run", driver],
            cwd=LEAN, stdin=inp, capture_output=True, timeout=timeout, check=False,
        )
    os.unlink(path)
    if proc.returncode != 0:
        raise ModelError(f"driver exit {proc.returncode}: {proc.stderr.decode(errors='replace')[:2000]}"
                         f"{proc.stdout.decode(errors='replace')[-500:]}")
    out = proc.stdout.decode("ascii").split("\n")
    if out and out[-1] == "":
        out.pop()
    if len(out) != len(lines):
        raise ModelError(f"driver produced {len(out)} lines for {len(lines)} operations")
    return out


# ---- results ---------------------------------------------------------------------------------


class Corr:
    """Accumulates what a correspondence run did."""

    def __init__(self, prop: str, rule: str) -> None:
        self.prop = prop
        self.rule = rule
        self.evaluations = 0
        self.nontrivial: set = set()
        self.samples: list = []
        self.dist: dict[str, int] = {}
        self.disagreements: list[dict] = []   # model != implementation
        self.violations: list[dict] = []      # implementation violates the property's oracle
        self.notes: list[str] = []
        self.exhaustive = False

    def count(self, key: str, n: int = 1) -> None:
        self.dist[key] = self.dist.get(key, 0) + n

    def case(self, canon, nontrivial: bool, sample=None) -> None:
        self.evaluations += 1
        if nontrivial:
            self.nontrivial.add(canon if isinstance(canon, (str, int, tuple)) else json.dumps(canon, sort_keys=True))
        if sample is not None and len(self.samples) < 8 and (nontrivial or len(self.samples) < 2):
            self.samples.append(sample)

    def disagree(self, what: str, case: dict) -> None:
        if len(self.disagreements) < 50:
            self.disagreements.append({"what": what, **case})

    def violate(self, what: str, case: dict) -> None:
        if len(self.violations) < 50:
            self.violations.append({"what": what, **case})


def rng_for(seed: int, stream: str) -> random.Random:
    return random.Random(f"{seed}:{stream}")


# Histories found by check.tie_search (diverging steps between the generated bodies and the model); the gateway
# engines replay them together with the corpus.  Empty except during that second pass.
EXTRA_HISTORIES: list = []


def load_corpus(prop: str) -> list[dict]:
    d = os.path.join(VERIF, "corpus", prop)
    out = []
    if os.path.isdir(d):
        for name in sorted(os.listdir(d)):
            if name.endswith(".json"):
                with open(os.path.join(d, name), encoding="utf-8") as f:
                    c = json.load(f)
                c["_file"] = name
                out.append(c)
    return out
