"""Gateway-level correspondence: histories of received lines and send calls, run on the real
`Gateway` (in-process) and through the Lean model, compared observation by observation."""

from __future__ import annotations

import asyncio
import json
import os
import time as _time
from dataclasses import dataclass, field

from . import gen, lib
from .lib import enc, num

lib.use_repo()

from aiomysensors import exceptions as exc  # noqa: E402
from aiomysensors.gateway import Config, Gateway  # noqa: E402
from aiomysensors.model.message import Message  # noqa: E402
from aiomysensors.model.node import Child, Node  # noqa: E402
from aiomysensors.model.protocol import protocol_14  # noqa: E402
from aiomysensors.transport import Transport  # noqa: E402

T = gen.TABLES
DEFAULT_TIME = (2024, 3, 10, 12, 30, 15)


CANCEL = "c"      # a write fault: not a failure of the transport, the waiting task is cancelled there


class FaultTransport(Transport):
    """In-memory transport: scripted reads, write attempts recorded, scripted write failures."""

    def __init__(self) -> None:
        self.lines: list[str] = []
        self.attempts: list[tuple[str, bool]] = []
        self.faults: list[bool] = []

    async def connect(self) -> None:
        pass

    async def disconnect(self) -> None:
        pass

    async def read(self) -> str:
        return self.lines.pop(0)

    async def write(self, decoded_message: str) -> None:
        fail = self.faults.pop(0) if self.faults else False
        self.attempts.append((decoded_message, not fail))
        if fail == CANCEL:
            # the task waiting in this write is cancelled (wait_for / timeout / task.cancel()): what the awaiting
            # code sees is asyncio.CancelledError raised at this await
            raise asyncio.CancelledError
        if fail:
            raise exc.TransportFailedError("scripted write failure")


class _TimeStub:
    """Stands in for the `time` module inside protocol_14: a fixed broken-down local time."""

    def __init__(self) -> None:
        self.now = DEFAULT_TIME

    def localtime(self, *_a):
        y, mo, d, h, mi, s = self.now
        return _time.struct_time((y, mo, d, h, mi, s, 0, 1, -1))


TIME_STUB = _TimeStub()
protocol_14.time = TIME_STUB  # the harness process only; /repo is not modified


@dataclass
class Hist:
    version: str | None          # reported version at start (None: unknown)
    metric: bool = True
    preload: list = field(default_factory=list)   # ("node", id, type, pv, sn, sv, bat, hb, reboot, sleeping) / ("child", n, key, cid, ctype, desc) / ("val", n, key, t, v)
    ops: list = field(default_factory=list)       # ("recv", line, faults, time) / ("send", fields|None, buffer, faults) / SESSION
    #                                               / ("send", fields, buffer, faults, handle) / ("assign", handle, fields, ())

    def to_json(self):
        return {"version": self.version, "metric": self.metric, "preload": [list(p) for p in self.preload],
                "ops": [list(o) for o in self.ops]}

    @staticmethod
    def from_json(j):
        return Hist(j["version"], j["metric"], [tuple(p) for p in j["preload"]],
                    [tuple(tuple(x) if isinstance(x, list) else x for x in o) for o in j["ops"]])


# Leaving the gateway context and entering it again (a reconnect): `__aexit__` then `__aenter__` on the same Gateway
# object.  Not an operation of the Lean model: the model's state (registry, version, both buffers) must simply be
# the same afterwards, which is how the comparison treats it (no driver line, expected observation "ok", no writes).
SESSION = ("session", "", (), None)

# The same with a persistence file configured (`Config(persistence_file=...)`): a history that contains this operation
# is run on a gateway WITH a file, inside the context from the start (the first enter finds no file and writes the
# registry the history starts with); the operation leaves the context - with the exception of the step before it, when
# that step raised: the error left `async with gateway:` - which saves the registry a final time, and enters the SAME
# object again, which loads the file: every Node object is replaced by a fresh one built from the file.  What the file
# carries of a node is everything but its reboot flag; the histories that use the operation never set that flag, so the
# model's state is the same afterwards here too (whatever the gateway holds for a node is not the registry's to lose).
SESSION_FILE = ("session", "file", (), None)


def has_file(h) -> bool:
    return any(op[0] == "session" and op[1] == "file" for op in h.ops)


# The caller's own `Message` objects.  A plain `("send", fields, buffer, faults)` builds a Message for that one call and
# drops it.  `("send", fields, buffer, faults, handle)` is a send of the caller's object `handle` (a small number): the
# first operation that names a handle creates the instance with these fields; every later one takes THE SAME instance,
# assigns to the attributes that differ from `fields` (the caller changing its own object: `msg.payload = "0"`) and
# hands it to `send` again.  `("assign", handle, fields, ())` is such an assignment without a send - for instance to an
# object that is being held for a sleeping node.  In the Lean model: `Model/Objects.lean` (`gsendo` / `gassign`).
MSG_ATTRS = ("node_id", "child_id", "command", "ack", "message_type", "payload")


def assign_op(handle: int, fields) -> tuple:
    return ("assign", handle, tuple(fields), ())


def caller_object(objs: dict, handle, fields):
    """The caller's object `handle`, reading `fields`: created, or the existing instance with its attributes assigned."""
    obj = objs.get(handle)
    if obj is None:
        obj = objs[handle] = Message(*fields)
        return obj
    for name, value in zip(MSG_ATTRS, fields):
        if getattr(obj, name) != value:
            setattr(obj, name, value)
    return obj


def held_items(gateway):
    """What the gateway holds for sleeping nodes, READ FROM ITS INTERNALS: [((node, child, type), message)], grouped by
    destination node (ascending), in the order of the store within a node - the only order anything depends on (a wake
    releases its node's entries in that order); in which order entries of DIFFERENT nodes were stored has no meaning, so
    a store kept per node reads the same as one gateway-wide dict.  None when no such store is found where it used to
    be (the `set_messages` mapping of the gateway's one `MessageBuffer`, found by type: `lib.sleep_buffer`): where a refactoring keeps it is
    its own business, and what is held is then observed only by what later wakes write (the drain of every history
    that is compared on the writes view, and the trace-based oracles)."""
    try:
        items = list(lib.sleep_buffer(gateway).set_messages.items())
        if not all(isinstance(k, tuple) and len(k) == 3 and all(isinstance(x, int) for x in k) and hasattr(m, "payload")
                   for k, m in items):
            return None
    except Exception:  # noqa: BLE001
        return None
    return sorted(items, key=lambda kv: kv[0][0])


def canon_state(state: str) -> str:
    """A rendered state (the model's, or ours) with the sleep buffer's entries grouped by node as `held_items` does."""
    head, sep, sb = state.rpartition(" sbuf=[")
    if not sep or not sb.endswith("]") or sb == "?]":
        return state
    toks = sb[:-1].split(" ") if sb[:-1] else []
    try:
        toks = sorted(toks, key=lambda t: int(t.split(".", 1)[0]))
    except ValueError:
        return state
    return f"{head}{sep}{' '.join(toks)}]"


def align_state(impl_state: str, model_state: str) -> str:
    """The model's state as far as the implementation's could be observed: where the store of held commands was not
    found (`sbuf=[?]`), the model's is not compared either."""
    if impl_state.endswith(" sbuf=[?]"):
        return model_state.rpartition(" sbuf=[")[0] + " sbuf=[?]"
    return model_state


def observed_sbuf(gateway):
    """(found?, [(key, payload)]) of the internal store of held commands."""
    items = held_items(gateway)
    return items is not None, [(k, m.payload) for k, m in items or []]


def entry_is_message(gateway, obj, fields) -> bool:
    """Is the sleep buffer's entry under the key of `fields` the message `obj` (or a copy that reads the same)?"""
    e = dict(held_items(gateway) or []).get((fields[0], fields[1], fields[4]))
    return e is not None and (e is obj or tuple(getattr(e, a, None) for a in MSG_ATTRS) == tuple(fields))


def b(x: bool) -> str:
    return "1" if x else "0"


def faults_tok(f) -> str:
    return "".join("c" if x == CANCEL else b(x) for x in f) if f else "-"


# ---- rendering (must match Driver.lean's showSt / showExn / showWrites) -----------------------


def render_state(gw: Gateway) -> str:
    nodes = []
    for k, n in gw.nodes.items():
        children = []
        for ck, c in n.children.items():
            vals = ",".join(f"{num(t)}={enc(v)}" for t, v in c.values.items())
            children.append(f"{num(ck)}/{num(c.child_id)}/{num(c.child_type)}/{enc(c.description)}/{{{vals}}}")
        # (enc / num render whatever the real objects hold - None, a float, a huge int - as tokens the model never prints)
        nodes.append(f"{num(k)}:{num(n.node_type)}:{enc(n.protocol_version)}:{enc(n.sketch_name)}:{enc(n.sketch_version)}:"
                     f"{num(n.battery_level)}:{num(n.heartbeat)}:{b(n.reboot)}:{b(n.sleeping)}:[{';'.join(children)}]")
    buf = lib.sleep_buffer(gw)
    pv = "pv=none" if gw.protocol_version is None else "pv=" + enc(gw.protocol_version)
    ib = " ".join(f"{k[0]}.{k[1]}.{k[2]}" for k in buf.internal_messages)
    held = held_items(gw)
    sb = "?" if held is None else " ".join(f"{k[0]}.{k[1]}.{k[2]}={enc(m.payload)}" for k, m in held)
    return f"{pv} proto={gw.protocol.VERSION} nodes=[{'|'.join(nodes)}] ibuf=[{ib}] sbuf=[{sb}]"


def render_exc(e: BaseException) -> str:
    if isinstance(e, exc.MissingNodeError):
        return f"err missingNode {e.node_id}"
    if isinstance(e, exc.MissingChildError):
        return f"err missingChild {e.child_id}"
    if isinstance(e, exc.TooManyNodesError):
        return "err tooManyNodes"
    if isinstance(e, exc.InvalidMessageError):
        return "err invalidMessage"
    if isinstance(e, exc.UnsupportedMessageError):
        return "err unsupported"
    if isinstance(e, exc.TransportFailedError):
        return "err transportFailed"
    if isinstance(e, exc.AIOMySensorsError):
        return f"err other:{type(e).__name__}"
    return f"foreign {type(e).__name__}"


def render_writes(attempts) -> str:
    return " W" + "".join(f" {enc(line)}:{b(ok)}" for line, ok in attempts)


def render_msg(m: Message) -> str:
    return f"ok {m.node_id} {m.child_id} {m.command} {m.ack} {m.message_type} {enc(m.payload)}"


# ---- running a history on the implementation --------------------------------------------------


def build_gateway(h: Hist, transport: Transport | None = None, persistence_file: str | None = None):
    tr = FaultTransport() if transport is None else transport
    gw = Gateway(tr, Config(metric=h.metric, persistence_file=persistence_file))
    if h.version is not None:
        gw.protocol_version = h.version
    for p in h.preload:
        if p[0] == "node":
            _, nid, ntype, pv, sn, sv, bat, hb, reboot, sleeping = p
            n = Node(nid, ntype, pv, sketch_name=sn, sketch_version=sv, battery_level=bat, heartbeat=hb, sleeping=sleeping)
            n.reboot = reboot
            gw.nodes[nid] = n
        elif p[0] == "child":
            _, nid, key, cid, ctype, desc = p
            gw.nodes[nid].children[key] = Child(cid, ctype, description=desc)
        elif p[0] == "val":
            _, nid, key, t, v = p
            gw.nodes[nid].children[key].values[t] = v
    return gw, tr


def snapshot_nodes(gw: Gateway):
    return {k: {"type": n.node_type, "pv": n.protocol_version, "sn": n.sketch_name, "sv": n.sketch_version,
                "bat": n.battery_level, "hb": n.heartbeat, "reboot": n.reboot, "sleeping": n.sleeping,
                "children": {ck: {"cid": c.child_id, "type": c.child_type, "desc": c.description, "values": dict(c.values)}
                             for ck, c in n.children.items()}}
            for k, n in gw.nodes.items()}


_file_counter = 0


def _new_file() -> str:
    global _file_counter
    _file_counter += 1
    return os.path.join(lib.scratch(), f"gw-history-{os.getpid()}-{_file_counter}.json")


async def settle(gateway, path: str) -> None:
    """After entering the context of a gateway with a persistence file: let the scheduled save, which the enter started,
    write the file and go to sleep, so that no later step of the history meets it half-way (every history is then
    reproducible; leaving the context while that save is in flight is C13's known finding F17, not what these
    histories are about).  The library's file operations are real but run in the loop's own thread here
    (`_inline_files`), so each is complete one turn of the loop after it was asked for; a save is a chain of them."""
    for i in range(400):
        await asyncio.sleep(0)
        if i >= 7 and i % 4 == 3:
            try:
                with open(path, encoding="utf-8") as f:
                    if set(json.load(f)) == {str(k) for k in gateway.nodes}:
                        return
            except (OSError, ValueError):
                pass


async def _run_impl(h: Hist):
    """One history on the real gateway.  Received lines are consumed the way an application does it: through ONE
    `gateway.listen()` generator for as long as it keeps yielding (`async for message in gateway.listen()`); after a
    step that raised, the generator is finished and the application starts a new one.  Histories whose hash is odd
    instead fetch every line from a fresh generator (the style of the repo's tests).
    A history with `SESSION_FILE` operations runs on a gateway with a persistence file, inside its context."""
    path = _new_file() if has_file(h) else None
    gw, tr = build_gateway(h, persistence_file=path)
    entered = None
    if path is not None:
        _inline_files(asyncio.get_running_loop())
        try:
            await gw.__aenter__()
            await settle(gw, path)
            entered = "ok"
        except BaseException as e:  # noqa: BLE001  (evidence about the code under test, not a crash of the harness)
            entered = render_exc(e)
    try:
        obs = await _run_ops(h, gw, tr, path)
        obs[0]["entered"] = entered
        return obs
    finally:
        if path is not None:
            try:
                await gw.__aexit__(None, None, None)
            except BaseException:  # noqa: BLE001
                pass
            try:
                os.unlink(path)
            except OSError:
                pass


def _inline_files(loop) -> None:
    """Make the running loop's default executor (where aiofiles sends the library's file operations) one that runs
    each operation at once, in the caller's thread: the operations on the file are the real ones (open, read, write,
    close on a real path), only no second thread is involved - a history with a persistence file is then as
    deterministic, and nearly as cheap, as one without.  `asyncio.run` shuts the executor down with the loop."""
    if getattr(loop, "_gw_history_pool", None) is None:
        from concurrent.futures import Future, ThreadPoolExecutor

        class Inline(ThreadPoolExecutor):
            def submit(self, fn, /, *args, **kwargs):
                f: Future = Future()
                try:
                    f.set_result(fn(*args, **kwargs))
                except BaseException as e:  # noqa: BLE001
                    f.set_exception(e)
                return f

        loop._gw_history_pool = Inline(max_workers=1)
        loop.set_default_executor(loop._gw_history_pool)


async def _run_ops(h: Hist, gw, tr, path):
    persistent = (len(h.ops) + len(h.preload) + (0 if h.version is None else len(h.version))) % 3 != 0
    listener = None
    objs: dict = {}              # the caller's Message objects by handle
    raised = None                # the exception the step before ended in
    seen, sbuf = observed_sbuf(gw)
    obs = [{"out": "init", "writes": [], "state": render_state(gw), "nodes": snapshot_nodes(gw),
            "pv": gw.protocol_version, "proto": gw.protocol.VERSION,
            "sbuf": sbuf, "sbuf_seen": seen,
            "ibuf": list(lib.sleep_buffer(gw).internal_messages)}]
    for op in h.ops:
        raised, last = None, raised
        tr.attempts = []
        held = None
        if op[0] == "recv":
            _, line, faults, now = op
            tr.lines = [line]
            tr.faults = list(faults)
            TIME_STUB.now = tuple(now)
            if listener is None or not persistent:
                if listener is not None:
                    await listener.aclose()
                listener = gw.listen()
            try:
                m = await anext(listener)
                out = render_msg(m)
            except BaseException as e:  # noqa: BLE001
                out = render_exc(e)
                raised = e
                listener = None          # an async generator that raised is finished
        elif op[0] == "session":
            if listener is not None:
                await listener.aclose()
                listener = None
            try:
                # (when the step before raised, that error is what leaves `async with gateway:`)
                if last is not None:
                    await gw.__aexit__(type(last), last, last.__traceback__)
                else:
                    await gw.__aexit__(None, None, None)
                await gw.__aenter__()
                if path is not None:
                    await settle(gw, path)
                out = "ok"
            except BaseException as e:  # noqa: BLE001
                out = render_exc(e)
        elif op[0] == "assign":
            caller_object(objs, op[1], op[2])
            out = "ok"
        else:
            _, fields, buffer, faults = op[:4]
            tr.faults = list(faults)
            if len(op) > 4:
                obj = caller_object(objs, op[4], fields)
            else:
                obj = Message(*fields) if fields is not None else "not a message"
            held_before = fields is not None and entry_is_message(gw, obj, fields)
            try:
                await gw.send(obj, message_buffer=buffer)
                out = "ok"
            except BaseException as e:  # noqa: BLE001
                out = render_exc(e)
                raised = e
            # after the call: is the message that was sent the buffer's entry for its key, and did this call make it so?
            held = fields is not None and entry_is_message(gw, obj, fields)
            held = (held, held and not held_before)
        seen, sbuf = observed_sbuf(gw)
        obs.append({"out": out, "held": held, "writes": list(tr.attempts), "state": render_state(gw), "nodes": snapshot_nodes(gw),
                    "pv": gw.protocol_version, "proto": gw.protocol.VERSION,
                    "sbuf": sbuf, "sbuf_seen": seen,
                    "ibuf": list(lib.sleep_buffer(gw).internal_messages)})
    if listener is not None:
        await listener.aclose()
    return obs


def run_impl(h: Hist):
    return asyncio.run(_run_impl(h))


async def run_impl_many_async(hists):
    return [await _run_impl(h) for h in hists]


def run_impl_many(hists):
    return asyncio.run(run_impl_many_async(hists))


# ---- the same history as model operations ----------------------------------------------------


def model_lines(h: Hist) -> list[str]:
    out = [f"gnew {enc(h.version) if h.version is not None else '-'} {b(h.metric)}"]
    for p in h.preload:
        if p[0] == "node":
            _, nid, ntype, pv, sn, sv, bat, hb, reboot, sleeping = p
            out.append(f"gnode {nid} {ntype} {enc(pv)} {enc(sn)} {enc(sv)} {bat} {hb} {b(reboot)} {b(sleeping)}")
        elif p[0] == "child":
            _, nid, key, cid, ctype, desc = p
            out.append(f"gchild {nid} {key} {cid} {ctype} {enc(desc)}")
        else:
            _, nid, key, t, v = p
            out.append(f"gval {nid} {key} {t} {enc(v)}")
    out.append("gdump")
    for op in h.ops:
        if op[0] == "recv":
            _, line, faults, now = op
            out.append(f"grecv {enc(line)} {faults_tok(faults)} " + " ".join(str(x) for x in now))
        elif op[0] == "session":
            out.append("gdump")
            continue
        elif op[0] == "assign":
            n, c, cmd, ack, t, p = op[2]
            out.append(f"gassign {op[1]} {n} {c} {cmd} {ack} {t} {enc(p)}")
        elif len(op) > 4:
            _, (n, c, cmd, ack, t, p), buffer, faults, handle = op
            out.append(f"gsendo {handle} {b(buffer)} {faults_tok(faults)} {n} {c} {cmd} {ack} {t} {enc(p)}")
        else:
            _, fields, buffer, faults = op
            if fields is None:
                out.append(f"gsend {b(buffer)} {faults_tok(faults)} notmsg")
            else:
                n, c, cmd, ack, t, p = fields
                out.append(f"gsend {b(buffer)} {faults_tok(faults)} {n} {c} {cmd} {ack} {t} {enc(p)}")
        out.append("gdump")
    return out


def model_obs(h: Hist, outs: list[str]):
    """Split the driver's output for one history into per-op (outcome+writes, state)."""
    k = 1 + len(h.preload)
    for o in outs[:k]:
        if o != "ok":
            raise lib.ModelError(f"model rejected a setup operation: {o}")
    res = [("init W", canon_state(outs[k]))]
    i = k + 1
    for op in h.ops:
        if op[0] == "session":
            res.append(("ok W", canon_state(outs[i])))
            i += 1
            continue
        res.append((outs[i], canon_state(outs[i + 1])))
        i += 2
    return res


def n_model_lines(h: Hist) -> int:
    return 2 + len(h.preload) + sum(1 if op[0] == "session" else 2 for op in h.ops)


def compare(h: Hist, impl, model, view: str = "full"):
    """First step at which implementation and model differ under the given view, or None."""
    for i, (io, (mo, ms)) in enumerate(zip(impl, model)):
        iout = io["out"] + render_writes(io["writes"]) if i else "init W"
        if view == "class":
            a, bb = iout.split(" W")[0].split(" ")[:2], mo.split(" W")[0].split(" ")[:2]
            if a[0] == "ok":
                a = a[:1]
            if bb[0] == "ok":
                bb = bb[:1]
            if a != bb:
                return {"step": i, "impl": iout, "model": mo}
            continue
        if iout != mo:
            return {"step": i, "impl": iout, "model": mo}
        ms = align_state(io["state"], ms)
        if io["state"] != ms:
            return {"step": i, "impl_state": io["state"], "model_state": ms}
    return None


def run_both(hists, corr, view="full", what="gateway history"):
    """Run histories on both sides; record disagreements (with the shrunk prefix)."""
    impl = run_impl_many(hists)
    if not getattr(corr, "_model_ok", True):
        return impl
    lines = []
    for h in hists:
        lines.extend(model_lines(h))
    outs = lib.run_model(lines)
    pos = 0
    for h, io in zip(hists, impl):
        n = n_model_lines(h)
        mo = model_obs(h, outs[pos:pos + n])
        pos += n
        d = compare(h, io, mo, view)
        if d is not None:
            short = Hist(h.version, h.metric, h.preload, h.ops[: d["step"]])
            corr.disagree(what, {"history": short.to_json(), **d})
    return impl


# ---- generators ------------------------------------------------------------------------------

NODES = [1, 2, 3]
CHILDREN = [0, 1, 2]
VTYPES = [0, 2, 49]
TIMES = [DEFAULT_TIME, (1970, 1, 1, 0, 0, 0), (2000, 2, 29, 23, 59, 59), (2038, 1, 19, 3, 14, 8), (2024, 12, 31, 23, 59, 59),
         (2023, 3, 26, 2, 30, 0), (2100, 3, 1, 0, 0, 0), (1999, 12, 31, 0, 0, 1)]

BATTERY_PAYLOADS = ["57", "0", "100", "100.4", "100.5", "100.50000000000000001", "100.6", "-0.5", "-0.4", "-0.6", "150", "-3",
                    "abc", "", "nan", "inf", "-inf", "1e999", "1e2", "5e-1", "2.5", "0.5", "1.5", "0.49999999999999997",
                    " 42 ", "4_2", "٤٢", "1" + "0" * 30, "9" * 5000, "1e-400", ".5", "5.", ".", "0x10", "+7", "1__0",
                    "99.99999999999999999", "NaN", "Infinity", "1e", "--1", "\xa042", "\x1c42", "3.5", "4.5"]
HEARTBEAT_PAYLOADS = ["1111", "0", "-5", "xyz", "5.0", "", " 12 ", "1_000", "١٢", "9" * 4300, "9" * 4301, "+3", "1e3", "0x1", "\x1c1"]
# Version strings of every kind awesomeversion distinguishes (the Lean model covers every Python str; DESIGN 7, C05):
# the release grammar, plain integers (BuildVer), prefixes, modifiers (SemVer pre-release / build, PEP 440 pre / post / dev /
# local / epoch), calendar versions, hexadecimal, the special containers, white space, non-ASCII digits and word characters,
# 1-6 sections, empty sections, the digit limit of int() in sections the comparison does and does not reach, and the
# strings on which awesomeversion itself fails with an IndexError (a CalVer string ending in ".\n" once stripped; F16).
VERSION_CORPUS = [
    # release grammar and its edges
    "2.2", "2.1", "2.0", "1.5", "1.4", "2.2.0", "2.3.2", "2.1.1", "2.0.0", "1.5.0", "1.4.9", "0.9", "3.0", "2.10", "1.10.0",
    "2.2.0.1", "10.0", "0.0", "1.6", "2.2.0.0", "2.2.0.0.0", "2.2.0.0.0.1", "1.2.3.4.5.6", "02.2", "2.02", "2.2.00", "002.002.0",
    "22.1", "22.01.1", "2022.1.1.1", "2024.6.0", "24.6.0", "2024.12.31", "20.1.2..3", "20.1.2.", "2022.12.31.1", "99.99.99.9",
    # plain integers, signs, separators
    "7", "2", "1", "0", "22", "2024", "007", "-2.1", "+2.1", "2.-1", "-7", "+7", "2_0.1", "2_2", "1e1.0", "2,2", "2;2", "2 .2",
    # prefixes
    "v2.1", "V2.2", "v7", "vv2.1", "Vv2.2", "v.2.1", "V.2.2", "|2.1", "v|2.1", "|7", "||2.2", "v", "V", "|", "v2.2.0-beta", "v0x10",
    "vlatest", "vdev", "v2024.6.0",
    # dots
    "", ".", "..", "2.", "2..", ".2", ".2.2", "2..1", "2.2.", "2.2..", "2.1.", "2.1..", "7.", "v.", "2.2.0.",
    # white space (strip, inner, the newline `$` tolerates)
    " 2.1 ", "\t2.2\n", "2.2 .", "2. 2", "2.2.0 ", " 7", "\x0c2.0", "\x1c2.1", "\xa02.2", " 2.1 ", "2.1\n.", "2.2\n", "2.2\n\n.",
    "2.2rc1\n.", "latest\n.", "0x10\n.", "7\n.", "2.2.0-rc1\n.", " \n ", "\n.", "2.2.\n", "2\n.2",
    # the IndexError class (and near misses)
    "20.1.2.\n.", "2024.12.31.\n.", " v20.1.2.\n. ", "20.1.22.\n.", "20.12.2.\n.", "2024.1.2.\n.", "20.1.2.\r.", "20.1.2.\t.",
    "20.1.2. .", "20.1.2.\n..", "2.1.2.\n.", "20.1.2\n.", "20.1.\n.", "20.1.2.3\n.", "20.1.2.\n", "V20.1.2.\n.",
    # non-ASCII digits / word characters / case
    "٢.١", "２.２", "٢.٢.٠", "2.٢", "१.४", "２", "2.2.0-٢", "2.2.0-rc٢", "20.1.2é3", "20.1é1", "2024.6.0ß1", "20.1²", "20.1Ⅻ1", "2.2Ⅻ",
    "2.2.0-RC1", "2.2.0-Beta", "2.2RC1", "0X10", "0xAbC", "LATEST", "Dev", "2.2.0+Build",
    # SemVer modifiers
    "2.2.0-beta", "2.2.0-alpha", "2.2.0-rc1", "2.2.0-rc.1", "2.2.0-beta.2", "2.2.0-dev.3", "2.2.0-5", "2.2.0-0.3.7", "2.2.0-x.7.z.92",
    "2.2.0+5", "2.2.0+build.5", "2.2.0-alpha.1+b", "2.2.0-alpha+", "2.2.0-", "2.2.0+", "2.2.0-a+b+c", "2.2.0--", "2.2.0-1-", "2.2.0-01",
    "2.2.0-0", "2.2.0-1a", "2.2.0-a.b.c", "2.2.0-rc..1", "2.1.0-beta", "2.0.0-rc1", "1.5.0-alpha", "1.4.0-dev", "1.0.0-5", "3.0.0-beta",
    "2.2.1-beta", "2.3.0-beta", "1.5.0-1a", "02.2.0-beta", "2.02.0-beta", "2.2.00-beta", "10.2.0-beta", "2.2.0-beta-", "2.2.0-b.e.t.a",
    # PEP 440 and near misses
    "2.2.0b1", "2.2.0rc1", "2.1.0rc1", "2.0.0.dev1", "2.1.0.dev0+local", "2.2b1", "2.2rc1", "2.2a1", "2.2c1", "2.2pre1", "2.2preview1",
    "2.2alpha1", "2.2beta1", "2.2.post1", "2.2.dev1", "2.2-r1", "2.2_rev2", "2.2.0.post1.dev2", "1!2.2", "1!2.2.post1.dev3", "2!1.4",
    "2.2+abc", "2.2+abc.def-1", "2.2+", "2.2b", "2.2.1rc", "1.5.dev", "2.1.rc1", "2.1.rc.1", "2.0_rc1", "2.0-beta", "2.2a", "2.2.x",
    "2.2.0b01", "2.2.0.b1", "2.2.0-b1", "2.2.0_b1", "2b1", "7rc2", "7.dev3", "7+local", "1!7", "0!2.2", "01!2.2", "2.2d1", "2.2dev1",
    "2.2.0.dev", "2.2.0dev0", "1.5.1a", "1.5.1-a", "1.5-1a", "1.5a1.post2.dev3+x.y", "2.2post1", "2.2r1", "2.2b1r2d3",
    # containers and words
    "latest", "stable", "beta", "dev", "latest.", "latest.1", "dev1", "beta1", "alpha", "rc", "garbage", "a.b", "x", "none", "1.4-stable",
    # hexadecimal
    "0x10", "0x1", "0x0", "0xff", "0xFF", "0x", "0xZZ", "0x1.2", "0x10.", "00x10", "0x1g", "x10", "0x" + "f" * 40,
    # the digit limit of int(): reached, not reached, exactly at the limit
    "9" * 4300, "9" * 4301, "9" * 5000 + ".1", "3." + "1" * 5000, "2." + "1" * 5000, "2." + "1" * 4300, "2.2." + "1" * 5000,
    "2.2." + "1" * 4300, "2.3." + "1" * 5000, "2.1." + "1" * 5000, "1.5." + "1" * 5000, "1.4.0." + "1" * 5000, "0." + "1" * 5000,
    "2.2.0rc" + "1" * 4301, "2.2.0rc" + "1" * 4300, "2.2.0-rc." + "1" * 4301, "2.2.0-" + "1" * 4301, "2.2.0+" + "1" * 4301,
    "2.2.0.0.0.0." + "1" * 4301, "v" + "1" * 4301 + ".0", "0x" + "1" * 5000, "10.2." + "1" * 5000, " " * 300 + "2.1" + " " * 300,
]

# What the gateway-level generators of every property draw version payloads from.
VERSION_PAYLOADS = ["2.2", "2.1", "2.0", "1.5", "1.4", "2.2.0", "2.3.2", "2.1.1", "2.0.0", "1.5.0", "1.4.9", "0.9", "3.0", "2.10",
                    "1.10.0", "2.2.0.1", "10.0", "0.0", "1.6",
                    "garbage", "", "2.0-beta", "9" * 5000 + ".1", "2..1", "-2.1", "+2.1", "2.-1", "2_0.1", "1e1.0", "2.2a",
                    # outside the release grammar (accepted or rejected by awesomeversion; the model covers every string)
                    "7", "2", "1", "v2.1", "V2.2", "|2.1", " 2.0", "2.1.", "2.2.0-beta", "2.1.0-rc.1", "2.0.0+build", "2.2.0b1",
                    "2.1.0rc1", "2.0.0.dev1", "2.1.0.dev0+local", "1!2.2", "2024.6.0", "22.1", "latest", "stable", "beta", "dev",
                    "0x10", "0x1", "٢.١", "２.２.０", "2.2.0.0.0.1", "2.1\n.", "2.2rc1\n.", "20.1.2.\n.", "2024.12.31.\n.", "20.1.2.\t.",
                    "3." + "1" * 5000, "2." + "1" * 5000, "2.2.0rc" + "1" * 4301, "2.2.0-5", "1.5.0-1a", "v", "."]

_VER_ALPHABET = "0123456789.-+_vabrcdex"
_VER_SEEDS = ["2.2", "2.1.0", "1.4", "1.5.0", "2.2.0-beta", "2.2.0-rc.1", "2.1.0rc1", "2.0.0.dev1", "2.1.0.dev0+local", "2024.6.0",
              "24.6.0", "22.01.1b3", "20.1.2.", "0x10", "latest", "dev", "beta", "stable", "7", "v2.1", "1!2.2.post1.dev3",
              "2.2.0+build.5", "2.2.0-alpha.1+b", "1.5.0a1", "2.0_rc1", "2.2.0.0.1", "1.4.9", "2.2-1", "2.2.0-1-", "2022.12.31.1",
              "20.1.2.\n", "2.2b", "2.2.1rc", "1.5.dev", "2.1.rc1", "2.1.rc.1", "2.2.0-dev.3"]
_VER_EXOTIC = list(" \n\t!Vv|٢０é²Ⅻ\x1c\xa0ABZz")


def rand_version_string(rng) -> str:
    """A random version-like string: plain random over the alphabet 0-9 . - + _ v a b r c d e x, a mutation of a valid
    string of some strategy, or sections with a prefix and a suffix."""
    r = rng.random()
    if r < 0.35:
        al = _VER_ALPHABET if rng.random() < 0.7 else _VER_ALPHABET + "0123456789...."
        return "".join(rng.choice(al) for _ in range(rng.randint(0, 10)))
    if r < 0.75:
        s = rng.choice(_VER_SEEDS)
        for _ in range(rng.randint(1, 3)):
            al = list(_VER_ALPHABET) + list("0123.") * 3
            if rng.random() < 0.2:
                al = al + _VER_EXOTIC
            k, i = rng.random(), rng.randint(0, len(s))
            if k < 0.4:
                s = s[:i] + rng.choice(al) + s[i:]
            elif k < 0.7:
                s = s[:i] + s[i + 1:]
            else:
                s = s[:i] + rng.choice(al) + s[i + 1:]
        if rng.random() < 0.1:
            s += rng.choice(["\n.", ".", " ", "\n", ".\n."])
        return s
    parts = [str(rng.choice([0, 1, 2, 3, 4, 5, 9, 10, 14, 20, 22, 2024, 100])) for _ in range(rng.randint(1, 6))]
    s = rng.choice(["", "", "", "v", "V", "|", "vv", "v.", " "]) + ".".join(parts)
    return s + rng.choice(["", "", "", "-beta", "b1", "rc1", ".dev0", "-rc.1", "+build", "a", ".", "..", "\n.", ".\n.", "-5", "_1",
                           ".post1", "-alpha.2", "dev", " ", "\t", "+a.b", "-", "x"])


def pick_type(rng, version, kind):
    v = T["versions"][version or "1.4"]
    if kind == "internal":
        return int(rng.choice(list(v["internal"])))
    return int(rng.choice(list(v["stream"])))


# presentation types: mostly the usual ones, plus the edges of every version's Presentation table (1.4 ends at 25,
# 1.5 at 35, 2.x at 39) and values in no table: the handlers record whatever number was presented
NODE_TYPES = [17, 17, 17, 17, 18, 17, 0, 6, 25, 26, 39, 40, 200]
CHILD_TYPES = [6, 3, 0, 6, 3, 0, 25, 26, 35, 36, 39, 40, 200, 17]


def gen_line(rng, version, nodes=NODES, profile=None) -> str:
    """One received line, mostly valid, built from the repo's own tables."""
    r = rng.random()
    n = rng.choice(nodes)
    c = rng.choice(CHILDREN)
    if r < 0.10:
        return f"{n};255;0;0;{rng.choice(NODE_TYPES)};{rng.choice(['2.0', '1.4', '2.2.1', 'x'])}"
    if r < 0.13:
        return f"0;255;0;0;18;{rng.choice(VERSION_PAYLOADS)}"
    if r < 0.22:
        return f"{n};{c};0;0;{rng.choice(CHILD_TYPES)};{rng.choice(['desc', '', 'a;b'])}"
    if r < 0.37:
        return f"{n};{c};1;{rng.choice([0, 0, 1])};{rng.choice(VTYPES)};{rng.choice(['20.5', '1', '', 'on;off', 'é', 'Cafe\u0301', '4.7 k\u2126', 'a\u2028b'])}"
    if r < 0.45:
        return f"{n};{c};2;{rng.choice([0, 0, 1])};{rng.choice(VTYPES)};"
    if r < 0.50:
        return f"{n};255;3;{rng.choice([0, 0, 0, 1])};0;{rng.choice(BATTERY_PAYLOADS)}"
    if r < 0.54:
        return f"{rng.choice([255, n])};{rng.choice([255, 255, c])};3;{rng.choice([0, 0, 1])};3;"
    if r < 0.57:
        return f"{n};255;3;{rng.choice([0, 0, 1])};6;{rng.choice(['', '0'])}"
    if r < 0.60:
        return f"{n};255;3;{rng.choice([0, 0, 1])};1;"
    if r < 0.64:
        return f"0;255;3;0;2;{rng.choice(VERSION_PAYLOADS)}"
    if r < 0.66:
        return f"0;255;3;0;9;log message;with delimiters"
    if r < 0.68:
        return f"0;255;3;{rng.choice([0, 0, 1])};14;Gateway startup complete."
    if r < 0.71:
        return f"{n};255;3;0;{rng.choice([11, 12])};{rng.choice(['Sketch', '1.0', ''])}"
    if r < 0.77:
        return f"{n};255;3;0;22;{rng.choice(HEARTBEAT_PAYLOADS)}"
    if r < 0.80:
        return f"{n};255;3;0;21;0"
    if r < 0.85:
        return f"{n};255;3;0;{rng.choice([32, 33, 32])};500"
    if r < 0.90:
        return f"{n};255;3;0;{rng.choice([4, 5, 7, 8, 10, 13, 15, 16, 17, 18, 19, 20, 23, 24, 25, 26, 27, 28, 29, 30, 31, 34, 40, -1])};x"
    if r < 0.94:
        return f"{n};255;4;0;{rng.choice([0, 1, 2, 3, 4, 5, 6, -1])};0102"
    return rng.choice(["", "1;2", "1;2;3", "1;255;3;0", "invalid", "256;0;0;0;0;0", "1;0;1;2;0;x", "1;255;1;0;0;x", "1;3;3;0;0;x",
                       "1;1;1;0;abc;x", "1; 1 ;1;0;+2;padded", "1;1;1;0;2"])


def gen_send(rng, version, nodes=NODES):
    r = rng.random()
    n = rng.choice(nodes + [9])
    c = rng.choice(CHILDREN)
    buffer = rng.random() < 0.8
    if r < 0.7:
        return ("send", (n, c, 1, rng.choice([0, 1]), rng.choice(VTYPES), rng.choice(["1", "0", "22.5", "a;b", ""])), buffer, ())
    if r < 0.8:
        return ("send", (n, 255, 3, 0, rng.choice([13, 18, 19, 2, 6]), ""), buffer, ())
    if r < 0.85:
        return ("send", (n, c, 2, 0, rng.choice(VTYPES), ""), buffer, ())
    if r < 0.9:
        return ("send", (n, rng.choice([c, 255]), 0, 0, 6, "d"), buffer, ())
    if r < 0.95:
        return ("send", (n, 255, 4, 0, 1, "fw"), buffer, ())
    return ("send", None, buffer, ())


def gen_preload(rng, nodes=NODES):
    pre = []
    for n in nodes:
        if rng.random() < 0.6:
            pre.append(("node", n, 17, rng.choice(["2.0", "1.4", "2.2"]), rng.choice(["", "Sk"]), rng.choice(["", "1.0"]),
                        rng.choice([0, 55, 100]), rng.choice([0, 10]), rng.random() < 0.2, rng.random() < 0.4))
            for c in CHILDREN:
                if rng.random() < 0.6:
                    pre.append(("child", n, c, c, 6, f"child {c}"))
                    for t in VTYPES:
                        if rng.random() < 0.4:
                            pre.append(("val", n, c, t, rng.choice(["20.0", "1", "x;y"])))
    return pre


def gen_faults(rng, cancel_ratio=0.0, n=None):
    return tuple(CANCEL if rng.random() < cancel_ratio else rng.random() < 0.5 for _ in range(n or rng.randint(1, 4)))


def gen_history(rng, version, length, send_ratio=0.25, fault_ratio=0.05, preload_p=0.5, nodes=NODES, cancel_ratio=0.0):
    h = Hist(version if rng.random() < 0.75 else None, rng.random() < 0.7)
    if rng.random() < preload_p:
        h.preload = gen_preload(rng, nodes)
    active = version
    for _ in range(length):
        if rng.random() < send_ratio:
            op = gen_send(rng, active, nodes)
        else:
            op = ("recv", gen_line(rng, active, nodes), (), rng.choice(TIMES))
        if rng.random() < fault_ratio:
            f = gen_faults(rng, cancel_ratio)
            op = (op[0], op[1], f, op[3]) if op[0] == "recv" else (op[0], op[1], op[2], f)
        h.ops.append(op)
    return h
