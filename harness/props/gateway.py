"""Gateway-level properties C03-C08, C10-C12, C19: histories on the real Gateway vs the Lean model,
each property compared on its own observation view (DESIGN 3.4) and judged by its own oracle —
the property's statement restated in Python over the implementation's observed trace."""

from __future__ import annotations

import calendar
import itertools
import json
import os
import re

from .. import gen, gw, lib
from ..gw import Hist
from ..lib import Corr
from .codec import ref_accepts

T = gen.TABLES
V20 = ("2.0", "2.1", "2.2")
SUPPORTED = [(1, 4), (1, 5), (2, 0), (2, 1), (2, 2)]


# ---- observation views -----------------------------------------------------------------------

_STATE_RE = re.compile(r"^(pv=\S+) (proto=\S+) nodes=\[(.*)\] ibuf=\[(.*)\] sbuf=\[(.*)\]$", re.S)


def split_state(s: str):
    """The parts of a rendered state (the implementation's or the model's); the held commands grouped per node
    (`gw.canon_state`: where they are kept, and in which order entries of different nodes went in, is not compared)."""
    m = _STATE_RE.match(gw.canon_state(s))
    if not m:
        return {"pv": s, "proto": "", "nodes": "", "ibuf": "", "sbuf": ""}
    return {"pv": m.group(1), "proto": m.group(2), "nodes": m.group(3), "ibuf": m.group(4), "sbuf": m.group(5)}


def strip_flags(nodes: str) -> str:
    """Registry view: drop the reboot and sleeping flags of every node."""
    return re.sub(r":([01]):([01]):\[", ":[", nodes)


def out_class(o: str) -> str:
    head = o.split(" W")[0]
    tok = head.split(" ")
    return "ok" if tok[0] == "ok" else " ".join(tok[:2])


def project(view: str, out: str, state: str, nofault_pv: bool = True):
    st = split_state(state)
    head, _, writes = out.partition(" W")
    if view == "class":
        return (out_class(out),)
    if view == "registry":
        return (head, strip_flags(st["nodes"]))
    if view == "version":
        return (out_class(out), st["pv"], st["proto"])
    if view == "writes":
        return (out_class(out), writes, st["ibuf"], st["sbuf"])
    if view == "ids":
        return (head, writes, ",".join(n.split(":")[0] for n in st["nodes"].split("|") if n))
    return (out, state)


def run_both(hists, corr: Corr, ctx, view: str, what: str, spec=None):
    """Implementation traces for all histories; model comparison under `view` when the model runs.
    With `spec` (a list), the driver also evaluates C06's Lean specification (`gspec`: `expectedAttempts` at the
    model's state before each received line); one list of outputs per history is appended to `spec`."""
    impl = gw.run_impl_many(hists)
    if not ctx.model_ok:
        return impl
    lines = []
    for h in hists:
        for l in gw.model_lines(h):
            if spec is not None and l.startswith("grecv "):
                lines.append("gspec " + l[len("grecv "):])
            lines.append(l)
    outs = lib.run_model(lines)
    if spec is not None:
        plain, cur = [], None
        for l, o in zip(lines, outs):
            if l.startswith("gnew "):
                cur = []
                spec.append(cur)
            if l.startswith("gspec "):
                cur.append(o)
            else:
                plain.append(o)
        outs = plain
    pos = 0
    for h, io in zip(hists, impl):
        n = gw.n_model_lines(h)
        mo = gw.model_obs(h, outs[pos:pos + n])
        pos += n
        for i, (o, (mout, mstate)) in enumerate(zip(io, mo)):
            iout = o["out"] + gw.render_writes(o["writes"]) if i else "init W"
            a, bb = project(view, iout, o["state"]), project(view, mout, gw.align_state(o["state"], mstate))
            if a != bb:
                short = Hist(h.version, h.metric, h.preload, h.ops[:i])
                corr.disagree(what, {"history": short.to_json(), "step": i, "view": view, "impl": list(a), "model": list(bb)})
                break
    return impl


# ---- helpers over an implementation trace -----------------------------------------------------


def fields_of(line: str):
    return ref_accepts(line)


def proto_tables(proto: str):
    return T["versions"][proto]


def is_wake(proto: str, f) -> bool:
    if f is None or f[2] != 3 or f[1] != 255:
        return False
    return (proto in ("2.0", "2.1") and f[4] == 22) or (proto == "2.2" and f[4] == 32)


def line_of(fields) -> str:
    n, c, cmd, ack, t, p = fields
    return f"{n};{c};{cmd};{ack};{t};{p}\n"


def histories(ctx, stream: str, n_quick: int, n_thorough: int, length=(5, 40), **kw):
    rng = lib.rng_for(ctx.seed, stream)
    n = n_quick if ctx.tier == "quick" else n_thorough
    hi = length[1] if ctx.tier == "quick" else max(length[1], 200)
    out = []
    for i in range(n):
        v = lib.VERSIONS[i % 5]
        out.append(gw.gen_history(rng, v, rng.randint(length[0], hi if i % 10 == 0 else length[1]), **kw))
    return out


def corpus_histories(prop: str):
    return ([(c, Hist.from_json(c["history"])) for c in lib.load_corpus(prop) if "history" in c]
            + [({"_file": f"tie-search-{i}"}, h) for i, h in enumerate(lib.EXTRA_HISTORIES)])


def account(corr: Corr, hists, impl, nontrivial):
    for h, io in zip(hists, impl):
        for i, op in enumerate(h.ops):
            o = io[i + 1]
            key = (h.version, h.metric, op[0], str(op[1]), str(op[2]), io[i]["state"])
            nt = nontrivial(h, op, io[i], o)
            corr.case(hash(key), nt, {"version": h.version, "op": list(op), "outcome": o["out"],
                                      "writes": [w[0] for w in o["writes"]]} if nt else None)
            corr.count("op:" + op[0])
            corr.count("outcome:" + out_class(o["out"]))


def abort_outcome(faults, writes) -> str | None:
    """The outcome a step must have when one of its write attempts did not complete: the exception of the LAST such
    attempt (a later failing write in a `finally` clause replaces an earlier exception), a transport error for a
    failing write, the CancelledError itself when the waiting task was cancelled there.  None: every attempt completed."""
    last = None
    for j, (_, ok) in enumerate(writes):
        if not ok:
            last = "foreign CancelledError" if j < len(faults) and faults[j] == gw.CANCEL else "err transportFailed"
    return last


def op_faults(op):
    return op[2] if op[0] == "recv" else op[3]


# ---- C03 --------------------------------------------------------------------------------------

PROBE = "0;255;3;0;9;still alive"


def run_c03(ctx) -> Corr:
    corr = Corr("C03", "histories of received lines (malformed stream of C02, absurd battery/heartbeat/version payloads, "
                "unknown types, every internal kind) x states (version known/unknown, node/child known/unknown, sleeping or "
                "not, preloaded registries) x 5 versions x write faults; after every error a well-formed probe line is fed and "
                "must be yielded; compared on the outcome-class view with the Lean model. non-trivial = distinct (state, line) "
                "whose outcome is an error. Plus byte histories on a real stream transport under a real Gateway (read, listen, "
                "handler, send, write in one piece; bytes that are not valid UTF-8 inside otherwise well-formed lines, later lines "
                "that make the gateway write back what it stored), counted under pipeline:*; non-trivial there = a line that is "
                "not UTF-8, an error outcome, or a non-ASCII write")
    rng = lib.rng_for(ctx.seed, "c03")
    hists = [h for _, h in corpus_histories("C03")]
    hists += histories(ctx, "c03h", 250, 4000, send_ratio=0.1, fault_ratio=0.08)
    # ... and with the listening / sending task cancelled while it waits in a transport write
    hists += histories(ctx, "c03c", 120, 2000, send_ratio=0.2, fault_ratio=0.3, cancel_ratio=0.5)
    # targeted: every absurd payload x node known/unknown x version known/unknown x 5 versions
    from .codec import malformed_lines
    mal = [l for l, _ in malformed_lines(lib.rng_for(ctx.seed, "c03m"), "quick") if len(l) < 200][:: (7 if ctx.tier == "quick" else 1)]
    for v in lib.VERSIONS:
        for known in (True, False):
            for pv in (v, None):
                h = Hist(pv, True)
                if known:
                    h.preload = [("node", 1, 17, "2.0", "", "", 0, 0, False, False), ("child", 1, 0, 0, 6, "c")]
                # quick tier: every version payload is used, but spread over the 20 (version, known, pv) combinations
                combo = len(hists)
                vps = gw.VERSION_PAYLOADS if ctx.tier != "quick" else gw.VERSION_PAYLOADS[combo % 5::5]
                lines = ([f"1;255;3;0;0;{p}" for p in gw.BATTERY_PAYLOADS] + [f"1;255;3;0;22;{p}" for p in gw.HEARTBEAT_PAYLOADS]
                         + [f"0;255;3;0;2;{p}" for p in vps] + [f"0;255;0;0;18;{p}" for p in vps]
                         + [f"1;255;3;0;{t};x" for t in range(-1, 36)] + [f"1;255;4;0;{t};x" for t in range(-1, 8)])
                for l in lines:
                    h.ops.append(("recv", l, (), gw.DEFAULT_TIME))
                    h.ops.append(("recv", PROBE, (), gw.DEFAULT_TIME))
                hists.append(h)
    h = Hist("2.2", True)
    for l in mal:
        h.ops.append(("recv", l, (), gw.DEFAULT_TIME))
        h.ops.append(("recv", PROBE, (), gw.DEFAULT_TIME))
    hists.append(h)
    # 'whatever state the controller is in': registries that are full or nearly full, with and without the gateway's
    # own node 0 and the broadcast id 255, every kind of line that looks at the registry as a whole
    for vi, (lo, hi) in enumerate(((1, 254), (0, 254), (0, 253), (1, 253), (2, 254), (0, 255), (1, 255))):
        for pv in ((lib.VERSIONS[vi % 5], None) if ctx.tier == "quick" else tuple(lib.VERSIONS) + (None,)):
            h = Hist(pv, True, [("node", n, 17, "2.0", "", "", 0, 0, False, False) for n in range(lo, hi + 1)])
            for l in ("255;255;3;0;3;", "255;255;3;0;3;", "9;255;3;0;3;", "254;255;0;0;17;2.0", "255;255;3;0;3;", "0;255;0;0;18;2.1.0",
                      "255;255;3;0;3;", "0;255;3;0;14;ready", "254;255;3;0;0;50"):
                h.ops.append(("recv", l, (), gw.DEFAULT_TIME))
                h.ops.append(("recv", PROBE, (), gw.DEFAULT_TIME))
            hists.append(h)
    impl = run_both(hists, corr, ctx, "class", "outcome class")
    for h, io in zip(hists, impl):
        for i, op in enumerate(h.ops):
            o = io[i + 1]
            cancelled = o["out"] == "foreign CancelledError" and op[0] != "session" and gw.CANCEL in op_faults(op) \
                and abort_outcome(op_faults(op), o["writes"]) == "foreign CancelledError"
            if o["out"].startswith("foreign") and not cancelled:
                corr.violate("an exception that is not derived from the library's base class escaped",
                             {"history": Hist(h.version, h.metric, h.preload, h.ops[: i + 1]).to_json(), "outcome": o["out"]})
            if op[0] == "recv" and op[1] == PROBE and not op[2] and not o["out"].startswith("ok"):
                if not (o["out"].startswith("err transportFailed")):
                    corr.violate("after an error the next well-formed line was not processed normally",
                                 {"history": Hist(h.version, h.metric, h.preload, h.ops[: i + 1]).to_json(), "outcome": o["out"]})
    account(corr, hists, impl, lambda h, op, before, o: not o["out"].startswith("ok"))
    _stream_bytes(corr, ctx)
    _concurrent_sends(corr, ctx)
    # the whole pipeline bytes -> StreamTransport.read -> listen -> handler -> send -> StreamTransport.write on one real
    # stream transport, as multi-step byte histories (what is stored from one line is written back because of a later one)
    from . import bytepipe
    bytepipe.run(corr, ctx)
    # the same pipeline when the far end is slow: drains, reads and closes that stay pending for stretches of virtual
    # time (0 s ... a day ... for ever) while the handlers answer, on an event loop with a virtual clock
    from . import stall
    stall.run(corr, ctx)
    return corr


def _concurrent_sends(corr: Corr, ctx) -> None:
    """'Whatever state the controller is in' includes the states other tasks create while the listener is suspended
    in a transport write: application tasks calling send during the release of a woken node's commands (same and new
    keys).  Every interleaving of one wake with <= 2 calls and 1-2 parked commands (the C09 machinery): the listener
    and the senders may only ever raise library errors."""
    import asyncio

    from . import flushrace as fr

    cases = []
    vi = 0
    for parked, shape in fr.configs(range(1, 3), range(1, 3), fr.one_task):
        for sched in fr.enumerate_schedules(fr.Case("2.0", parked, shape)):
            cases.append(fr.Case(fr.WAKE_VERSIONS[vi % 3], parked, shape, sched, "c03-concurrent"))
            vi += 1
    if ctx.tier == "quick":
        cases = cases[::3]
    lib_names = {"MissingNodeError", "MissingChildError", "TooManyNodesError", "InvalidMessageError", "UnsupportedMessageError",
                 "TransportError", "TransportReadError", "TransportFailedError", "AIOMySensorsError"}

    async def go():
        for case in cases:
            try:
                _obs, _bad, info = await fr.run_case(case)
            except fr.HarnessBug as err:
                corr.notes.append(f"concurrent-send case not executable: {str(err)[:200]}")
                continue
            foreign = [e for e in info["errors"] if e.split(" ")[-1] not in lib_names]
            if foreign:
                corr.violate("a non-library exception escaped while send calls ran concurrently with the listener's writes",
                             {**case.to_json(), "errors": foreign})
            corr.case(("concurrent", case.version, str(case.parked), str(case.senders), " ".join(case.schedule)), True, None)
            corr.count("concurrent-send-schedules")
    asyncio.run(go())


def _stream_bytes(corr: Corr, ctx) -> None:
    """Byte sequences on a stream transport under a real Gateway.listen: only library errors."""
    import asyncio

    from aiomysensors import exceptions as exc
    from aiomysensors.gateway import Gateway
    from unittest import mock

    from aiomysensors.transport import tcp as tcp_mod
    from aiomysensors.transport.tcp import TCPTransport

    def Mem(data: bytes):
        """A stream transport over an in-memory reader holding `data`: the base class through its abstract hook while
        that (private) hook has the known shape, else a TCP transport whose `asyncio.open_connection` is this opener."""
        async def opener(**_kw):
            r = asyncio.StreamReader(limit=64)
            r.feed_data(data)
            r.feed_eof()

            class W:
                def write(self, b): pass
                async def drain(self): pass
                def close(self): pass
                async def wait_closed(self): pass
            return r, W()

        direct = lib.direct_stream_transport(opener)
        if direct is not None:
            return direct
        tr = TCPTransport("mem.example", 5003)
        connect = tr.connect

        async def connect_in_memory():
            with mock.patch.object(tcp_mod.asyncio, "open_connection", opener):
                await connect()
        tr.connect = connect_in_memory     # the harness calls connect() itself (never inside a Gateway context here)
        return tr

    datas = [b"\xff\xfe\n", b"1;255;3;0;9;ok\n\xc3\n", b"0;255;3;0;9;\xe2\x82\n", b"no newline", b"", b"x" * 100 + b"\n",
             b"1;2;3\n", b"\n\n", b"0;255;3;0;9;caf\xc3\xa9\n", b"\xed\xa0\x80\n", b"\xf4\x90\x80\x80\n", b"\xc0\xaf\n"]

    async def go():
        for d in datas:
            tr = Mem(d)
            g = Gateway(tr)
            await tr.connect()
            for _ in range(4):
                try:
                    await anext(g.listen())
                    out = "ok"
                except exc.AIOMySensorsError as e:
                    out = "lib " + type(e).__name__
                except BaseException as e:  # noqa: BLE001
                    out = "foreign " + type(e).__name__
                    corr.violate("a non-library exception escaped listen() on a stream transport",
                                 {"bytes": d.hex(), "outcome": out})
                corr.case(("bytes", d.hex(), _), True, None)
                corr.count("stream:" + out.split(" ")[0])
        # bytes that arrive in pieces while a read is in progress (no end of stream): runs without a newline several
        # times the reader's limit, then a terminator and a well-formed line
        for chunks in ([b"x" * 200, b"y" * 200, b"\n0;255;3;0;9;ok\n"], [b"x" * 70, b"y" * 70, b"z" * 70, b"\n"],
                       [b"x" * 200 + b"\n", b"0;255;3;0;9;ok\n"], [b"0;255;3;0;9;" + b"p" * 100, b"q" * 100 + b"\n0;255;3;0;9;ok\n"],
                       [b"\xff" * 100, b"\xfe" * 100, b"\n"]):
            tr = Mem(b"")
            g = Gateway(tr)
            await tr.connect()
            reader = tr.reader
            reader._eof = False          # noqa: SLF001  the connection stays open: more may arrive
            pending = list(chunks)
            for attempt in range(6):
                task = asyncio.ensure_future(anext(g.listen()))
                for _ in range(40):
                    await asyncio.sleep(0)
                    if task.done():
                        break
                    if pending and not len(reader._buffer):   # noqa: SLF001
                        reader.feed_data(pending.pop(0))
                if not task.done():
                    if pending:
                        reader.feed_data(pending.pop(0))
                        for _ in range(40):
                            await asyncio.sleep(0)
                            if task.done():
                                break
                if not task.done():
                    task.cancel()
                    await asyncio.wait([task], timeout=1)
                    corr.count("stream-chunks:still-waiting")
                    continue
                try:
                    task.result()
                    out = "ok"
                except exc.AIOMySensorsError as e:
                    out = "lib " + type(e).__name__
                except BaseException as e:  # noqa: BLE001
                    out = "foreign " + type(e).__name__
                    corr.violate("a non-library exception escaped listen() on a stream transport fed in pieces",
                                 {"chunks": [c[:8].hex() + f"..({len(c)} bytes)" for c in chunks], "attempt": attempt, "outcome": out})
                corr.case(("chunks", len(chunks), chunks[0][:4].hex(), attempt), True, None)
                corr.count("stream-chunks:" + out.split(" ")[0])
    asyncio.run(go())


# ---- C04 --------------------------------------------------------------------------------------


def ref_registry_step(reg: dict, f, proto: str, out: str):
    """The registry after a decoded line, in the property's words.  Returns (registry, expected error or None)."""
    n, c, cmd, ack, t, p = f
    reg = {k: {**v, "children": {ck: {**cv, "values": dict(cv["values"])} for ck, cv in v["children"].items()}} for k, v in reg.items()}
    if cmd == 0:
        if c == 255:
            reg[n] = {"type": t, "pv": p, "sn": "", "sv": "", "bat": 0, "hb": 0, "children": {}}
            return reg, None
        if n not in reg:
            return reg, f"err missingNode {n}"
        reg[n]["children"][c] = {"cid": c, "type": t, "desc": p, "values": {}}
        return reg, None
    if cmd in (1, 2):
        if n not in reg:
            return reg, f"err missingNode {n}"
        if c not in reg[n]["children"]:
            return reg, f"err missingChild {c}"
        if cmd == 1:
            reg[n]["children"][c]["values"][t] = p
        return reg, None
    if cmd == 3:
        names = proto_tables(proto)["internal"]
        if str(t) not in names:
            return reg, "err unsupported"
        name = names[str(t)]
        if name == "I_ID_REQUEST":
            nid = max(reg) + 1 if reg else 1
            if nid <= 254:
                reg[nid] = {"type": 17, "pv": "1.4", "sn": "", "sv": "", "bat": 0, "hb": 0, "children": {}}
                return reg, None
            return reg, "err tooManyNodes"
        needs_node = name in ("I_BATTERY_LEVEL", "I_SKETCH_NAME", "I_SKETCH_VERSION") or (
            proto in V20 and name in ("I_DISCOVER_RESPONSE", "I_HEARTBEAT_RESPONSE")) or (
            proto == "2.2" and name == "I_PRE_SLEEP_NOTIFICATION")
        if needs_node and n not in reg:
            return reg, f"err missingNode {n}"
        # a report is recorded when its payload is valid; a write failing later in the step (version query,
        # released command) is reported as a transport error but does not undo the record
        if name == "I_BATTERY_LEVEL":
            try:
                level = round(float(p))
            except (ValueError, OverflowError):
                level = None
            if level is not None and 0 <= level <= 100:
                reg[n]["bat"] = level
        elif name == "I_SKETCH_NAME":
            reg[n]["sn"] = p
        elif name == "I_SKETCH_VERSION":
            reg[n]["sv"] = p
        elif name == "I_HEARTBEAT_RESPONSE" and proto in V20:
            try:
                reg[n]["hb"] = int(p)
            except ValueError:
                pass
        return reg, None
    if cmd == 4 and n not in reg:
        return reg, f"err missingNode {n}"
    return reg, None


def reg_view(nodes: dict):
    return {k: {"type": v["type"], "pv": v["pv"], "sn": v["sn"], "sv": v["sv"], "bat": v["bat"], "hb": v["hb"],
                "children": {ck: {"cid": cv["cid"], "type": cv["type"], "desc": cv["desc"], "values": cv["values"]}
                             for ck, cv in v["children"].items()}} for k, v in nodes.items()}


def _spec_compare(hists, impl, corr: Corr) -> None:
    """The implementation's registry and active protocol after every operation against the abstract
    specification (`Model/RegistrySpec.lean`, driver command `srecv`): the specification sees the received lines
    only — no faults, no sends, no buffers.  (Lean theorem `history_refines_spec` ties the handler model to it.)"""
    lines, counts = [], []
    for h in hists:
        setup = gw.model_lines(h)[: 1 + len(h.preload)]
        recvs = [f"srecv {lib.enc(op[1])}" for op in h.ops if op[0] == "recv"]
        lines += setup + ["sdump"] + recvs
        counts.append((len(setup), len(recvs)))
    outs = lib.run_model(lines)
    pos = 0
    for h, io, (ns, nr) in zip(hists, impl, counts):
        if any(o != "ok" for o in outs[pos:pos + ns]):
            raise lib.ModelError("model rejected a setup operation")
        spec = outs[pos + ns: pos + ns + 1 + nr]
        pos += ns + 1 + nr
        k = 0
        for i, o in enumerate(io):
            if i and h.ops[i - 1][0] == "recv":
                k += 1
            st = split_state(o["state"])
            got = f"{st['proto']} nodes=[{st['nodes']}]"
            if got != spec[k]:
                corr.disagree("registry specification", {"history": Hist(h.version, h.metric, h.preload, h.ops[:i]).to_json(),
                                                         "step": i, "impl": got, "spec": spec[k]})
                break


def run_c04(ctx) -> Corr:
    corr = Corr("C04", "histories of received lines over 3 nodes x 3 children x 3 value types with interleaved (re)presentations, "
                "sets, reqs, battery/sketch/heartbeat reports, id requests, malformed and unsupported lines, write faults, "
                "empty and preloaded registries x 5 versions; compared on the registry view (outcome incl. the id an error names, "
                "yielded fields, node attributes, children, values) with the Lean model, and registry + active protocol after every "
                "operation with the abstract registry specification fed the received lines only; oracle = the registry the property "
                "describes, maintained independently. non-trivial = distinct (state, line) that changes the registry or fails "
                "with a missing-node/child error")
    hists = [h for _, h in corpus_histories("C04")] + histories(ctx, "c04h", 300, 5000, send_ratio=0.05, fault_ratio=0.08, cancel_ratio=0.4)
    if ctx.tier == "thorough":
        hists += _exhaustive_histories(3)
    impl = run_both(hists, corr, ctx, "registry", "registry view")
    if ctx.model_ok:
        _spec_compare(hists, impl, corr)
    for h, io in zip(hists, impl):
        ref = reg_view(io[0]["nodes"])
        for i, op in enumerate(h.ops):
            before, o = io[i], io[i + 1]
            if op[0] != "recv":
                if reg_view(o["nodes"]) != ref:
                    corr.violate("a send call changed the registry", {"history": Hist(h.version, h.metric, h.preload, h.ops[: i + 1]).to_json()})
                    break
                continue
            f = fields_of(op[1])
            case = {"history": Hist(h.version, h.metric, h.preload, h.ops[: i + 1]).to_json(), "outcome": o["out"]}
            if f is None:
                if reg_view(o["nodes"]) != ref:
                    corr.violate("a rejected line changed the registry", case)
                    break
                continue
            new, err = ref_registry_step(ref, f, before["proto"], o["out"])
            if o["out"].startswith("ok"):
                want = f"ok {f[0]} {f[1]} {f[2]} {f[3]} {f[4]} {lib.enc(f[5])}"
                if o["out"] != want:
                    corr.violate("the yielded message does not carry the decoded field values", {**case, "want": want})
                    break
            if err is not None and err.startswith("err missing"):
                if o["out"] != err and o["out"] != abort_outcome(op[2], o["writes"]):
                    corr.violate("a message for an unknown node/child did not fail with the error naming it", {**case, "want": err})
                    break
                new = ref
            got = reg_view(o["nodes"])
            if got != new:
                if o["out"].startswith("err invalidMessage") and got == ref:
                    pass  # an absurd payload was rejected and changed nothing
                elif f[2] == 0 and f[1] == 255 and f[0] == 0 and got == new:
                    pass
                else:
                    corr.violate("the registry is not what was presented and reported", {**case, "registry": str(got)[:400], "want": str(new)[:400]})
                    break
            ref = got
    account(corr, hists, impl, lambda h, op, before, o: strip_flags(split_state(before["state"])["nodes"]) != strip_flags(split_state(o["state"])["nodes"]) or "missing" in o["out"])
    return corr


def _exhaustive_histories(depth: int):
    """Every history of length <= depth over a small alphabet, per version."""
    alpha = ["1;255;0;0;17;2.0", "1;0;0;0;6;d", "1;0;1;0;0;5", "1;0;2;0;0;", "1;255;3;0;0;57", "1;255;3;0;22;10", "1;255;3;0;32;1",
             "255;255;3;0;3;", "2;0;1;0;0;9", "1;255;3;0;11;S"]
    out = []
    for v in lib.VERSIONS:
        for k in range(1, depth + 1):
            for combo in itertools.product(alpha, repeat=k):
                out.append(Hist(v, True, [], [("recv", l, (), gw.DEFAULT_TIME) for l in combo]))
    return out


# ---- C05 --------------------------------------------------------------------------------------


def ref_select(s: str):
    """Newest supported protocol whose major.minor does not exceed the release version `s`; None if `s` is no release version."""
    parts = s.split(".")
    if not (2 <= len(parts) <= 4) or not all(p.isascii() and p.isdigit() for p in parts) or any(len(p) > 4300 for p in parts):
        return None
    x = (int(parts[0]), int(parts[1]))
    best = (1, 4)
    for k in SUPPORTED:
        if k <= x:
            best = k
    return f"{best[0]}.{best[1]}"


def version_grid():
    out = []
    for major in (0, 1, 2, 3, 10):
        for minor in (0, 1, 2, 3, 4, 5, 10):
            out.append(f"{major}.{minor}")
            for patch in (0, 2, 11):
                out.append(f"{major}.{minor}.{patch}")
                out.append(f"{major}.{minor}.{patch}.{patch + 1}")
    return out


REJECTED = ["garbage", "", "2.0-beta", "9" * 5000 + ".1", "2..1", "-2.1", "+2.1", "2.-1", "2_0.1", "1e1.0", "2.2a", "2.2.x", "a.b"]


def av_select(s: str):
    """The property's core on awesomeversion's own order, restated over the real `AwesomeVersion` objects: the first
    supported key, newest first, that `s` is not below (`get_protocol`'s lazy search), 1.4 when there is none; the
    exception class when a comparison that is reached raises.  Returns ("ok", version) / ("exc", class name), plus the
    strategy and the five comparison results (each evaluated on its own) as the Lean driver's `avs` prints them."""
    from awesomeversion import AwesomeVersion

    res = []
    for k in reversed(SUPPORTED):
        try:
            res.append("T" if AwesomeVersion(s) < AwesomeVersion(f"{k[0]}.{k[1]}") else "F")
        except Exception as e:  # noqa: BLE001
            res.append(type(e).__name__)
    want = ("ok", "1.4")
    for k, r in zip(reversed(SUPPORTED), res):
        if r == "F":
            want = ("ok", f"{k[0]}.{k[1]}")
            break
        if r != "T":
            want = ("exc", r)
            break
    view = AwesomeVersion(s).strategy.value.replace(" ", "") + "".join(" " + r for r in res)
    return want, view


def real_select(s: str):
    from aiomysensors.model.protocol import get_protocol

    try:
        return ("ok", get_protocol(s).VERSION)
    except Exception as e:  # noqa: BLE001
        return ("exc", type(e).__name__)


_WANT_CACHE: dict = {}


def want_protocol(s: str):
    """The protocol the property asks for after `s` was reported; None = the report must be rejected."""
    if s not in _WANT_CACHE:
        rel = ref_select(s)
        _WANT_CACHE[s] = rel if rel is not None else (lambda w: w[1] if w[0] == "ok" else None)(av_select(s)[0])
    return _WANT_CACHE[s]


def run_c05(ctx) -> Corr:
    corr = Corr("C05", "get_protocol over the complete grid major{0,1,2,3,10} x minor{0..5,10} x [patch] x [build] (196 release "
                "strings), a structured corpus of about 300 version strings of every awesomeversion strategy (plain integers, "
                "prefixes, SemVer / PEP 440 modifiers, calendar and hexadecimal versions, containers, white space, non-ASCII digits, "
                "1-6 sections, the int() digit limit, the IndexError class) and random strings over 0-9.-+_vabrcdex, mutations of "
                "valid strings and prefixed/suffixed sections (2 000 quick / 20 000 thorough per seed): outcome (protocol or "
                "exception class), strategy and each of the five comparisons compared with the Lean model of awesomeversion; a "
                "gateway fed version replies / gateway presentations with these strings in all orders mixed with other traffic, "
                "and the type gate over every type number -1..40 x 5 versions x {internal, stream}, compared on the version view "
                "(outcome class, reported version, active protocol); gateways configured with a persistence file run through several "
                "sessions on one file (file absent / empty / aiomysensors or pymysensors layout, with and without the gateway's own "
                "node 0 carrying a selectable or unselectable version, other nodes; a new Gateway object per run or the same object "
                "entered again; type-gate probes and traffic before any version report, then reports): after entering, after every "
                "operation and after leaving, the reported version must be the last accepted report seen by that object (None for a "
                "new object) and the active protocol the one selected for it, the gate judged against that protocol; "
                "schedules over 2-4 Gateway objects alive in one process (constructed at any point of the schedule, each fed its "
                "own version reports - every ordered pair of 2.3.2/2.2.0/2.1.1/2.0.0/1.5.1/1.4.9, every order of three gateways' "
                "reports, random interleavings with grid/corpus strings, rejected reports, gate sweeps, traffic and sends): after "
                "every step every live gateway must show the last version IT reported and the protocol selected for it, and its "
                "type gates follow that protocol. "
                "Oracle = numeric major.minor selection on the release grammar, "
                "and on every string the newest key the string is not below in awesomeversion's order. non-trivial = distinct "
                "version string or (version, type) pair")
    grid = version_grid()
    rng = lib.rng_for(ctx.seed, "c05s")
    n_rand = 2000 if ctx.tier == "quick" else 20000
    rand = [gw.rand_version_string(rng) for _ in range(n_rand)]
    corpus = list(dict.fromkeys(grid + REJECTED + gw.VERSION_CORPUS))
    strings = corpus + rand
    ops = []
    impl_sel = {}
    for s in dict.fromkeys(strings):
        got = real_select(s)
        want_av, view = av_select(s)
        impl_sel[s] = (got, view)
        rel = ref_select(s)
        case = {"version_string": s[:60], "length": len(s), "selected": list(got)}
        if rel is not None and got != ("ok", rel):
            corr.violate("get_protocol does not select the newest supported protocol not newer than the reported version",
                         {**case, "want": rel})
        elif got != want_av:
            corr.violate("get_protocol does not select the newest supported protocol the reported version is not below "
                         "(awesomeversion's order)", {**case, "want": list(want_av), "comparisons": view})
        ops.append(f"sel {lib.enc(s)}")
        ops.append(f"avs {lib.enc(s)}")
        corr.case(("sel", s), True, {"version_string": s[:40], "selected": list(got), "awesomeversion": view})
        corr.count("select:" + ("release" if rel is not None else view.split(" ")[0]) + ":" + (got[1] if got[0] == "exc" else "ok"))
    if ctx.model_ok:
        outs = lib.run_model(ops)
        for i, s in enumerate(dict.fromkeys(strings)):
            got, view = impl_sel[s]
            msel, mview = outs[2 * i], outs[2 * i + 1]
            if msel != f"{got[0]} {got[1]}":
                corr.disagree("select", {"version_string": s[:60], "length": len(s), "model": msel, "impl": f"{got[0]} {got[1]}"})
            elif mview != view:
                corr.disagree("awesomeversion view (strategy, then s < key for 2.2, 2.1, 2.0, 1.5, 1.4)",
                              {"version_string": s[:60], "length": len(s), "model": mview, "impl": view})
    # histories of version reports mixed with other traffic
    rng = lib.rng_for(ctx.seed, "c05")
    hists = [h for _, h in corpus_histories("C05")]
    n = 120 if ctx.tier == "quick" else 2000
    short = [s for s in corpus if len(s) <= 80]
    for i in range(n):
        h = Hist(rng.choice([None, None, "2.0", "1.4"]), True)
        if rng.random() < 0.5:
            h.preload = gw.gen_preload(rng)
        for _ in range(rng.randint(3, 14)):
            r = rng.random()
            k = rng.random()
            s = rng.choice(grid) if k < 0.45 else rng.choice(short) if k < 0.8 else gw.rand_version_string(rng)
            if r < 0.35:
                h.ops.append(("recv", f"0;255;3;0;2;{s}", (), gw.DEFAULT_TIME))
            elif r < 0.55:
                h.ops.append(("recv", f"0;255;0;0;18;{s}", (), gw.DEFAULT_TIME))
            elif r < 0.9:
                h.ops.append(("recv", gw.gen_line(rng, "2.2"), (), gw.DEFAULT_TIME))
            else:
                h.ops.append(gw.gen_send(rng, "2.2"))
        hists.append(h)
    # every corpus string once as a version reply and once as the gateway's presentation, version unknown
    for j in range(0, len(corpus), 12):
        h = Hist(None, True)
        for s in corpus[j:j + 12]:
            h.ops.append(("recv", f"0;255;3;0;2;{s}", (), gw.DEFAULT_TIME))
            h.ops.append(("recv", f"0;255;0;0;18;{s}", (), gw.DEFAULT_TIME))
        hists.append(h)
    # the type gate (the version reply with payload "7" comes last: awesomeversion accepts a plain integer, which
    # would switch the protocol under the rest of the sweep)
    for v in lib.VERSIONS:
        h = Hist(v, True, [("node", 1, 17, "2.0", "", "", 0, 0, False, False)])
        for t in range(-1, 41):
            if t != 2:
                h.ops.append(("recv", f"1;255;3;0;{t};7", (), gw.DEFAULT_TIME))
            h.ops.append(("recv", f"1;255;4;0;{t};7", (), gw.DEFAULT_TIME))
        h.ops.append(("recv", "1;255;3;0;2;7", (), gw.DEFAULT_TIME))
        h.ops.append(("recv", "1;255;3;0;2;2", (), gw.DEFAULT_TIME))
        hists.append(h)
    impl = run_both(hists, corr, ctx, "version", "version view")
    want_of = want_protocol

    for h, io in zip(hists, impl):
        for i, op in enumerate(h.ops):
            before, o = io[i], io[i + 1]
            case = {"history": Hist(h.version, h.metric, h.preload, h.ops[: i + 1]).to_json(), "outcome": o["out"],
                    "reported": (o["pv"] or "")[:60], "active": o["proto"]}
            if o["pv"] is None:
                if o["proto"] != "1.4":
                    corr.violate("no version reported yet but the active protocol is not 1.4", case)
                    break
            else:
                want = want_of(o["pv"])
                if want is None or o["proto"] != want:
                    corr.violate("the reported version and the active protocol disagree", {**case, "want": want})
                    break
            if op[0] == "recv":
                f = fields_of(op[1])
                if f is not None and ((f[2] == 3 and f[4] == 2) or (f[2] == 0 and f[0] == 0 and f[1] == 255)):
                    want = want_of(f[5])
                    if want is None and (o["pv"], o["proto"]) != (before["pv"], before["proto"]):
                        corr.violate("a rejected version report changed the reported version or the active protocol", case)
                        break
                    if want is None and not op[2] and o["out"] != "err invalidMessage":
                        corr.violate("a rejected version report is not an invalid-message error", case)
                        break
                    if want is not None and not op[2] and (o["pv"], o["proto"]) != (f[5], want):
                        corr.violate("an accepted version report did not install the matching protocol", {**case, "want": want})
                        break
                if f is not None and f[2] == 3 and f[1] == 255 and not op[2]:
                    exists = str(f[4]) in proto_tables(before["proto"])["internal"]
                    if exists == (o["out"] == "err unsupported"):
                        corr.violate("internal type gate: a type of the active protocol refused, or an unknown one accepted", case)
                        break
                if f is not None and f[2] == 4 and f[1] == 255 and not op[2] and f[0] in before["nodes"]:
                    exists = str(f[4]) in proto_tables(before["proto"])["stream"]
                    if exists == (o["out"] == "err unsupported"):
                        corr.violate("stream type gate: a type of the active protocol refused, or an unknown one accepted", case)
                        break
    account(corr, hists, impl, lambda h, op, before, o: (before["pv"], before["proto"]) != (o["pv"], o["proto"]) or "unsupported" in o["out"])
    # sessions of gateways configured with a persistence file: what an earlier run left on disk is not a version report
    from . import versessions
    versessions.run(corr, ctx, grid, short, want_protocol, fields_of, proto_tables, project)
    # several gateways alive in one process: every gateway follows the version IT reported, whatever the others were told
    from . import multigw
    multigw.run(corr, ctx, grid, short, want_protocol, fields_of, proto_tables, project)
    corr.exhaustive = False
    return corr


# ---- C06 / C07 / C10: expected writes of one received line -----------------------------------


def expected_writes(before, f, h: Hist, now, out: str):
    """The writes the properties C06, C07 and C10 allow for one decoded line, in order."""
    n, c, cmd, ack, t, p = f
    proto = before["proto"]
    nodes = before["nodes"]
    names = proto_tables(proto)["internal"]
    w = []
    name = names.get(str(t)) if cmd == 3 else None
    missing = False
    if cmd == 0 and c != 255 and n not in nodes:
        missing = True
    if cmd in (1, 2):
        if n not in nodes or c not in nodes[n]["children"]:
            missing = True
        elif cmd == 1 and nodes[n]["reboot"]:
            w.append(f"{n};255;3;0;13;\n")
        elif cmd == 2 and t in nodes[n]["children"][c]["values"]:
            w.append(f"{n};{c};1;0;{t};{nodes[n]['children'][c]['values'][t]}\n")
    if cmd == 4 and n not in nodes:
        missing = True
    if cmd == 3 and name is not None:
        if name == "I_ID_REQUEST" and (max(nodes) + 1 if nodes else 1) <= 254:
            w.append(f"{n};{c};3;0;4;{max(nodes) + 1 if nodes else 1}\n")
        elif name == "I_CONFIG":
            w.append(f"{n};{c};3;0;{t};{'M' if h.metric else 'I'}\n")
        elif name == "I_TIME":
            w.append(f"{n};{c};3;0;{t};{calendar.timegm(tuple(now) + (0, 0, 0))}\n")
        elif name == "I_GATEWAY_READY" and proto in V20:
            w.append(f"255;{c};3;0;20;\n")
        elif name in ("I_BATTERY_LEVEL", "I_SKETCH_NAME", "I_SKETCH_VERSION") and n not in nodes:
            missing = True
        elif proto in V20 and name in ("I_DISCOVER_RESPONSE", "I_HEARTBEAT_RESPONSE") and n not in nodes:
            missing = True
        elif proto == "2.2" and name == "I_PRE_SLEEP_NOTIFICATION" and n not in nodes:
            missing = True
        elif is_wake(proto, f) and n in nodes and out.startswith("ok") or (is_wake(proto, f) and n in nodes and "transportFailed" in out):
            for (k, payload) in before["sbuf"]:
                if k[0] == n:
                    w.append(f"{k[0]};{k[1]};1;__ACK__;{k[2]};{payload}\n")
    if missing and proto in V20 and (n, 255, 19) not in [tuple(k) for k in before["ibuf"]]:
        w.append(f"{n};255;3;0;19;\n")
    return w, missing


def specified_writes(before, o, f, h, now):
    """(the writes the property specifies for the decoded line `f` received in the state `before` and ending in the
    observation `o`, do the observed write attempts equal them).  `h` supplies the configuration (`h.metric`)."""
    got = [line for line, _ in o["writes"]]
    want, _ = expected_writes(before, f, h, now, o["out"])
    # version query: unknown before, still unknown after, message not log / gateway ready
    if before["pv"] is None and o["pv"] is None and not (f[2] == 3 and f[4] in (9, 14)):
        want = want + ["0;255;3;0;2;\n"]
    norm = [re.sub(r"^(\d+;\d+;1;)[01];", r"\1__ACK__;", g) if "__ACK__" in wl else g for g, wl in zip(got, want + [""] * len(got))]
    return want, len(got) == len(want) and norm == want


def check_writes(corr: Corr, h: Hist, io, i, op, what_prefix: str, only=None):
    """Compare the observed writes of a fault-free receive step with the expected ones."""
    before, o = io[i], io[i + 1]
    f = fields_of(op[1])
    got = [line for line, _ in o["writes"]]
    case = {"history": Hist(h.version, h.metric, h.preload, h.ops[: i + 1]).to_json(), "outcome": o["out"], "writes": got}
    if f is None:
        if got:
            corr.violate(what_prefix + "a rejected line produced writes", case)
            return False
        return True
    want, ok = specified_writes(before, o, f, h, op[3])
    if not ok:
        corr.violate(what_prefix + "the writes are not exactly the specified reactions", {**case, "want": want})
        return False
    return True


def run_c06(ctx) -> Corr:
    corr = Corr("C06", "histories x registry states (stored value present/absent, reboot flag, metric/imperial, version "
                "known/unknown, requester sleeping or not) x 5 versions x instants incl. leap day, 2038, DST change, year end; "
                "compared on the writes view (write attempts per step, both buffers) with the Lean model; oracle = the reaction "
                "table of the property restated in Python (id response, config, time via calendar.timegm, value reply, discover, "
                "reboot, presentation request, released commands, version query); in addition the write attempts of every "
                "received line are compared with the Lean specification expectedAttempts (Model/WriteSpec.lean, theorem "
                "writes_eq_attempts) evaluated by the driver at the state before the line. non-trivial = distinct (state, line) "
                "that produces at least one write; plus (oracle only, props/quietwrites.py) the write log over whole sessions "
                "of gateways with a persistence file written beforehand (absent, empty, placeholder, 1.x, 2.x, sleeping, mixed; "
                "both layouts): entering, idling on virtual time, leaving, entering again (same / new object) must write "
                "nothing, every received line exactly its specified reactions")
    hists = [h for _, h in corpus_histories("C06")] + histories(ctx, "c06h", 300, 5000, send_ratio=0.15, fault_ratio=0.0)
    # failing writes: only the comparison with the Lean specification (expectedAttempts) looks at these steps
    hists += histories(ctx, "c06f", 60, 1000, send_ratio=0.3, fault_ratio=0.3, cancel_ratio=0.35)
    # time zones: the handler uses time.localtime(); the harness substitutes broken-down local times directly
    rng = lib.rng_for(ctx.seed, "c06t")
    for v in lib.VERSIONS:
        h = Hist(v, rng.random() < 0.5)
        for now in gw.TIMES + [(rng.randint(1971, 2099), rng.randint(1, 12), rng.randint(1, 28), rng.randint(0, 23), rng.randint(0, 59), rng.randint(0, 59)) for _ in range(20)]:
            h.ops.append(("recv", "5;255;3;0;1;", (), now))
        hists.append(h)
    # version unknown (and known) x every outcome class a decoded message can end in: yielded, missing node,
    # missing child, unsupported type, invalid payload, too many nodes (registry holding id 254), log / gateway ready
    for v in lib.VERSIONS:
        for pv in (None, v):
            for full in (False, True):
                h = Hist(pv, True, [("node", 1, 17, "2.0", "", "", 0, 0, False, False), ("child", 1, 0, 0, 6, "c"),
                                    ("val", 1, 0, 2, "7")])
                if full:
                    h.preload.append(("node", 254, 17, "2.0", "", "", 0, 0, False, False))
                for line in ["255;255;3;0;3;", "1;0;1;0;2;5", "1;0;2;0;2;", "1;0;2;0;0;", "9;0;1;0;2;5", "1;5;1;0;2;5", "1;255;3;0;40;x",
                             "1;255;3;0;0;abc", "1;255;3;0;0;55", "1;255;3;0;6;", "1;255;3;0;1;", "0;255;3;0;9;log", "0;255;3;0;14;ready",
                             "9;255;4;0;0;fw", "1;255;4;0;9;fw", "1;1;0;0;6;d", "9;1;0;0;6;d", "255;255;3;0;3;", "bad line", "1;255;3;0;22;x"]:
                    h.ops.append(("recv", line, (), gw.DEFAULT_TIME))
                hists.append(h)
    spec: list = []
    impl = run_both(hists, corr, ctx, "writes", "writes view", spec=spec)
    # the implementation's write attempts against the Lean specification `expectedAttempts` (Model/WriteSpec.lean,
    # theorem C06.writes_eq_attempts), evaluated by the driver at the state before each received line
    for h, io, sp in zip(hists, impl, spec):
        k = 0
        for i, op in enumerate(h.ops):
            if op[0] != "recv":
                continue
            want, k = sp[k], k + 1
            got = ("spec" + gw.render_writes(io[i + 1]["writes"])) if fields_of(op[1]) is not None else "invalid"
            corr.count("spec:" + (("compared, failing writes" if op[2] else "compared") if want != "invalid" else "rejected line"))
            if got != want:
                corr.disagree("the write attempts differ from the Lean specification expectedWrites / expectedAttempts",
                              {"history": Hist(h.version, h.metric, h.preload, h.ops[: i + 1]).to_json(), "step": i + 1,
                               "impl": got, "spec": want})
                break
    for h, io in zip(hists, impl):
        for i, op in enumerate(h.ops):
            if op[0] != "recv" or op[2]:
                continue
            if not check_writes(corr, h, io, i, op, ""):
                break
            before, o = io[i], io[i + 1]
            if len(o["sbuf"]) > len(before["sbuf"]):
                corr.violate("a reaction to a received message was parked in the sleep buffer",
                             {"history": Hist(h.version, h.metric, h.preload, h.ops[: i + 1]).to_json()})
                break
    account(corr, hists, impl, lambda h, op, before, o: op[0] == "recv" and bool(o["writes"]))
    # "writes ONLY as a reaction to a received message": the write log of whole sessions of gateways with a persistence
    # file - entering (registries of every kind restored), idling, leaving, entering again - must hold nothing else
    from . import quietwrites
    quietwrites.run(corr, ctx)
    return corr


# ---- C07 --------------------------------------------------------------------------------------


def held_payload_kinds(thorough=False):
    """Payloads for commands that are HELD for a sleeping node: (family, label, text).  The property says a held command
    is written at the wake carrying the value that was sent - the same bytes an immediate write of the same message
    puts on the wire.  These are the texts an immediate write passes through untouched but that any further treatment
    of the held copy would change: a decode / encode trip (strip of the line end, split on the delimiter), a strip, a
    number conversion, a Unicode normalisation or case mapping, a line split, a length limit."""
    out = []
    for ws in gen.PY_SPACES:
        cp = f"U+{ord(ws):04X}"
        out += [("trailing whitespace", "text + " + cp, "on" + ws), ("leading whitespace", cp + " + text", ws + "on"),
                ("only whitespace", cp, ws), ("whitespace on both sides", cp, ws + "7" + ws + ws)]
    out += [
        ("trailing whitespace", "padded to the width of a 16-column display line", "Hello".ljust(16)),
        ("trailing whitespace", "padded to 20 columns, non-ASCII", "21.5 \xb0C".ljust(20)),
        ("trailing whitespace", "a display line of blanks", " " * 16),
        ("trailing whitespace", "number + space", "5 "), ("trailing whitespace", "text + CR LF", "on\r\n"),
        ("trailing whitespace", "text + LF", "on\n"), ("trailing whitespace", "text + tab", "a\tb\t"),
        ("trailing whitespace", "mixed run", "x \t\x0b\x0c\x1c\x1d\x1e\x1f\x85\xa0\u2028\u2029\u3000"),
        ("trailing whitespace", "delimiter + space", "a; "), ("trailing whitespace", "1000 blanks after text", "x" + " " * 1000),
        ("leading whitespace", "number after a space", " 5"), ("leading whitespace", "indented text", "    indented"),
        ("leading whitespace", "1000 blanks before text", " " * 1000 + "x"), ("leading whitespace", "tab first", "\t7"),
        ("whitespace inside", "line feed inside", "first\nsecond"), ("whitespace inside", "CR LF inside", "a\r\nb"),
        ("whitespace inside", "two blanks inside", "a  b"), ("whitespace inside", "line separator inside", "a\u2028b"),
        ("empty", "empty payload", ""),
        ("delimiter", "one delimiter", ";"), ("delimiter", "values separated by the delimiter", "55.7;13.0;18"),
        ("delimiter", "ends in the delimiter", "on;"), ("delimiter", "starts with the delimiter", ";on"),
        ("delimiter", "only delimiters", ";;;;;;;"), ("delimiter", "looks like a whole line", "1;0;1;0;2;5"),
        ("delimiter", "looks like a line with its end", "1;0;1;0;2;5\n"), ("delimiter", "delimiters and blanks", " ; ; "),
        ("numeric-looking text", "leading zeros", "007"), ("numeric-looking text", "underscore", "1_0"),
        ("numeric-looking text", "plus sign", "+5"), ("numeric-looking text", "minus zero", "-0"),
        ("numeric-looking text", "trailing zeros", "21.50"), ("numeric-looking text", "float of an integer", "1.0"),
        ("numeric-looking text", "exponent", "1e3"), ("numeric-looking text", "hexadecimal", "0x1F"),
        ("numeric-looking text", "Arabic-Indic digits", "\u0661\u0662"), ("numeric-looking text", "full-width digits", "\uff11\uff12"),
        ("numeric-looking text", "leading point", ".5"), ("numeric-looking text", "trailing point", "5."),
        ("numeric-looking text", "boolean word", "True"), ("numeric-looking text", "nan", "nan"),
        ("numeric-looking text", "more digits than a float holds", "0.1000000000000000055511151231257827"),
        ("numeric-looking text", "20 digits", "18446744073709551616"),
        ("non-ASCII", "accents", "temp\xe9rature \xb0C"), ("non-ASCII", "astral", "\U0001f321 ok"),
        ("non-ASCII", "combining accent", "Cafe\u0301"), ("non-ASCII", "ohm sign", "4.7 k\u2126"),
        ("non-ASCII", "compatibility characters", "\ufb01x \u2460 \uff12"), ("non-ASCII", "case mapping", "\u1e9e \u0130 \u0131 STRASSE"),
        ("non-ASCII", "byte order mark", "\ufeffx"), ("non-ASCII", "zero-width joiner", "a\u200db"),
        ("non-ASCII", "right-to-left override", "\u202eabc"), ("non-ASCII", "latin-1 only", "\xe9\xff"),
        ("control characters", "NUL inside", "a\x00b"), ("control characters", "NUL at the end", "a\x00"),
        ("control characters", "escape sequence", "\x1b[2J"), ("control characters", "bell, backspace, delete", "\x07\x08\x7f"),
        ("quoting", "quotes and backslash", "\"'\\"), ("quoting", "percent and braces", "%s {0} {payload}"),
        ("quoting", "MQTT wildcards", "#+/"), ("quoting", "JSON", '{"a": [1, 2]}'), ("quoting", "upper case", "ON"),
        ("very long", "300 characters", "x" * 300), ("very long", "5000 digits", "9" * 5000),
        ("very long", "20000 characters", "ab" * 10000), ("very long", "3000 delimiters", ";" * 3000),
    ]
    if thorough:
        out += [("very long", "70000 characters (more than a 64 KiB buffer)", "ab" * 35000),
                ("very long", "300000 blanks after text", "x" + " " * 300000)]
    return out


def _other_value(p: str) -> str:
    """Another value for the same key that a treatment of the held copy could confuse with `p`: `p` without its
    outer whitespace when it has any, else `p` padded with a blank."""
    return p.strip() if p.strip() != p else p + " "


# the ids / value types / ack flags the held-payload histories rotate over: (destination, another sleeping node),
# (two children), free-text and numeric value types (one outside every SetReq table), both ack flags
_HELD_NODES = [(1, 2), (7, 100), (254, 1), (100, 254)]
_HELD_CHILDREN = [(0, 1), (1, 254), (100, 0)]
_HELD_TYPES = [(47, 2), (24, 0), (48, 47), (2, 49), (32, 300), (0, 48)]


def held_payload_histories(ctx, corr: Corr, grid_only=False):
    """Histories about WHAT a held command carries when it is finally written.  For every payload kind, under every
    protocol with a wake signal: the command is held for a sleeping node (also for a second sleeping node, also under a
    second key with a value that differs in its outer whitespace only), the same message is sent unbuffered (an
    immediate write to compare with), the node wakes (and wakes again: nothing left), the key is overwritten in both
    orders by values differing in outer whitespace only, each followed by a wake; the other node wakes last.  Under
    1.x (flag restored from persistence) the commands are held and no message releases them.  Then random sleepy
    histories drawing their values from the same pool.  Only recv / send operations: every history also runs through
    the Lean model.  `grid_only` (C12's use): one version per kind in rotation, no unbuffered send of the held message
    itself, no random histories."""
    kinds = held_payload_kinds(ctx.tier == "thorough")
    t0 = gw.DEFAULT_TIME
    hists = []
    for i, (family, _label, p) in enumerate(kinds):
        q = _other_value(p)
        n, m = _HELD_NODES[i % len(_HELD_NODES)]
        c0, c1 = _HELD_CHILDREN[i % len(_HELD_CHILDREN)]
        ta, tb = _HELD_TYPES[i % len(_HELD_TYPES)]
        ack = i % 2
        pre = []
        for node in (n, m):
            pre.append(("node", node, 17, "2.0", "", "", 0, 0, False, True))
            for c in (c0, c1):
                pre.append(("child", node, c, c, 36, ""))
        # very long values: one version each and a shorter history (over 1000 characters in the quick tier, over 25000 always)
        long = len(p) > (1000 if ctx.tier == "quick" else 25000)
        versions = [V20[i % 3]] if long else [lib.VERSIONS[1 + i % 4]] if grid_only else lib.VERSIONS[1:]
        for v in versions:
            wake_t = 32 if v == "2.2" else 22

            def wake(node, wake_t=wake_t):
                return ("recv", f"{node};255;3;0;{wake_t};500", (), t0)
            h = Hist(v, True, list(pre))
            main = (n, c0, 1, ack, ta)
            h.ops = [("send", main + (p,), True, ()), ("send", (m, c0, 1, ack, ta, p), True, ()),
                     ("send", (n, c1, 1, 1 - ack, tb, q), True, ()), ("send", main + (p,), False, ())]
            if v in V20 and long:
                h.ops = [h.ops[0], h.ops[3], wake(n), ("send", main + (q,), True, ()), ("send", main + (p,), True, ()), wake(n)]
            elif v in V20:
                h.ops += [wake(n), wake(n),
                          ("send", main + (q,), True, ()), ("send", main + (p,), True, ()), wake(n),
                          ("send", main + (p,), True, ()), ("send", main + (q,), True, ()), wake(n), wake(m)]
            else:
                h.ops += [("recv", f"{n};255;3;0;22;500", (), t0), ("recv", f"{n};255;3;0;0;57", (), t0)]
            if grid_only:
                h.ops = [op for op in h.ops if op[0] != "send" or op[2]]
            hists.append(h)
            corr.count("held payload kind: " + family)
    if grid_only:
        return hists
    rng = lib.rng_for(ctx.seed, "c07held")
    pool = [p for _, _, p in kinds if len(p) <= 1000]
    pool += [_other_value(p) for p in pool]
    for i in range(120 if ctx.tier == "quick" else 3000):
        hists.append(sleepy_history(rng, lib.VERSIONS[i % 5], rng.randint(5, 30 if ctx.tier == "quick" else 100), payloads=pool))
    corr.count("histories: held payload kinds (grid)", len(hists) - (120 if ctx.tier == "quick" else 3000))
    corr.count("histories: random sleepy histories over the held-payload pool", 120 if ctx.tier == "quick" else 3000)
    return hists


def awake_twins(hists, per_history=25):
    """For every set command sent in `hists`: the SAME message sent to the same node registered and awake, under the
    same version - what an immediate write of that message puts on the wire.  A twin history holds that one node,
    awake, and up to `per_history` such sends, nothing else (no send to an awake node depends on an earlier one).
    Returns ({(version, fields): (index into the list, step)}, [histories])."""
    index, twins, open_ = {}, [], {}
    for h in hists:
        for op in h.ops:
            if op[0] == "send" and op[1] is not None and op[1][2] == 1 and (h.version, op[1]) not in index:
                slot = (h.version, op[1][0])
                if slot not in open_ or len(twins[open_[slot]].ops) >= per_history:
                    open_[slot] = len(twins)
                    twins.append(Hist(h.version, True, [("node", op[1][0], 17, "2.0", "", "", 0, 0, False, False)], []))
                t = twins[open_[slot]]
                t.ops.append(("send", op[1], True, ()))
                index[(h.version, op[1])] = (open_[slot], len(t.ops))
    return index, twins


# ---- what a wake signal carries ---------------------------------------------------------------
#
# The wake signal of 2.0 / 2.1 (heartbeat response) carries a counter kept by the NODE: it restarts when the node boots,
# wraps, stands still when the node did nothing in between, and has nothing to do with what the controller stored for the
# node (the value of the last wake, or whatever the persistence file restored).  The wake signal of 2.2 (pre-sleep
# notification) carries a duration.  C07 / C12 speak of "the node's next wake", not of its payload: every wake signal the
# library accepts is a wake - falling, equal, rising, 0, negative, huge, written with a sign / blanks / leading zeros.

WAKE_COUNTS = (0, 1, 2, 7, 255, 256, 65535, 65536, 2 ** 31 - 1, 2 ** 32 - 1, 2 ** 32, 2 ** 63, 2 ** 64 + 1, 10 ** 30)
WAKE_NOT_A_NUMBER = ("", "abc", "1.5", "0x10", "7 7", "--1")


def next_wake_count(rng, last: int) -> int:
    """The counter a node reports at a wake, relative to `last` (what the controller has stored for it)."""
    r = rng.random()
    if r < 0.2:
        return last + rng.choice((1, 1, 2, 1000))
    if r < 0.35:
        return last
    if r < 0.55:
        return last - rng.choice((1, 2, max(1, abs(last) // 2)))
    if r < 0.7:
        return rng.choice((0, 0, 1))                 # the node booted: its counter starts again
    if r < 0.8:
        return rng.choice(WAKE_COUNTS)
    if r < 0.93:
        return rng.randint(0, 100)
    return -rng.choice((1, 500))


def wake_text(rng, n: int) -> str:
    """A way to write the number `n` that Python's `int` reads as `n`."""
    s = str(n)
    if rng.random() < 0.85:
        return s
    return rng.choice([" " + s, s + " "] + ([] if n < 0 else ["00" + s, "+" + s]))


def sleepy_history(rng, version, length, fault_p=0.0, cancel_p=0.0, payloads=None, internal_types=(22, 32, 33, 21, 0),
                   reconnect_p=0.0, session_op=gw.SESSION, no_number_p=0.0):
    """Sends and wake / non-wake messages over 3 nodes x 2 children x 2 types.  `payloads`: the values of the set
    commands are drawn from this pool instead of being small numbers.  `internal_types`: the internal messages the nodes
    send besides their wake signal.  `reconnect_p`: a step with scripted write faults
    is followed, with this probability, by 1-3 reconnects (the error leaves the gateway context, the application enters
    it again); `session_op`: what a reconnect is (`gw.SESSION`, or `gw.SESSION_FILE` = with a persistence file).
    What the wake signals CARRY: in one history out of four the constant "7"; in the others every wake signal (and every
    heartbeat response) carries the node's next counter value (`next_wake_count`: rising, equal, falling, restarted,
    huge, negative - relative to the last one, which starts at the heartbeat value of the node's restored record: 0, small
    or huge), written as `wake_text` writes it; `no_number_p`: the probability that it carries no number at all (which
    2.0 / 2.1 reject as an invalid message: not a wake)."""
    h = Hist(version, True)
    vary = rng.random() < 0.75
    counts = {}
    for n in (1, 2, 3):
        counts[n] = rng.choice((0, 0, 7, 500, 2 ** 32, 10 ** 20)) if vary else 0
        h.preload.append(("node", n, 17, "2.0", "", "", 0, counts[n], False, rng.random() < 0.6))
        for c in (0, 1):
            h.preload.append(("child", n, c, c, 6, ""))
    wake_t = 32 if version == "2.2" else 22

    def carried(n):
        if not vary:
            return "7"
        if no_number_p and rng.random() < no_number_p:
            return rng.choice(WAKE_NOT_A_NUMBER)
        counts[n] = next_wake_count(rng, counts[n])
        return wake_text(rng, counts[n])
    for _ in range(length):
        r = rng.random()
        n = rng.choice((1, 2, 3))
        if r < 0.55:
            op = ("send", (n, rng.choice((0, 1)), 1, rng.choice((0, 1)), rng.choice((0, 2)),
                          str(rng.randint(0, 99)) if payloads is None else rng.choice(payloads)), rng.random() < 0.85, ())
        elif r < 0.8:
            op = ("recv", f"{n};255;3;0;{wake_t};{carried(n)}", (), gw.DEFAULT_TIME)
        elif r < 0.88:
            t = rng.choice(internal_types)
            op = ("recv", f"{n};255;3;0;{t};{carried(n) if t in (22, wake_t) else '7'}", (), gw.DEFAULT_TIME)
        elif r < 0.92:
            # the gateway reports a (possibly different) version while commands are parked: nothing may be dropped
            rep = rng.choice(["2.0", "2.1", "2.2", "2.1.1", "2.2.0", version])
            op = ("recv", rng.choice([f"0;255;3;0;2;{rep}", f"0;255;0;0;18;{rep}"]), (), gw.DEFAULT_TIME)
        elif r < 0.95:
            op = ("recv", f"{n};255;0;0;17;2.0", (), gw.DEFAULT_TIME)
        elif r < 0.97:
            op = session_op          # the application reconnects: whatever is parked stays parked
        elif r < 0.985:
            # the (sleeping) node itself asks for or reports a value, possibly the very key a command is parked for
            op = ("recv", f"{n};{rng.choice((0, 1))};{rng.choice((1, 2))};{rng.choice((0, 1))};{rng.choice((0, 2))};{rng.choice(('', '7', '55'))}",
                  (), gw.DEFAULT_TIME)
        else:
            op = ("recv", f"{n};{rng.choice((0, 1))};0;0;6;d", (), gw.DEFAULT_TIME)
        faulty = op[0] != "session" and fault_p and rng.random() < fault_p
        if faulty:
            f = gw.gen_faults(rng, cancel_p)
            op = (op[0], op[1], f, op[3]) if op[0] == "recv" else (op[0], op[1], op[2], f)
        h.ops.append(op)
        if faulty and reconnect_p and rng.random() < reconnect_p:
            h.ops += [session_op] * rng.choice((1, 1, 2, 3))
    return h


def all_internal_types():
    """Every internal type some protocol version knows, and two numbers past the newest table."""
    known = sorted({int(t) for v in lib.VERSIONS for t in proto_tables(v)["internal"]})
    return known + [known[-1] + 1, known[-1] + 7]


def between_internal_histories(ctx, corr: Corr):
    """Histories about what a node known to be sleeping may send BETWEEN the moment a command is parked for it and its
    wake without ending the waiting: every internal type of every version's table (the version's own wake signal
    included; also the numbers that exist in other versions only and two that exist nowhere: rejected lines), under every
    version, from the node a command is parked for - the node known to be sleeping from its restored record (all
    versions) or from its own wake signal earlier in the history (2.x).  Afterwards the application sends for the SAME
    key (must replace the parked value, not go out), for another key of the node, to another sleeping node and to an
    awake node; the node wakes (the latest values, once), a command is parked again, the other sleeping node sends the
    same internal message, more sends, both wake.  Under 1.x nothing ever releases.  Only recv / send operations: every
    history also runs through the Lean model."""
    t0 = gw.DEFAULT_TIME
    hists = []
    k = 0
    for v in lib.VERSIONS:
        wake_t = None if v not in V20 else 32 if v == "2.2" else 22

        def wake(node, wake_t=wake_t):
            # (1.x has no wake signal: a battery report stands in its place and releases nothing)
            return ("recv", f"{node};255;3;0;{0 if wake_t is None else wake_t};57", (), t0)
        own = set(proto_tables(v)["internal"])
        for t in all_internal_types():
            for announced in ((False, True) if v in V20 and str(t) in own else (False,)):
                k += 1
                n, m, a = [(1, 2, 3), (3, 1, 2), (2, 254, 1), (254, 3, 7)][k % 4]
                c0, c1 = [(0, 1), (1, 0), (0, 254)][k % 3]
                ta, tb = [(2, 0), (0, 2), (2, 3)][k % 3]
                pay = v if t == 2 else ("", "1", "500", "0")[k % 4] if not announced else ("500", "", "1")[k % 3]
                h = Hist(v, True)
                for node, flag in ((n, not announced), (m, True), (a, False)):
                    h.preload.append(("node", node, 17, "2.0", "", "", 0, 0, False, flag))
                    for c in (c0, c1):
                        h.preload.append(("child", node, c, c, 6, ""))
                between = ("recv", f"{n};255;3;0;{t};{pay}", (), t0)
                h.ops = ([wake(n)] if announced else []) + [
                    ("send", (n, c0, 1, 0, ta, "10"), True, ()), ("send", (m, c0, 1, 0, ta, "50"), True, ()),
                    between,
                    ("send", (n, c0, 1, k % 2, ta, "11"), True, ()), ("send", (n, c1, 1, 0, tb, "12"), True, ()),
                    ("send", (m, c0, 1, 0, ta, "51"), True, ()), ("send", (a, c0, 1, 0, ta, "70"), True, ()),
                    wake(n),
                    ("send", (n, c0, 1, 0, ta, "13"), True, ()),
                    ("recv", f"{m};255;3;0;{t};{pay}", (), t0),
                    ("send", (m, c1, 1, 0, tb, "52"), True, ()), ("send", (n, c0, 1, 0, ta, "14"), True, ()),
                    wake(m), wake(n), wake(n)]
                hists.append(h)
    corr.count("histories: every internal type between parking and wake (grid)", len(hists))
    return hists


def _key_of_line(line):
    part = line.split(";", 5)
    try:
        return (int(part[0]), int(part[1]), int(part[4]))
    except (ValueError, IndexError):
        return None


def _announces_awake(proto: str, f, registered) -> bool:
    """Does this received message announce that its (registered) node is awake - the wake signal of the ACTIVE protocol
    (heartbeat response under 2.0 / 2.1, pre-sleep notification under 2.2; 1.x has none), a valid message?"""
    return f is not None and is_wake(proto, f) and f[0] in registered and _heartbeat_accepted(proto, f)


def _presents_node_again(proto: str, f) -> bool:
    """A node presentation the active protocol decodes: the node (re)booted, the registry gets a fresh record for it."""
    return f is not None and f[2] == 0 and f[1] == 255 and str(f[4]) in proto_tables(proto)["presentation"]


def c07_known_sleeping(h: Hist, io):
    """C07's own notion of "a node known to be sleeping", read off the HISTORY - never off the library's `sleeping`
    flag, which is the mechanism under test.  One set per step: the registered nodes known to be sleeping BEFORE
    operation i (and, last, after the whole history).

    * at the start: the nodes whose restored record says so (the flag restored from persistence);
    * a registered node becomes known to be sleeping when it announces that it is awake with the wake signal of the
      active protocol - that announcement is how a smart-sleep node makes itself known;
    * it STAYS known to be sleeping - whatever else it or anybody sends, whatever the application sends, across
      reconnects and version reports: the property names the wake signal and gives no message that ends the waiting -
      until the node presents itself again (a node presentation: the node booted, the registry holds a fresh record for
      it; DESIGN section 6, the observation on re-presentation, which the property does not speak about).

    Of the implementation's observations only the active protocol and the registry's ids are read."""
    sleepers = {p[1] for p in h.preload if p[0] == "node" and p[9]}
    out = [set(sleepers)]
    for i, op in enumerate(h.ops):
        if op[0] == "recv":
            before = io[i]
            f = fields_of(op[1])
            if _announces_awake(before["proto"], f, before["nodes"]):
                sleepers.add(f[0])
            elif _presents_node_again(before["proto"], f):
                sleepers.discard(f[0])
        out.append(set(sleepers))
    return out


def c07_judge(h: Hist, io, twin_writes=None, count=None):
    """The property restated over one observed trace.  Returns None or (what, case) for the first step that violates it.
    Which destinations are sleeping is the property's own bookkeeping (`c07_known_sleeping`); what is parked is the
    oracle's own bookkeeping of the sends it saw."""
    count = count or (lambda *a: None)
    twin_writes = twin_writes or (lambda version, f: None)
    known = c07_known_sleeping(h, io)
    parked: dict = {}
    for i, op in enumerate(h.ops):
        before, o = io[i], io[i + 1]
        got = [w[0] for w in o["writes"]]
        case = {"history": Hist(h.version, h.metric, h.preload, h.ops[: i + 1]).to_json(), "outcome": o["out"], "writes": got,
                "known_to_be_sleeping_from_the_history": sorted(known[i])}
        if op[0] == "session":
            if got or o["out"] != "ok":
                return "leaving and re-entering the gateway context wrote something or failed", case
            continue
        if op[0] == "assign":
            continue
        if op[0] == "send":
            f = op[1]
            if f is None or f[2] != 1:
                continue
            sleeping = f[0] in known[i] and f[0] in before["nodes"]
            flag = before["nodes"][f[0]]["sleeping"] if f[0] in before["nodes"] else None
            if sleeping and op[2]:
                count("oracle: set command for a node known (from the history) to be sleeping")
                if got or o["out"] != "ok":
                    return ("a set command for a sleeping node was written (or failed) instead of waiting for its wake",
                            {**case, "the_library_flag_of_the_node": flag})
                parked[(f[0], f[1], f[4])] = f
            else:
                if got != [line_of(f)]:
                    return ("a set command for a node not known to be sleeping was not written immediately and unchanged",
                            {**case, "the_library_flag_of_the_node": flag})
            continue
        f = fields_of(op[1])
        if _announces_awake(before["proto"], f, before["nodes"]):
            mine = [k for k in parked if k[0] == f[0]]
            want = [line_of(parked[k]) for k in mine]
            if sorted(got) != sorted(want) or len(set(got)) != len(got):
                return ("a wake did not release exactly the latest parked value of each of that node's keys, once",
                        {**case, "want": want,
                         "held": [{"message_sent": list(parked[k]), "written_at_the_wake": [g for g in got if _key_of_line(g) == k],
                                   "the_same_send_to_the_node_awake_writes": twin_writes(h.version, parked[k])} for k in mine]})
            # byte for byte what the same send writes when the node is awake (the twin history)
            for k in mine:
                tw = twin_writes(h.version, parked[k])
                if tw is None:
                    continue
                count("oracle: line written at the wake compared with the awake twin's immediate write")
                at_wake = [g for g in got if _key_of_line(g) == k]
                if at_wake != tw:
                    return ("the line written at the wake is not the line the same send writes for the node awake",
                            {**case, "message_sent": list(parked[k]), "written_at_the_wake": at_wake,
                             "the_same_send_to_the_node_awake_writes": tw})
            for k in mine:
                del parked[k]
            continue
        # every other received line - rejected, of another command, an internal message that is not the wake signal of
        # the active protocol (or comes from a node that is not registered): releases nothing, changes nothing parked
        if f is not None and f[2] == 3 and any(";1;" in g and g.split(";")[2] == "1" for g in got):
            return "a message that is not a wake of that node released parked commands", case
        if before["sbuf"] != o["sbuf"]:
            return "a received message that is not a wake changed what is parked", case
        if f is not None and f[2] == 3 and f[0] in known[i]:
            count("oracle: internal message that is not the wake signal, from a node known to be sleeping")
    return None


def run_c07(ctx) -> Corr:
    corr = Corr("C07", "sequential interleavings of send calls and received wake / non-wake messages over 3 nodes x 2 children "
                "x 2 value types (overwrites before a wake, sends between wakes, re-parking after a flush, re-presentations), "
                "5 versions incl. 1.x with sleeping flags restored from persistence; compared on the writes view with the Lean "
                "model; oracle = bookkeeping of the latest parked value per key from the trace, and of the destinations known to be "
                "sleeping from the HISTORY (restored flag, the node's wake signals, until it presents itself again) - never from "
                "the library's own flag; every internal type of every version (and two unknown ones) from the sleeping node "
                "between parking and wake, followed by sends for the same key, another key, another sleeping node, an awake "
                "node, x 5 versions x node known from its restored record / from its own wake signal. In addition WHAT a held command "
                "carries: every payload kind of held_payload_kinds (outer whitespace of each of Python's 29 whitespace code "
                "points, delimiters, empty, numeric-looking text, non-ASCII, control characters, very long) x 4 versions with "
                "hold / second node / second key / unbuffered send / wake / overwrite in both orders by a value differing in "
                "outer whitespace only / re-parking, and random sleepy histories over that pool; oracle there = the line "
                "written at the wake is byte for byte encode(message sent) AND what the same send writes for the same node "
                "awake (a twin history). The wake signals of the random histories carry the nodes' counters (sleepy_history: "
                "rising, equal, falling, restarted at 0, huge, negative relative to the last / the restored heartbeat value; "
                "now and then no number: rejected under 2.0 / 2.1, not a wake) or the constant 7. "
                "non-trivial = distinct (state, op) that parks a command or releases at least one")
    rng = lib.rng_for(ctx.seed, "c07")
    hists = [h for _, h in corpus_histories("C07")]
    n = 250 if ctx.tier == "quick" else 4000
    every = all_internal_types()
    for i in range(n):
        # (every other round of the five versions: the nodes' other internal messages are drawn from every internal type)
        hists.append(sleepy_history(rng, lib.VERSIONS[i % 5], rng.randint(5, 40 if ctx.tier == "quick" else 120),
                                    no_number_p=0.05, **({"internal_types": every} if i // 5 % 2 else {})))
    # whatever a sleeping node sends between the parking of a command and its wake, it stays a sleeping destination
    hists += between_internal_histories(ctx, corr)
    # what a held command carries when it is written at the wake (value kinds that an immediate write leaves alone)
    held = held_payload_histories(ctx, corr)
    twin_index, twins = awake_twins(held)
    twin_base = len(hists) + len(held)
    hists += held + twins
    corr.count("histories: awake twins (the same send to the same node, awake)", len(twins))
    corr.notes.append("the held-payload histories (held_payload_histories) and their awake twins (awake_twins) consist of recv / "
                      "send operations only, all of which the gateway model's driver has: each is compared with the Lean model "
                      "on the writes view AND judged by the oracle; the comparison of a line written at a wake with the write "
                      "of its awake twin spans two histories and is made by the oracle alone")
    impl = run_both(hists, corr, ctx, "writes", "writes view")

    def twin_writes(version, f):
        j = twin_index.get((version, f))
        return None if j is None else [w[0] for w in impl[twin_base + j[0]][j[1]]["writes"]]

    for h, io in zip(hists, impl):
        bad = c07_judge(h, io, twin_writes, corr.count)
        if bad is not None:
            corr.violate(bad[0], bad[1])
    account(corr, hists, impl, lambda h, op, before, o: before["sbuf"] != o["sbuf"])
    return corr


# ---- C08 --------------------------------------------------------------------------------------


def wake_op(version: str, node: int, faults=()):
    return ("recv", f"{node};255;3;0;{32 if version == '2.2' else 22};5", tuple(faults), gw.DEFAULT_TIME)


def drain_ops(nodes, version=None):
    """Fault-free wakes of every node (the wake signal of `version`, or of every version when the history may have
    changed it): what the gateway still holds at the end of a history is OBSERVED BY WHAT THESE WRITE - on the
    implementation and on the model alike, wherever the implementation keeps it."""
    if version is not None:
        return [wake_op(version, n) for n in nodes]
    return [("recv", f"{n};255;3;0;{t};5", (), gw.DEFAULT_TIME) for n in nodes for t in (22, 32)]


def reconnect_histories(ctx):
    """The failure 'is reported to the caller of listen' - who, as a rule, lets it leave `async with gateway:` and enters
    the same Gateway object again to reconnect.  For 1-4 parked commands over 1-2 nodes x the position of the write of
    node 1's release that does not complete (fails, or the listener is cancelled there) x 1-3 re-entries x a gateway
    WITH a persistence file (every enter loads the file: fresh Node objects) or without one; optionally the next wake
    is interrupted too and the application reconnects once more; then every node wakes, and node 1 once more."""
    hists = []
    count = 0
    for v in V20:
        for k in range(1, 5):
            for n_nodes in (1, 2):
                keys = [(1 + (j % n_nodes), j % 2, j // 2 * 2) for j in range(k)]
                mine = sum(1 for key in keys if key[0] == 1)
                for pos in range(mine):
                    for kind in (True, gw.CANCEL):
                        for reenters in (1, 2, 3):
                            for store in (gw.SESSION_FILE, gw.SESSION):
                                count += 1
                                j = (count - 1) // 2      # index among the histories of this kind of store
                                # quick tier: one history in seven of either kind (7 is prime to the cycles of kind and
                                # re-entries, so every combination comes up, at rotating versions / positions)
                                if ctx.tier == "quick" and j % 7 != (ctx.seed + (3 if store is gw.SESSION else 0)) % 7:
                                    continue
                                h = Hist(v, True)
                                for n in range(1, n_nodes + 1):
                                    h.preload.append(("node", n, 17, "2.0", "", "", 0, 0, False, True))
                                    for c in (0, 1):
                                        h.preload.append(("child", n, c, c, 6, ""))
                                for (n, c, t) in keys:
                                    h.ops.append(("send", (n, c, 1, 0, t, f"v{n}{c}{t}"), True, ()))
                                h.ops.append(wake_op(v, 1, [False] * pos + [kind]))
                                h.ops += [store] * reenters
                                if (j // 7) % 2 and mine - pos > 1:
                                    # the first command still waiting goes out, the next write is interrupted as well
                                    h.ops.append(wake_op(v, 1, [False, True if kind == gw.CANCEL else gw.CANCEL]))
                                    h.ops.append(store)
                                h.ops += drain_ops(range(1, n_nodes + 1), v) + [wake_op(v, 1)]
                                hists.append(h)
    return hists


def _c08_oracle(corr: Corr, h: Hist, io) -> None:
    """C08 restated over one observed trace.

    (a) From what an application can see alone - the outcome of every call, the lines handed to the transport, the
    registry's sleeping flags: a set command sent for a sleeping node that returned without writing is waiting; at a
    wake of its node every line written successfully must be one that was waiting (else it is written AGAIN, or was
    never held), a write that did not complete must be reported as such, and when every write of the wake completed
    and the step ended normally nothing may still be waiting for that node (else it is LOST: a later wake of the
    node was owed it).  Leaving and re-entering the gateway context in between changes none of this.
    (b) Where the internal store of held commands is found (`gw.held_items`), additionally per wake: written
    successfully + still stored == stored before, as multisets, and other nodes' entries untouched."""
    waiting: dict = {}
    for i, op in enumerate(h.ops):
        before, o = io[i], io[i + 1]
        case = {"history": Hist(h.version, h.metric, h.preload, h.ops[: i + 1]).to_json(), "outcome": o["out"],
                "writes": [list(w) for w in o["writes"]]}
        if op[0] == "session":
            corr.count("oracle: left and re-entered the context" + (" (persistence file: registry reloaded)" if op[1] == "file" else "")
                       + (" with commands waiting" if waiting else ""))
            if o["out"] != "ok":
                corr.count("oracle: re-entering the context failed (history not judged further)")
                return
            continue
        if op[0] == "assign" or len(op) > 4:
            return      # the caller's own objects, re-addressed while held: C12's oracle
        if op[0] == "send":
            f = op[1]
            if f is None or f[2] != 1:
                continue
            node = before["nodes"].get(f[0])
            if op[2] and node is not None and node["sleeping"] and o["out"] == "ok" and not o["writes"]:
                waiting[(f[0], f[1], f[4])] = f
            continue
        f = fields_of(op[1])
        if not (is_wake(before["proto"], f) and f[0] in before["nodes"]):
            continue
        ok_written = [w[0] for w in o["writes"] if w[1] and w[0].split(";")[2] == "1"]
        failed = [w for w in o["writes"] if not w[1]]
        mine = {k: line_of(x) for k, x in waiting.items() if k[0] == f[0]}
        for line in ok_written:
            k = next((k for k, l in mine.items() if l == line), None)
            if k is None:
                corr.violate("a command was written at a wake that was not waiting for it: it had been written successfully "
                             "before (repeated), or was never held", {**case, "line": line, "waiting_for_the_node": sorted(mine.values())})
                return
            del mine[k], waiting[k]
        if failed and o["out"] != abort_outcome(op[2], o["writes"]):
            corr.violate("a write that did not complete during the release (failed, or the listener cancelled "
                         "there) was not reported to the caller of listen as such", case)
            return
        if not failed and o["out"].startswith("ok") and mine:
            corr.violate("commands held for a node and not yet written successfully were not written at its wake although every "
                         "write of that wake completed (lost)", {**case, "still_owed_to_the_node": sorted(mine.values())})
            return
        if failed:
            corr.count("oracle: release interrupted, " + ("nothing" if not mine else "commands") + " still owed to the node")
        if not (before.get("sbuf_seen", True) and o.get("sbuf_seen", True)):
            corr.count("oracle: the internal store of held commands was not found (judged by the trace alone)")
            continue
        mine_before = [(tuple(k), p) for k, p in before["sbuf"] if k[0] == f[0]]
        mine_after = [(tuple(k), p) for k, p in o["sbuf"] if k[0] == f[0]]
        want_all = sorted(f"{k[0]};{k[1]};1;{k[2]};{p}" for k, p in mine_before)
        got_all = sorted([re.sub(r"^(\d+;\d+;1);[01];(.*)\n$", r"\1;\2", w) for w in ok_written]
                         + [f"{k[0]};{k[1]};1;{k[2]};{p}" for k, p in mine_after])
        if want_all != got_all:
            corr.violate("buffered commands were lost or repeated when a write failed during the release", {**case, "before": want_all, "after+written": got_all})
            return
        others_b = [x for x in before["sbuf"] if x[0][0] != f[0]]
        others_a = [x for x in o["sbuf"] if x[0][0] != f[0]]
        if others_b != others_a:
            corr.violate("the release touched another node's buffered commands", case)
            return
        if sorted((tuple(k), p) for k, p in o["sbuf"]) != sorted((k, x[5]) for k, x in waiting.items()):
            corr.count("oracle: the trace's bookkeeping and the internal store differ after a wake")


def run_c08(ctx) -> Corr:
    corr = Corr("C08", "fault enumeration on the real code: every subset of failing write positions for 1-4 parked commands "
                "over 1-2 nodes across up to 3 wakes, versions 2.0/2.1/2.2 (complete); reconnects: the interrupted release's "
                "error leaves the gateway context and the same object is entered again 1-3 times, with and without a "
                "persistence file (real file, real reload: every Node object replaced), optionally interrupted and "
                "reconnected once more; random sleepy histories with write faults and such reconnects; every history ends "
                "with a fault-free wake of every node, so what is still held is observed by what gets written; compared on "
                "the writes view with the Lean model (held commands grouped per node; the internal store only where it is "
                "found); oracle = from the trace alone: written at a wake only what was waiting (nothing twice), failure "
                "reported, nothing owed after a wake whose writes all completed (nothing lost) - plus, where the internal "
                "store is found, conservation: written-successfully + still parked == parked before (as multisets). "
                "non-trivial = distinct (parked set, fault schedule) with at least one failing write")
    hists = [h for _, h in corpus_histories("C08")]
    for v in V20:
        for k in range(1, 5):
            for n_nodes in (1, 2):
                keys = [(1 + (j % n_nodes), j % 2, j // 2 * 2) for j in range(k)]
                for wakes in (1, 2, 3):
                    slots = k + wakes - 1
                    kinds = (False, True, gw.CANCEL) if slots <= 3 else (False, True)
                    for faults in itertools.product(kinds, repeat=min(slots, 5)):
                        h = Hist(v, True)
                        for n in range(1, n_nodes + 1):
                            h.preload.append(("node", n, 17, "2.0", "", "", 0, 0, False, True))
                        for (n, c, t) in keys:
                            h.ops.append(("send", (n, c, 1, 0, t, f"v{n}{c}{t}"), True, ()))
                        fl = list(faults)
                        for wk in range(wakes):
                            # give each wake of node 1 the next chunk of the fault schedule
                            take = fl[: k]
                            fl = fl[1:]
                            h.ops.append(wake_op(v, 1, take))
                        h.ops += drain_ops(range(1, n_nodes + 1), v)
                        hists.append(h)
    if ctx.tier == "quick":
        step = max(1, len(hists) // 2500)
        hists = hists[::step]
    rec = reconnect_histories(ctx)
    corr.count("histories: reconnect after an interrupted release, gateway with a persistence file", sum(1 for h in rec if gw.has_file(h)))
    corr.count("histories: reconnect after an interrupted release, no persistence file", sum(1 for h in rec if not gw.has_file(h)))
    hists += rec
    rng = lib.rng_for(ctx.seed, "c08")
    for i in range(100 if ctx.tier == "quick" else 2000):
        h = sleepy_history(rng, V20[i % 3], rng.randint(5, 30), fault_p=0.3, cancel_p=0.3 if i % 2 else 0.0,
                           reconnect_p=0.5, session_op=gw.SESSION_FILE if i % 4 == 0 else gw.SESSION)
        h.ops += drain_ops((1, 2, 3))
        hists.append(h)
    impl = run_both(hists, corr, ctx, "writes", "writes view")
    for h, io in zip(hists, impl):
        _c08_oracle(corr, h, io)
    account(corr, hists, impl, lambda h, op, before, o: any(not w[1] for w in o["writes"]))
    _failing_wake_across_sessions(corr, ctx)
    corr.exhaustive = ctx.tier == "thorough"
    return corr


def c08_session_scenarios(ctx=None):
    """Real `async with gateway:` statements: 2-3 commands parked for one node (or 2 + 2 for two nodes) x the position of
    the write of node 1's release that does not complete x failed / listener cancelled x the error leaves the
    statement or is handled inside it x the commands were sent inside the same statement or an earlier one x the same
    object entered again 1-3 times before the node wakes again x with / without a persistence file."""
    out = []
    count = 0
    for v in V20:
        for cmds in ([(1, 0), (1, 1)], [(1, 0), (1, 1), (1, 2)], [(1, 0), (2, 0), (1, 1), (2, 1)]):
            mine = sum(1 for n, _ in cmds if n == 1)
            for fail_at in range(mine):
                for kind in (True, gw.CANCEL):
                    for escape in (True, False):
                        for store in (True, False):
                            count += 1
                            out.append({"version": v, "commands": [list(c) for c in cmds], "failing_write": fail_at,
                                        "fault": "cancelled" if kind == gw.CANCEL else "failed", "error_left_the_context": escape,
                                        "persistence_file": store, "reenters": 1 + count % 3,
                                        "sent_in_the_same_context": (count // 3) % 2 == 0})
    return out


async def c08_session_case(sc):
    """One scenario of `c08_session_scenarios` on the real gateway: (what is wrong | None, trace)."""
    import asyncio

    from aiomysensors import exceptions as exc
    from aiomysensors.model.message import Message

    v = sc["version"]
    nodes = sorted({n for n, _ in sc["commands"]})
    h = Hist(v, True, [("node", n, 17, "2.0", "", "", 0, 0, False, True) for n in nodes]
             + [("child", n, c, c, 3, "") for n, c in sc["commands"]])
    path = gw._new_file() if sc["persistence_file"] else None
    g, tr = gw.build_gateway(h, persistence_file=path)
    if path is not None:
        gw._inline_files(asyncio.get_running_loop())
    sent, trace = [], []

    def wake(n):
        return wake_op(v, n)[1] + "\n"

    async def entered():
        if path is not None:
            await gw.settle(g, path)

    async def interrupted_wake():
        """Node 1 wakes and one write of the release does not complete; the error leaves this coroutine (and with it the
        `async with` statement around the call) or is handled here."""
        tr.attempts = []
        tr.lines = [wake(1)]
        tr.faults = [False] * sc["failing_write"] + [gw.CANCEL if sc["fault"] == "cancelled" else True]
        if sc["error_left_the_context"]:
            await anext(g.listen())
            return None
        try:
            await anext(g.listen())
        except (exc.TransportError, asyncio.CancelledError) as e:
            return e
        return None

    same = sc.get("sent_in_the_same_context", False)
    reported = None
    try:
        try:
            async with g:
                await entered()
                for n, c in sc["commands"]:
                    await g.send(Message(n, c, 1, 0, 2, f"v{n}{c}"))
                    sent.append(f"{n};{c};1;0;2;v{n}{c}\n")
                trace.append({"context": "commands sent", "writes": [list(w) for w in tr.attempts]})
                if same:
                    reported = await interrupted_wake()
            if not same:
                async with g:
                    await entered()
                    reported = await interrupted_wake()
        except (exc.TransportError, asyncio.CancelledError) as e:
            reported = e
        trace.append({"context": "node 1 wakes, a write does not complete", "reported": repr(reported), "writes": [list(w) for w in tr.attempts]})
        for _ in range(sc["reenters"] - 1):
            async with g:
                await entered()
        for n in nodes + [1]:
            k = len(tr.attempts)
            tr.lines, tr.faults = [wake(n)], []
            async with g:
                await entered()
                try:
                    await anext(g.listen())
                except exc.AIOMySensorsError as e:
                    trace.append({"context": f"node {n} wakes", "error": repr(e)})
            trace.append({"context": f"node {n} wakes", "writes": [list(w) for w in tr.attempts[k:]]})
    finally:
        if path is not None:
            try:
                os.unlink(path)
            except OSError:
                pass
    ok_writes = [w[0] for w in tr.attempts if w[1] and w[0].split(";")[2] == "1"]
    want = type(reported).__name__ if reported is not None else None
    interrupted = any(not w[1] for w in tr.attempts)
    if interrupted and (reported is None or (sc["fault"] == "cancelled") != isinstance(reported, asyncio.CancelledError)):
        return f"an interrupted write during the release was not reported to the caller of listen as such (reported: {want})", trace
    if sorted(ok_writes) != sorted(sent):
        lost = [x for x in sent if x not in ok_writes]
        return ("after an interrupted release (and leaving / re-entering the gateway context) the buffered commands were not "
                "each written exactly once: " + (f"never written {lost}" if lost else "written more than once")), trace
    return None, trace


def _failing_wake_across_sessions(corr: Corr, ctx=None) -> None:
    """The failure is reported to the caller of listen - who may let it leave the gateway context and enter it again
    (a reconnect).  Commands not yet written must still be written at a later wake, nothing twice."""
    import asyncio

    scs = c08_session_scenarios(ctx)
    if ctx is not None and ctx.tier == "quick":
        scs = scs[ctx.seed % 3::3]

    async def go():
        for sc in scs:
            what, trace = await c08_session_case(sc)
            if what is not None:
                corr.violate(what, {"c08_sessions": sc, "trace": trace})
            corr.case(("sessions", json.dumps(sc, sort_keys=True)), True, None)
            corr.count("failing-wake-across-sessions" + (" (persistence file)" if sc["persistence_file"] else ""))
    asyncio.run(go())


# ---- C10 --------------------------------------------------------------------------------------


# What a registered node's entry may hold as its own `protocol_version` (the library version the node reported in its
# presentation, the placeholder default of the id-request handler, or whatever a persistence file held): both 1.x lines,
# every 2.x line, patch levels, versions no protocol module exists for, strings that are no version at all.
C10_NODE_PVS = ["1.4", "1.5", "1.5.1", "1.4.2", "2.0", "2.0.0", "2.1.1", "2.2", "2.2.0", "2.3.2", "1.0", "0.9", "3.0", "1.6.0-beta",
                "2.0.0-rc.1", "", "x", "1", "2", "v1.5"]


def _c10_node_pv(rng, line_safe: bool = False) -> str:
    """A stored node version: mostly from the list above, now and then any version-like string."""
    if rng.random() < 0.85:
        return rng.choice(C10_NODE_PVS)
    s = gw.rand_version_string(rng)
    return rng.choice(C10_NODE_PVS) if line_safe and (";" in s or "\n" in s or "\r" in s) else s


def _c10_presentation_types(v: str) -> list:
    """Every type a presentation line may carry under protocol `v`: the version's whole presentation table (sensor types,
    17 = node, 18 = repeater node, the later S_ types) and types beyond it (decoding checks no table, the handler gets them)."""
    table = sorted(int(k) for k in proto_tables(v)["presentation"])
    return table + [table[-1] + 1, 99, 250, 255]


def _c10_presents_node(f, after) -> bool:
    """Has the sender of the decoded line `f` presented itself with this line?  What the unchanged library does with a
    presentation on the system child, of any type: the registry holds a fresh entry for the node afterwards - the type of
    the line, no children."""
    if f is None or f[2] != 0 or f[1] != 255:
        return False
    entry = after.get(f[0])
    return entry is not None and entry["type"] == f[4] and not entry["children"]


def _c10_presentation_grid(ctx, rng) -> list:
    """Presentations of EVERY type, systematically: gateway protocol x state of the sender (unknown; unknown with a request
    outstanding; known; known with a missing child and a request outstanding) x presentation type (the whole table of the
    version, and types beyond it).  Each history: the setup of the state (the request write ok / failing), the
    presentation on the system child (= the node presents itself, whatever the type), another node's missing message, the
    presentation again, a set for a child the node has not presented (one request) and again (silence), a presentation of
    the same / a node type on ANOTHER child (a child presentation: the marker stays), the missing child again (silence),
    the presentation on the system child (re-armed), a req for the missing child (one request)."""
    out = []
    states = ("unknown", "unknown, asked", "known", "known, asked")
    k = 0
    for v in lib.VERSIONS:
        types = _c10_presentation_types(v)
        table, beyond = types[:-4], types[-4:]
        for state in states:
            if ctx.tier == "thorough":
                chosen = types
            else:
                # quick: a fifth of the table per (protocol, state) cell, rotating with the seed and the cell; always the two
                # node types, a sensor type and one type beyond the table
                start = (ctx.seed * 3 + k) % 5
                chosen = sorted(set(table[start::5]) | {17, 18, rng.choice(table[:17])}) + [rng.choice(beyond)]
            k += 1
            for t in chosen:
                h = Hist(v, True)
                nid, other = rng.choice(((1, 2), (2, 1), (3, 9), (7, 5), (254, 1)))
                pay = rng.choice(("2.0", v, "probe", "", "1.4", "Sk"))
                if state.startswith("known"):
                    h.preload.append(("node", nid, rng.choice((17, 18)), _c10_node_pv(rng), "", "", 0, 0, False, False))
                    h.preload.append(("child", nid, 0, 0, 6, ""))
                if state.endswith("asked"):
                    h.ops.append(("recv", rng.choice((f"{nid};3;1;0;0;5", f"{nid};3;2;0;0;")), rng.choice(((), (), (), (True,))),
                                  gw.DEFAULT_TIME))
                pres = f"{nid};255;0;{rng.choice((0, 0, 1))};{t};{pay}"
                h.ops.append(("recv", pres, (), gw.DEFAULT_TIME))
                h.ops.append(("recv", f"{other};1;1;0;0;5", (), gw.DEFAULT_TIME))
                h.ops.append(("recv", pres, (), gw.DEFAULT_TIME))
                h.ops.append(("recv", f"{nid};3;1;0;0;5", rng.choice(((), (), (), (True,))), gw.DEFAULT_TIME))
                h.ops.append(("recv", f"{nid};3;1;0;0;5", (), gw.DEFAULT_TIME))
                h.ops.append(("recv", f"{nid};{rng.choice((1, 4, 254))};0;0;{rng.choice((17, 18, t))};d", (), gw.DEFAULT_TIME))
                h.ops.append(("recv", f"{nid};3;1;0;2;1", (), gw.DEFAULT_TIME))
                h.ops.append(("recv", f"{nid};255;0;0;{rng.choice((t, t, 17))};{pay}", (), gw.DEFAULT_TIME))
                h.ops.append(("recv", f"{nid};3;2;0;0;", (), gw.DEFAULT_TIME))
                out.append(h)
    return out


def _c10_random_history(rng, v: str, kinds) -> Hist:
    """One random history.  The generator keeps an EXPECTATION of the registry (steering only, the oracle reads the real
    one): preloaded nodes, nodes that presented themselves, ids handed out by id requests - senders are drawn from
    nodes 1..3 and from the ids handed out, so that placeholder nodes (registered by an id request, never presented)
    report from children they never presented."""
    h = Hist(v if rng.random() < 0.85 else None, True)
    r = rng.random()
    if r < 0.2:
        h.preload = [("node", 2, 17, "2.0", "", "", 0, 0, False, False), ("child", 2, 0, 0, 6, "")]
    elif r < 0.65:
        # a registry that was there before the first line (restored from a file, or presented in an earlier session):
        # any stored version, with or without children, sleeping or not
        for nid in (1, 2, 3):
            if rng.random() < 0.55:
                h.preload.append(("node", nid, rng.choice((17, 17, 18)), _c10_node_pv(rng), rng.choice(("", "Sk")), "", 0, 0,
                                  False, rng.random() < 0.15))
                for c in (0, 1, 2):
                    if rng.random() < 0.3:
                        h.preload.append(("child", nid, c, c, 6, ""))
    reg = {p[1] for p in h.preload if p[0] == "node"}
    handed: list = []
    for _ in range(rng.randint(4, 30)):
        senders = (1, 2, 3) + tuple(handed) * 2
        nid = rng.choice(senders)
        r = rng.random()
        if r < 0.07:
            line = f"255;{rng.choice((255, 255, 4))};3;0;3;"
            nxt = max(reg) + 1 if reg else 1
            if nxt <= 254:
                reg.add(nxt)
                if nxt not in handed and len(handed) < 3:
                    handed.append(nxt)
        elif r < 0.17:
            # a presentation on the system child: whatever its type (node / repeater, a sensor type, a type beyond the
            # version's table - decoding does not look at the table), the node has presented itself
            t = rng.choice((17, 17, 18)) if rng.random() < 0.5 else rng.choice(_c10_presentation_types(v))
            line = f"{nid};255;0;{rng.choice((0, 0, 1))};{t};{_c10_node_pv(rng, line_safe=True)}"
            reg.add(nid)
        elif r < 0.22:
            # a presentation on another child, of any type (also the node types 17 / 18): a CHILD presentation - missing
            # from an unknown node, no re-arming from a known one
            t = rng.choice((17, 18)) if rng.random() < 0.4 else rng.choice(_c10_presentation_types(v))
            line = f"{nid};{rng.choice((0, 1, 2, 4, 254))};0;{rng.choice((0, 0, 1))};{t};d"
        elif r < 0.40 and nid in reg:
            # set / req of a child of a (probably) registered node: the missing-child path
            line = rng.choice(("{n};{c};1;{a};0;5", "{n};{c};2;{a};0;", "{n};{c};1;0;2;1")).format(
                n=nid, c=rng.choice((0, 1, 2)), a=rng.choice((0, 0, 1)))
        else:
            line = rng.choice(kinds).format(n=nid, v=rng.choice((v, v, v + ".1", "2.1.0", "2.2", "1.5")))
            f = line.split(";")
            if f[1] == "255" and f[2] == "0" and f[4] == "17":
                reg.add(nid)
        faults = (rng.choice((False, True, True, gw.CANCEL)),) if rng.random() < 0.25 else ()
        h.ops.append(("recv", line, faults, gw.DEFAULT_TIME))
    return h


def _c10_version_grid(ctx, rng) -> list:
    """Episodes of a missing CHILD on a KNOWN node, systematically: gateway protocol x the version the node's entry holds x
    how the entry came to be there (preloaded / restored without children, preloaded with another child, the node
    presented itself with that version as payload, an id request registered a placeholder).  Each history: the node reports
    from / is asked about a child it never presented (twice: one request), another node does the same (its own request),
    possibly the first request write fails (then the next message asks again), the node presents itself (the entry's
    version changes to the new payload; re-armed), and reports from the missing child again (one request, then silence)."""
    out = []
    origins = ("preloaded", "preloaded with another child", "presented", "id request")
    pvs = list(C10_NODE_PVS)
    k = 0
    for v in lib.VERSIONS:
        for origin in origins:
            if ctx.tier == "thorough":
                chosen = pvs
            else:
                # quick: half of the versions per (protocol, origin) cell, rotating with the seed and the cell; always one
                # of each line (1.x, 2.x) so that no cell is ever without a node older / not older than the gateway
                start = (ctx.seed * 7 + k * 3) % len(pvs)
                chosen = [pvs[(start + 2 * j) % len(pvs)] for j in range(len(pvs) // 2)] + [rng.choice(("1.4", "1.5", "1.5.1"))]
            k += 1
            for pv in chosen:
                h = Hist(v, True)
                nid, other = rng.choice(((1, 2), (2, 1), (3, 1), (5, 7)))
                child = rng.choice((0, 1, 4))
                if origin.startswith("preloaded"):
                    h.preload.append(("node", nid, 17, pv, rng.choice(("", "Sk")), "", 0, 0, False, False))
                    if origin != "preloaded":
                        h.preload.append(("child", nid, child + 1, child + 1, 6, ""))
                elif origin == "presented":
                    h.ops.append(("recv", f"{nid};255;0;0;17;{pv}", (), gw.DEFAULT_TIME))
                else:
                    # the id handed out is the highest registered id + 1: preload the ids below it (with the version of this
                    # cell - they are other nodes), the placeholder itself gets the handler's default
                    if nid > 1:
                        h.preload.append(("node", nid - 1, 17, pv, "", "", 0, 0, False, False))
                    h.ops.append(("recv", "255;255;3;0;3;", (), gw.DEFAULT_TIME))
                    other = nid + 20
                kinds = [f"{nid};{child};1;0;0;5", f"{nid};{child};2;0;0;", f"{nid};{child};1;1;2;1", f"{nid};{child};2;1;16;"]
                first_fault = rng.choice(((), (), (True,), (gw.CANCEL,)))
                h.ops.append(("recv", rng.choice(kinds), first_fault, gw.DEFAULT_TIME))
                h.ops.append(("recv", rng.choice(kinds), (), gw.DEFAULT_TIME))
                h.ops.append(("recv", f"{other};{child};1;0;0;5", (), gw.DEFAULT_TIME))
                h.ops.append(("recv", rng.choice(kinds), (), gw.DEFAULT_TIME))
                h.ops.append(("recv", f"{nid};255;0;0;17;{rng.choice(pvs)}", (), gw.DEFAULT_TIME))
                h.ops.append(("recv", rng.choice(kinds), (), gw.DEFAULT_TIME))
                h.ops.append(("recv", rng.choice(kinds), (), gw.DEFAULT_TIME))
                out.append(h)
    return out


def _c10_pv_class(pv) -> str:
    """Coverage only: which kind of version a known node's entry held when one of its children was missing."""
    m = re.match(r"^(\d+)\.(\d+)", pv or "")
    if not m:
        return "not a dotted version"
    major, minor = int(m.group(1)), int(m.group(2))
    return "1.x" if major == 1 else "2.x" if major == 2 else "below 1.0" if major == 0 else "3 or more"


def run_c10(ctx) -> Corr:
    corr = Corr("C10", "histories over 3 known/unknown nodes (plus the ids handed out by id requests) mixing every kind that can "
                "hit a missing node or child (set, req, "
                "stream, child presentation, battery, sketch name/version, discover response, heartbeat response, pre-sleep), "
                "node presentations with any version payload, id requests (placeholder entries) and write faults on the request "
                "x 5 versions, over registries whose entries hold any stored node version (1.x, 2.x, patch levels, unknown "
                "lines, no version at all); a grid protocol x stored node version x origin of the entry (preloaded, "
                "presented, id request) of missing-child episodes; presentations of every type of the version's table and "
                "beyond it, on the system child (= the node presents itself, whatever the type) and on other children (child "
                "presentations, also of the node types 17 / 18), from unknown and known nodes with and without a request "
                "outstanding - in the random histories and in a grid protocol x sender state x type; compared on the writes view with the Lean "
                "model; oracle = one outstanding-request flag per node maintained from the trace, requests read from the "
                "transport's write log. Plus registries restored from a persistence file (both file formats) by a real "
                "`async with gateway`. non-trivial = distinct "
                "(state, line) that fails with a missing-node/child error")
    rng = lib.rng_for(ctx.seed, "c10")
    hists = [h for _, h in corpus_histories("C10")]
    n = 300 if ctx.tier == "quick" else 5000
    kinds = ["{n};0;1;0;0;5", "{n};1;2;0;0;", "{n};255;4;0;0;fw", "{n};1;0;0;6;d", "{n};255;3;0;0;50", "{n};255;3;0;11;S",
             "{n};255;3;0;12;1", "{n};255;3;0;21;0", "{n};255;3;0;22;5", "{n};255;3;0;32;5", "{n};255;0;0;17;2.0", "{n};255;0;0;17;2.0",
             "{n};255;3;0;6;", "0;255;3;0;9;log",
             # another party speaks in between: the gateway reports its version (again), presents itself, is ready
             "0;255;3;0;2;{v}", "0;255;0;0;18;{v}", "0;255;3;0;14;ready"]
    for i in range(n):
        hists.append(_c10_random_history(rng, lib.VERSIONS[i % 5], kinds))
    hists += _c10_version_grid(ctx, lib.rng_for(ctx.seed, "c10grid"))
    hists += _c10_presentation_grid(ctx, lib.rng_for(ctx.seed, "c10presentations"))
    impl = run_both(hists, corr, ctx, "writes", "writes view")
    for h, io in zip(hists, impl):
        outstanding: set = set()
        placeholders: set = set()     # coverage only: ids that entered the registry through an id request, not yet presented
        for i, op in enumerate(h.ops):
            before, o = io[i], io[i + 1]
            f = fields_of(op[1]) if op[0] == "recv" else None
            if f is None:
                continue
            placeholders |= set(o["nodes"]) - set(before["nodes"]) if (f[2], f[4]) == (3, 3) else set()
            if f[2] == 0 and f[1] == 255:
                placeholders.discard(f[0])
            case = {"history": Hist(h.version, h.metric, h.preload, h.ops[: i + 1]).to_json(), "outcome": o["out"],
                    "writes": [list(w) for w in o["writes"]]}
            # the requests of this step, read from the transport's write log (attempts: line, completed or not)
            reqs = [w for w in o["writes"] if w[0].split(";")[2:5] == ["3", "0", "19"]]
            if before["proto"] not in V20:
                if reqs:
                    corr.violate("a presentation request was written under a protocol before 2.0", case)
                    break
                continue
            _, missing = expected_writes(before, f, h, op[3], o["out"])
            if f[2] == 0:
                table = proto_tables(before["proto"])["presentation"]
                corr.count(f"presentation on {'the system child' if f[1] == 255 else 'another child'}, type "
                           f"{'17 / 18' if f[4] in (17, 18) else 'of the table, not 17 / 18' if str(f[4]) in table else 'beyond the table'}, "
                           f"sender {'known' if f[0] in before['nodes'] else 'unknown'}, request "
                           f"{'outstanding' if f[0] in outstanding else 'not outstanding'}")
            # the episode of a node ends when it has presented itself: a presentation on the system child, of whatever type,
            # after which the registry holds a fresh entry for the node (what the library does with every such line)
            if _c10_presents_node(f, o["nodes"]):
                outstanding.discard(f[0])
            elif f[2] == 0 and f[1] == 255:
                corr.count("presentation on the system child that did not register the node afresh (episode not ended)")
            if missing:
                entry = before["nodes"].get(f[0])
                corr.count("missing: unknown node" if entry is None else
                           f"missing: child of a known node whose entry holds version {_c10_pv_class(entry['pv'])}"
                           + (" (placeholder of an id request)" if f[0] in placeholders else ""))
                if f[0] in outstanding:
                    if reqs:
                        corr.violate("a second presentation request was written before the node presented itself", case)
                        break
                else:
                    if len(reqs) != 1 or reqs[0][0] != f"{f[0]};255;3;0;19;\n":
                        corr.violate("a message for an unknown node/child did not trigger exactly one presentation request addressed to that node", case)
                        break
                    if reqs[0][1]:
                        outstanding.add(f[0])
            elif reqs:
                corr.violate("a presentation request was written although nothing was missing", case)
                break
    account(corr, hists, impl, lambda h, op, before, o: "missing" in o["out"])
    _cancelled_request(corr)
    _c10_restored(corr, ctx)
    return corr


# -- registries restored from a persistence file ---------------------------------------------------
# The registry a controller starts with is usually not empty and not built by this run: `Config(persistence_file=...)`
# restores it when the gateway context is entered - entries written by an earlier run (any node version: the nodes
# of an installation are flashed at different times) or by pymysensors (the older file format the schema still reads).
# A case: {"restored_registry": {"version", "format", "nodes": [[id, stored version, [children]]...], "lines": [...]}}.


def _c10_restored_file(path: str, fmt: str, nodes) -> None:
    import json
    data = {}
    for nid, pv, children in nodes:
        if fmt == "aiomysensors":
            data[str(nid)] = {"node_id": nid, "node_type": 17, "protocol_version": pv, "sketch_name": "Sk", "sketch_version": "1.0",
                              "battery_level": 0, "heartbeat": 0, "sleeping": False,
                              "children": {str(c): {"child_id": c, "child_type": 6, "description": "", "values": {}} for c in children}}
        else:   # the pymysensors names, read through the schema's compatibility hook
            data[str(nid)] = {"sensor_id": nid, "type": 17, "protocol_version": pv, "sketch_name": None, "sketch_version": None,
                              "battery_level": 0, "heartbeat": 0,
                              "children": {str(c): {"id": c, "type": 6, "description": "", "values": {}} for c in children}}
    with open(path, "w", encoding="utf-8") as f:
        json.dump(data, f)


async def _c10_restored_run(sc: dict, path: str):
    """Run one scenario on the real gateway; yields nothing, returns the steps: (line, outcome, registry before,
    active protocol before, write attempts of the step)."""
    from aiomysensors.gateway import Config, Gateway
    _c10_restored_file(path, sc["format"], sc["nodes"])
    tr = gw.FaultTransport()
    g = Gateway(tr, Config(persistence_file=path))
    steps = []
    async with g:
        for line in [f"0;255;3;0;2;{sc['version']}", *sc["lines"]]:
            before = gw.snapshot_nodes(g)
            proto = g.protocol.VERSION
            tr.lines, tr.attempts = [line], []
            try:
                out = gw.render_msg(await anext(g.listen()))
            except BaseException as e:  # noqa: BLE001
                out = gw.render_exc(e)
            steps.append((line, out, before, proto, list(tr.attempts), gw.snapshot_nodes(g)))
    return steps


def _c10_restored_judge(steps):
    """The property over one run: (index of the first offending step, what) or None.  What is missing is decided from the
    real registry before the step; the requests are the lines in the transport's write log."""
    outstanding: set = set()
    for i, (line, out, before, proto, attempts, after) in enumerate(steps):
        f = fields_of(line)
        if f is None:
            continue
        reqs = [w for w in attempts if w[0].split(";")[2:5] == ["3", "0", "19"]]
        if proto not in V20:
            if reqs:
                return i, "a presentation request was written under a protocol before 2.0"
            continue
        if _c10_presents_node(f, after):
            outstanding.discard(f[0])
        missing = (f[2] in (1, 2) and (f[0] not in before or f[1] not in before[f[0]]["children"])) or (
            f[2] == 0 and f[1] != 255 and f[0] not in before)
        if missing and f[0] not in outstanding:
            if [w[0] for w in reqs] != [f"{f[0]};255;3;0;19;\n"]:
                return i, ("a message for an unknown node/child did not trigger exactly one presentation request addressed to "
                           "that node (registry restored from a persistence file)")
            outstanding.add(f[0])
        elif reqs:
            return i, ("a second presentation request was written before the node presented itself" if missing else
                       "a presentation request was written although nothing was missing")
    return None


def _c10_restored_scenarios(ctx):
    rng = lib.rng_for(ctx.seed, "c10restored")
    out = []
    for v in lib.VERSIONS:
        for fmt in ("aiomysensors", "pymysensors"):
            for _ in range(2 if ctx.tier == "quick" else 20):
                ids = rng.sample((1, 2, 3, 7, 40), rng.randint(1, 3))
                nodes = [[nid, _c10_node_pv(rng), sorted(rng.sample((0, 1, 2), rng.randint(0, 2)))] for nid in ids]
                lines = []
                for _ in range(rng.randint(5, 12)):
                    nid = rng.choice(ids + [9])
                    lines.append(rng.choice(("{n};{c};1;0;0;5", "{n};{c};2;0;0;", "{n};{c};1;1;2;1", "{n};{c};1;0;0;5", "{n};255;0;0;17;{pv}",
                                             "{n};{c};0;0;6;d", "{n};255;0;0;{t};{pv}", "{n};{c};0;0;{t};d")).format(
                        n=nid, c=rng.choice((0, 1, 2, 3)), pv=_c10_node_pv(rng, True), t=rng.choice(_c10_presentation_types(v))))
                out.append({"version": v, "format": fmt, "nodes": nodes, "lines": lines})
    return out


def _c10_restored(corr: Corr, ctx) -> None:
    import asyncio
    import os
    path = os.path.join(lib.scratch(), "c10-restored.json")
    for sc in _c10_restored_scenarios(ctx):
        steps = asyncio.run(_c10_restored_run(sc, path))
        bad = _c10_restored_judge(steps)
        n_missing = sum(1 for _, out, *_ in steps if "missing" in out)
        corr.case(("restored", sc["version"], sc["format"], str(sc["nodes"]), str(sc["lines"])), n_missing > 0, None)
        corr.count("restored registry: runs")
        corr.count("restored registry: steps rejected for a missing node/child", n_missing)
        if bad is not None:
            i, what = bad
            cut = {**sc, "lines": sc["lines"][:i]}     # step 0 is the version line
            corr.violate(what, {"restored_registry": cut, "outcome": steps[i][1], "writes": [list(w) for w in steps[i][4]]})
            return


def replay_c10_restored(case) -> None:
    import asyncio
    import os
    sc = case["restored_registry"]
    print(f"persistence file ({sc['format']} format) holding [id, stored version, children]: {sc['nodes']}")
    steps = asyncio.run(_c10_restored_run(sc, os.path.join(lib.scratch(), "c10-restored-replay.json")))
    for i, (line, out, before, proto, attempts, _after) in enumerate(steps):
        print(f"step {i}: recv {line!r} (protocol {proto})\n   impl : {out} {attempts}")
    bad = _c10_restored_judge(steps)
    print("NOT reproduced" if bad is None else f"reproduced at step {bad[0]}: {bad[1]}")


def _cancelled_request(corr: Corr) -> None:
    """'A request whose write failed does not count as sent' — also when the write did not fail with an exception of the
    transport but was aborted: the task waiting in listen() is cancelled while the request is being written."""
    import asyncio

    from aiomysensors import exceptions as exc

    class Stalling(gw.FaultTransport):
        def __init__(self) -> None:
            super().__init__()
            self.stall = False
            self.entered = asyncio.Event()

        async def write(self, decoded_message: str) -> None:
            if self.stall:
                self.entered.set()
                await asyncio.Event().wait()          # never completes: the caller will be cancelled here
            await super().write(decoded_message)

    async def go():
        for v in V20:
            for first in ("1;0;1;0;2;5", "1;255;3;0;0;50", "1;1;2;0;2;"):
                tr = Stalling()
                from aiomysensors.gateway import Config, Gateway
                g = Gateway(tr, Config())
                g.protocol_version = v
                tr.lines = [first]
                tr.stall = True
                task = asyncio.ensure_future(anext(g.listen()))
                try:
                    await asyncio.wait_for(tr.entered.wait(), 2)
                except TimeoutError:
                    corr.notes.append("cancelled-request scenario: the request write was never started")
                    task.cancel()
                    continue
                task.cancel()
                try:
                    await task
                except (asyncio.CancelledError, exc.AIOMySensorsError):
                    pass
                tr.stall = False
                tr.attempts = []
                for line in ("1;0;1;0;2;6", "1;0;1;0;2;7", "1;255;3;0;11;S"):
                    tr.lines = [line]
                    try:
                        await anext(g.listen())
                    except exc.AIOMySensorsError:
                        pass
                reqs = [w for w in tr.attempts if w[0] == "1;255;3;0;19;\n"]
                case = {"version": v, "first_message": first, "writes_after_the_cancelled_request": [list(w) for w in tr.attempts]}
                if len(reqs) != 1:
                    corr.violate("a presentation request whose write was aborted (listener cancelled) counted as sent, or was "
                                 "requested more than once afterwards", case)
                corr.case(("cancelled-request", v, first), True, None)
                corr.count("cancelled-request")
    asyncio.run(go())


# ---- C11 --------------------------------------------------------------------------------------


def run_c11(ctx) -> Corr:
    corr = Corr("C11", "id requests interleaved with presentations over registry shapes: every subset of {0,1,2,253,254,255} as "
                "the initial registry (complete), dense/sparse random registries, write faults on the response, request child "
                "ids 255 and others x 5 versions; compared on the ids view (outcome, writes, registered ids) with the Lean "
                "model; oracle = freshness and range restated in Python. non-trivial = distinct (registry keys, request). "
                "Plus lives of ONE Gateway object with a persistence file: several sessions (every enter restores the file into "
                "the registry the object holds), final save failing with the volume away, file replaced / deleted / damaged "
                "between sessions, other node files merged with Persistence.load, id requests and presentations in between; "
                "oracle = ids handed out over the whole life are in range, pairwise distinct and distinct from every id the "
                "object ever had registered (restored, presented, handed out); compared with the model on the ids view (a "
                "successful load = gnode per file entry). non-trivial there = a load of a file lacking registered ids, and "
                "every id request after one. Plus restarts of the controller (a NEW Gateway object on the same file) after sessions "
                "- real `async with gateway:` statements in a task - that end in every way such a statement can end (body ends, "
                "library error from the listen loop or an exception of the application leaves the block, task cancelled): ids "
                "stay distinct over all runs as long as no context statement reported a failure of its own (final save) and "
                "nobody else put another registry (a loadable file, an empty file, no file) there. Plus persistence files "
                "DAMAGED IN PLACE between or during the runs in every way Persistence.load tells apart (cut short at every "
                "kind of offset, undecodable bytes, no JSON, nested too deeply, wrong shape, one invalid node record among valid "
                "ones in each position, path unreadable: a directory / a symlink loop) followed by a restart or a re-entry "
                "and id requests: a context statement that reports the read error hands out nothing; one that starts "
                "all the same must not hand out an id the library had saved in that file nor the id of a well-formed "
                "record the file still holds")
    rng = lib.rng_for(ctx.seed, "c11")
    hists = [h for _, h in corpus_histories("C11")]
    base = [0, 1, 2, 253, 254, 255]
    for r in range(len(base) + 1):
        for subset in itertools.combinations(base, r):
            for vi, v in enumerate(lib.VERSIONS if ctx.tier == "thorough" else [lib.VERSIONS[(r + len(hists)) % 5]]):
                h = Hist(v, True, [("node", n, 17, "2.0", "", "", 0, 0, False, False) for n in subset])
                for _ in range(3):
                    h.ops.append(("recv", "255;255;3;0;3;", (), gw.DEFAULT_TIME))
                h.ops.append(("recv", "255;7;3;1;3;", (True,), gw.DEFAULT_TIME))
                h.ops.append(("recv", "255;255;3;0;3;", (gw.CANCEL,), gw.DEFAULT_TIME))
                h.ops.append(("recv", "255;255;3;0;3;", (), gw.DEFAULT_TIME))
                hists.append(h)
    # dense registries around the boundary: the number of nodes and the highest id disagree by the gateway node 0
    for lo, hi in ((0, 252), (0, 253), (1, 253), (1, 254), (0, 254), (2, 253), (0, 251)):
        for v in (lib.VERSIONS if ctx.tier == "thorough" else [lib.VERSIONS[(lo + hi) % 5]]):
            h = Hist(v, True, [("node", n, 17, "2.0", "", "", 0, 0, False, False) for n in range(lo, hi + 1)])
            for _ in range(3):
                h.ops.append(("recv", "255;255;3;0;3;", (), gw.DEFAULT_TIME))
            hists.append(h)
    for i in range(150 if ctx.tier == "quick" else 3000):
        v = lib.VERSIONS[i % 5]
        ids = rng.sample(range(0, 256), rng.randint(0, 12)) if rng.random() < 0.7 else list(range(1, rng.randint(2, 40)))
        rng.shuffle(ids)
        h = Hist(v if rng.random() < 0.8 else None, True, [("node", n, 17, "2.0", "", "", 0, 0, False, False) for n in ids])
        for _ in range(rng.randint(2, 15)):
            r = rng.random()
            if r < 0.6:
                h.ops.append(("recv", f"{rng.choice((255, 255, 3))};{rng.choice((255, 255, 9))};3;0;3;",
                              (rng.choice((False, True, gw.CANCEL)),) if rng.random() < 0.2 else (), gw.DEFAULT_TIME))
            elif r < 0.85:
                h.ops.append(("recv", f"{rng.randint(0, 255)};255;0;0;17;2.0", (), gw.DEFAULT_TIME))
            else:
                h.ops.append(("recv", gw.gen_line(rng, v), (), gw.DEFAULT_TIME))
        hists.append(h)
    impl = run_both(hists, corr, ctx, "ids", "ids view")
    for h, io in zip(hists, impl):
        handed: set = set()
        for i, op in enumerate(h.ops):
            before, o = io[i], io[i + 1]
            f = fields_of(op[1]) if op[0] == "recv" else None
            if f is None or not (f[2] == 3 and f[4] == 3):
                if set(before["nodes"]) - set(o["nodes"]):
                    corr.violate("a node disappeared from the registry", {"history": Hist(h.version, h.metric, h.preload, h.ops[: i + 1]).to_json()})
                    break
                continue
            case = {"history": Hist(h.version, h.metric, h.preload, h.ops[: i + 1]).to_json(), "outcome": o["out"],
                    "writes": [list(w) for w in o["writes"]], "registry_keys": sorted(before["nodes"])}
            resp = [w for w in o["writes"] if w[0].split(";")[2:5] == ["3", "0", "4"]]
            full = bool(before["nodes"]) and max(before["nodes"]) >= 254
            failed_query = any(not w[1] for w in o["writes"])   # the version query after the error may itself fail
            if o["out"] == "err tooManyNodes" or (full and o["out"] in ("err transportFailed", "foreign CancelledError") and failed_query):
                if resp or set(o["nodes"]) != set(before["nodes"]):
                    corr.violate("too-many-nodes error but something was written or registered", case)
                    break
                if not full:
                    corr.violate("too-many-nodes error while an id above the highest registered id was still free", case)
                    break
                continue
            if len(resp) != 1:
                corr.violate("an id request did not get exactly one id response", case)
                break
            parts = resp[0][0].rstrip("\n").split(";")
            try:
                nid = int(parts[5])
            except ValueError:
                corr.violate("the id response does not carry an id", case)
                break
            if not (1 <= nid <= 254) or nid in before["nodes"] or nid in handed or nid not in o["nodes"]:
                corr.violate("the id handed out is not fresh, not in 1..254, or not registered before the answer", case)
                break
            if parts[0] != str(f[0]) or parts[1] != str(f[1]) or parts[2] != "3":
                corr.violate("the id response is not addressed like the request", case)
                break
            handed.add(nid)
    account(corr, hists, impl, lambda h, op, before, o: op[0] == "recv" and ";3;" in op[1] and set(before["nodes"]) != set(o["nodes"]) or o["out"] == "err tooManyNodes")
    # the registry as an application gets it: restored from a persistence file at every enter of the same Gateway object,
    # final saves that fail, files replaced between sessions, other node files merged in (harness/props/idlife.py)
    from . import idlife
    idlife.run(corr, ctx)
    return corr


# ---- C12 --------------------------------------------------------------------------------------


def _c12_oracle(corr: Corr, h: Hist, io) -> None:
    """C12 restated over one observed trace: every send ends written / held for a sleeping destination / in a library
    error; whatever is held is handed to the transport (once) at its node's next wake - whatever happened in between.

    "The message" of a send is the object as it reads AT THE CALL: a caller's object (an operation with a handle, see
    `gw.caller_object`) that was sent before and had attributes assigned since is judged by its line as it is now.
    What is held for a sleeping node is the caller's object itself (`set_messages[key] = message`): an assignment to it
    while it waits changes the command that waits - the entry stays under the key it was held under, and what the wake
    of the node it is NOW addressed to has to hand to the transport is its line as it reads at that wake."""
    pending = {}          # key it was held under -> {"line", "node", "obj": handle | None, "step"}

    def caller_assigns(handle, fields):
        for e in pending.values():
            if e["obj"] == handle:
                if e["line"] != line_of(fields):
                    corr.count("oracle: the caller assigned to an object while it was held")
                e["line"], e["node"] = line_of(fields), fields[0]

    for i, op in enumerate(h.ops):
        before, o = io[i], io[i + 1]
        case = {"history": Hist(h.version, h.metric, h.preload, h.ops[: i + 1]).to_json(), "outcome": o["out"],
                "writes": [list(w) for w in o["writes"]]}
        if op[0] == "session":
            continue
        if op[0] == "assign":
            caller_assigns(op[1], op[2])
            continue
        if op[0] == "send":
            f = op[1]
            handle = op[4] if len(op) > 4 else None
            if f is None:
                if o["out"] != "err invalidMessage" or o["writes"]:
                    corr.violate("an object that is not a message was not rejected as an invalid message", case)
                    break
                continue
            if handle is not None:
                caller_assigns(handle, f)
                case["object"] = handle
            if o["out"].startswith("foreign"):
                corr.violate("send raised an exception that is not a library error", case)
                break
            if o["out"].startswith("err"):
                continue
            line = line_of(f)
            key = (f[0], f[1], f[4])
            # (observed on the gateway: the buffer's entry for the key is the message that was sent / this call made it so)
            is_held, held_by_call = o["held"]
            sleeping = f[0] in before["nodes"] and before["nodes"][f[0]]["sleeping"]
            if o["writes"] == [(line, True)] and not held_by_call:
                continue
            if not o["writes"] and is_held and sleeping:
                pending[key] = {"line": line, "node": f[0], "obj": handle, "step": i + 1}
                corr.count("oracle: send held for a sleeping destination")
                continue
            if o["writes"] and (line, True) not in o["writes"]:
                corr.violate("send returned normally, but what it handed to the transport is not the line of the message "
                             "as it was at the call", {**case, "line_of_the_message": line})
                break
            corr.violate("send returned normally but the message was neither written nor held for a sleeping destination", case)
            break
        else:
            f = fields_of(op[1])
            if f is not None and is_wake(before["proto"], f) and f[0] in before["nodes"] and not _heartbeat_accepted(before["proto"], f):
                # a heartbeat response whose payload is no number is an invalid message, not a wake (what is held stays held)
                corr.count("oracle: heartbeat response with a payload that is no number (no wake)")
            elif f is not None and is_wake(before["proto"], f) and f[0] in before["nodes"]:
                got = [w[0] for w in o["writes"] if w[1]]
                failed = o["out"] in ("err transportFailed", "foreign CancelledError") and any(not w[1] for w in o["writes"])
                flagged = before["nodes"][f[0]]["sleeping"]
                by_line = {}
                for key in [k for k in pending if pending[k]["node"] == f[0]]:
                    by_line.setdefault(pending[key]["line"], []).append(key)
                for line, keys in by_line.items():
                    # (several entries read the same line only when they are one object of the caller held under several keys)
                    n_got = got.count(line)
                    if n_got > len(keys):
                        corr.violate("a held message was handed to the transport more than once at its node's wake", case)
                    for j, key in enumerate(keys):
                        if j < n_got:
                            corr.count("oracle: held message released at its node's wake" if flagged else
                                       "oracle: held message released at the wake of a node that presented itself again meanwhile")
                            del pending[key]
                        elif failed and any(tuple(k) == key for k, _ in o["sbuf"]):
                            pass   # the wake's writes failed: the message is still held, a later wake must release it
                        else:
                            corr.violate("a held message was neither handed to the transport at its node's wake nor kept for a later one",
                                         {**case, "held": line, "held_under": list(key), "held_since_step": pending[key]["step"],
                                          **({"object": pending[key]["obj"]} if pending[key]["obj"] is not None else {})})
                            del pending[key]
    # (a held object the caller re-addressed to a node that never presented itself has no wake to wait for)
    left = [k for k, e in pending.items() if e["node"] in io[-1]["nodes"]]
    if h.version in V20 and left:
        corr.violate("a held message was never released although its node woke", {"history": h.to_json(), "pending": [list(k) for k in left]})


def _heartbeat_accepted(proto: str, f) -> bool:
    """2.0 / 2.1: the wake signal is the heartbeat response, whose payload the handler reads as an integer (Python's
    `int`) BEFORE it releases anything; a payload that is no integer makes the line an invalid message.  The wake
    signal of 2.2 (pre-sleep notification) carries a payload nobody reads."""
    if proto == "2.2":
        return True
    try:
        int(f[5])
    except ValueError:
        return False
    return True


def _c12_between_kinds(v: str, n: int, m: int, pay):
    """Kinds of traffic that can come between the moment a command is held for node `n` and `n`'s next wake, by name.
    `m` is another registered node; `pay()` yields a payload no other send of the history uses.  None of them is a wake
    of `n` under protocol `v`, so none of them may make the held command disappear."""
    t = gw.DEFAULT_TIME
    other_wake = 32 if v == "2.2" else 22
    not_wake = [22, 33] if v == "2.2" else [32, 33]       # 2.2: a heartbeat response is no wake; 2.0/2.1: 32/33 are not in the table
    kinds = {
        # the destination boots again (battery change, reset): its presentation replaces the registry entry
        "re-presentation": [("recv", f"{n};255;0;0;17;{v}", (), t)],
        "re-presentation with its children": [("recv", f"{n};255;0;0;17;{v}", (), t), ("recv", f"{n};0;0;0;6;d", (), t),
                                              ("recv", f"{n};1;0;0;3;e", (), t)],
        "re-presentation as another node type": [("recv", f"{n};255;0;0;18;2.1.1", (), t)],
        "re-presentation, sketch, battery": [("recv", f"{n};255;0;0;17;{v}", (), t), ("recv", f"{n};255;3;0;11;Sk", (), t),
                                             ("recv", f"{n};255;3;0;12;1.0", (), t), ("recv", f"{n};255;3;0;0;57", (), t)],
        "re-presentation twice": [("recv", f"{n};255;0;0;17;{v}", (), t), ("recv", f"{n};255;0;0;17;{v}", (), t)],
        # other traffic from the destination
        "child presentation": [("recv", f"{n};1;0;0;3;again", (), t)],
        "new child presentation": [("recv", f"{n};2;0;0;6;new", (), t)],
        "sketch name and version": [("recv", f"{n};255;3;0;11;Sk", (), t), ("recv", f"{n};255;3;0;12;1.0", (), t)],
        "battery report": [("recv", f"{n};255;3;0;0;57", (), t)],
        "value report": [("recv", f"{n};1;1;0;2;8", (), t)],
        "value report, held key": [("recv", f"{n};1;1;0;0;8", (), t)],
        "value request": [("recv", f"{n};1;2;0;2;", (), t)],
        "report for a child not presented": [("recv", f"{n};7;1;0;2;8", (), t)],
        "internal messages that are no wake": [("recv", f"{n};255;3;0;{x};500", (), t) for x in not_wake] + [("recv", f"{n};255;3;0;21;0", (), t)],
        "config and time requests": [("recv", f"{n};255;3;0;6;", (), t), ("recv", f"{n};255;3;0;1;", (), t)],
        "stream message": [("recv", f"{n};255;4;0;0;0102", (), t)],
        # traffic that is not from the destination
        "another node presents": [("recv", f"{m};255;0;0;17;{v}", (), t), ("recv", f"{m};1;0;0;6;d", (), t)],
        "another node wakes": [("recv", f"{m};255;3;0;{other_wake};500", (), t)],
        "an unknown node wakes": [("recv", f"9;255;3;0;{other_wake};500", (), t)],
        "gateway messages": [("recv", "0;255;3;0;9;log;text", (), t), ("recv", "0;255;3;0;14;ready", (), t), ("recv", f"0;255;3;0;2;{v}", (), t)],
        "id request": [("recv", "255;255;3;0;3;", (), t)],
        "rejected lines": [("recv", "bad line", (), t), ("recv", f"{n};1;1;0;abc;x", (), t), ("recv", "", (), t)],
        "reconnect": [gw.SESSION],
        # the application goes on sending
        "unbuffered send, another key": [("send", (n, 1, 1, 0, 3, pay()), False, ())],
        "send, another key": [("send", (n, 1, 1, 1, 3, pay()), True, ())],
        "send, same key": [("send", (n, 1, 1, 0, 0, pay()), True, ())],
        "send to another node": [("send", (m, 1, 1, 0, 0, pay()), True, ())],
        "other commands to the destination": [("send", (n, 255, 3, 0, 13, ""), True, ()), ("send", (n, 1, 2, 0, 0, ""), True, ()),
                                              ("send", (n, 255, 4, 0, 1, "fw"), True, ())],
    }
    return kinds


def _c12_between_histories(ctx, corr: Corr):
    """Histories in which something happens BETWEEN the moment a set command is held for a node and that node's next
    wake: the node presents itself again (the registry entry is replaced: a fresh node, not flagged as sleeping, no
    children), sends other messages, other nodes and the gateway talk, the application reconnects or goes on sending -
    once, in combination, and before EVERY wake (a node that boots fresh each cycle).  The property asks the same of
    all of them: what was held is handed to the transport at the destination's next wake."""
    hists = []
    t = gw.DEFAULT_TIME

    def counter():
        c = [100]

        def pay():
            c[0] += 1
            return str(c[0])
        return pay

    def wake(v, n, faults=()):
        return ("recv", f"{n};255;3;0;{32 if v == '2.2' else 22};500", faults, t)

    def boot(v, n):
        return [("recv", f"{n};255;0;0;17;{v}", (), t), ("recv", f"{n};0;0;0;6;d", (), t), ("recv", f"{n};1;0;0;3;e", (), t)]

    # 1. the grid: every kind of traffic x four shapes x five versions (1.x: the sleeping flag comes from persistence)
    for v in lib.VERSIONS:
        names = list(_c12_between_kinds(v, 1, 2, counter()))
        for name in names:
            for shape in ("between", "after re-presentation", "before re-presentation", "every cycle"):
                pay = counter()
                kinds = _c12_between_kinds(v, 1, 2, pay)
                rep = kinds["re-presentation"]
                if v in V20:
                    h = Hist(v, True)
                    h.ops = boot(v, 1) + boot(v, 2) + [wake(v, 1), wake(v, 2)]
                else:
                    h = Hist(v, True, [("node", 1, 17, v, "", "", 0, 0, False, True), ("child", 1, 0, 0, 6, "d"), ("child", 1, 1, 1, 3, "e"),
                                       ("node", 2, 17, v, "", "", 0, 0, False, True), ("child", 2, 1, 1, 3, "e")])
                hold = [("send", (1, 1, 1, 0, 0, pay()), True, ()), ("send", (1, 0, 1, 1, 2, pay()), True, ())]
                if shape == "between":
                    h.ops += hold[:1] + kinds[name] + [wake(v, 1)]
                elif shape == "after re-presentation":
                    h.ops += hold + rep + kinds[name] + [wake(v, 1)]
                elif shape == "before re-presentation":
                    h.ops += hold + kinds[name] + rep + [wake(v, 1)]
                else:
                    for _ in range(3):
                        # the node boots fresh before every wake: each cycle's command is held (the node went to sleep
                        # after its last wake), then the node presents itself again, then it wakes
                        h.ops += [("send", (1, 1, 1, 0, 0, pay()), True, ())] + rep + _c12_between_kinds(v, 1, 2, pay)[name] + [wake(v, 1)]
                h.ops += [wake(v, 1), wake(v, 2)]
                hists.append(h)
                corr.count("between hold and wake: " + name)
                corr.count("shape: " + shape)
    # 2. random cycles over two registered nodes (and sends to one that never presented)
    rng = lib.rng_for(ctx.seed, "c12between")
    n_rand = 120 if ctx.tier == "quick" else 2500
    for i in range(n_rand):
        v = (lib.VERSIONS[2:] + lib.VERSIONS)[i % 8]          # the 2.x versions twice as often: only they have wakes
        pay = counter()
        if v in V20 and rng.random() < 0.7:
            h = Hist(v, rng.random() < 0.7)
            h.ops = boot(v, 1) + boot(v, 2) + [wake(v, 1), wake(v, 2)]
        else:
            h = Hist(v, True, [("node", 1, 17, v, "", "", 0, 0, False, True), ("child", 1, 0, 0, 6, "d"), ("child", 1, 1, 1, 3, "e"),
                               ("node", 2, 17, v, "", "", 0, 0, rng.random() < 0.2, rng.random() < 0.7), ("child", 2, 1, 1, 3, "e")])
        fresh = {n: rng.random() < 0.4 for n in (1, 2)}         # boots fresh (presents itself) before every wake
        for _ in range(rng.randint(1, 6 if ctx.tier == "quick" else 12)):
            n = rng.choice((1, 2))
            m = 3 - n
            for _ in range(rng.randint(1, 3)):
                h.ops.append(("send", (rng.choice((n, n, n, m, 3)), rng.choice((0, 1)), 1, rng.choice((0, 1)), rng.choice((0, 2)), pay()),
                              rng.random() < 0.9, ()))
            between = []
            for _ in range(rng.choice((0, 1, 1, 2, 3))):
                kinds = _c12_between_kinds(v, n, m, pay)      # built anew for every draw: no two sends carry the same payload
                between += kinds[rng.choice(list(kinds))]
            if fresh[n] or rng.random() < 0.3:
                kinds = _c12_between_kinds(v, n, m, pay)
                rep = kinds[rng.choice([k for k in kinds if k.startswith("re-presentation")])]
                k = rng.randint(0, len(between))
                between = between[:k] + rep + between[k:]
                corr.count("random cycles: destination re-presents between hold and wake")
            else:
                corr.count("random cycles: no re-presentation between hold and wake")
            h.ops += between
            if rng.random() < 0.1:
                # a wake during which a write fails (or the listening task is cancelled): what was not written stays held
                h.ops.append(wake(v, n, gw.gen_faults(rng, 0.3)))
                corr.count("random cycles: wake with failing writes")
            h.ops.append(wake(v, n))
        h.ops += [wake(v, 1), wake(v, 2)]
        hists.append(h)
    return hists


def _c12_wake_payload_histories(ctx, corr: Corr):
    """Histories about WHAT THE WAKE SIGNAL CARRIES when commands are held for its node.  "Handed to the transport at
    that node's next wake": the next wake signal the library accepts, whatever its payload.  The heartbeat response of
    2.0 / 2.1 carries a counter kept by the node (it restarts when the node boots), the pre-sleep notification of 2.2 a
    duration; the controller has a heartbeat value stored for the node - from the node's last wake, or restored from the
    persistence file (0, small, huge).  The grid: stored value x what the next wake carries relative to it (lower, equal,
    higher, 0, 1, huge, negative, written with a sign / blanks / leading zeros, and no number at all: rejected by
    2.0 / 2.1, so not a wake - what is held then waits for the next one) x node known to be sleeping from its restored
    record / from its own earlier wake x versions; two nodes with held commands, a second hold and a second wake that
    falls again, then wakes carrying 0.  Random cycles over two sleeping nodes whose counters walk (`next_wake_count`).
    recv / send operations only."""
    t0 = gw.DEFAULT_TIME
    hists = []

    def wake(v, n, text):
        return ("recv", f"{n};255;3;0;{32 if v == '2.2' else 22};{text}", (), t0)

    def carried(stored):
        return {"lower": str(stored - 1), "much lower": str(stored // 2 - 1), "equal": str(stored), "higher": str(stored + 1),
                "zero": "0", "one": "1", "huge": str(10 ** 30 + 7), "negative": "-3", "blank before": " 3", "blank after": "3 ",
                "plus sign": "+3", "leading zeros": "003", "empty": "", "letters": "abc", "decimal point": "1.5"}

    k = 0
    for v in lib.VERSIONS:
        thin = v not in V20          # 1.x has no wake signal: the line is rejected, what is held stays held
        for announced in ((False,) if thin else (False, True)):
            for stored in ((500, 0) if thin else (500, 7, 1, 0, 2 ** 32, 10 ** 30)):
                for name, text in carried(stored).items():
                    if thin and name not in ("lower", "equal", "empty"):
                        continue
                    k += 1
                    n, m, a = [(1, 2, 3), (3, 1, 2), (2, 254, 1)][k % 3]
                    h = Hist(v, True)
                    for node, flag, hb in ((n, not announced, 0 if announced else stored), (m, True, stored), (a, False, stored)):
                        h.preload.append(("node", node, 17, "2.0", "", "", 0, hb, False, flag))
                        for c in (0, 1):
                            h.preload.append(("child", node, c, c, 6, ""))
                    second = str(int(text) - 2) if _heartbeat_accepted("2.0", (n, 255, 3, 0, 22, text)) else "abc"
                    h.ops = ([wake(v, n, str(stored))] if announced else []) + [
                        ("send", (n, 1, 1, 0, 0, "10"), True, ()), ("send", (n, 0, 1, k % 2, 2, "11"), True, ()),
                        ("send", (m, 1, 1, 0, 0, "50"), True, ()), ("send", (a, 1, 1, 0, 0, "70"), True, ()),
                        wake(v, n, text),
                        ("send", (n, 1, 1, 0, 0, "12"), True, ()), ("send", (m, 0, 1, 0, 2, "51"), True, ()),
                        wake(v, n, second), wake(v, m, text),
                        ("send", (m, 1, 1, 0, 0, "52"), True, ()), ("send", (n, 1, 1, 0, 0, "13"), False, ()),
                        wake(v, m, "0"), wake(v, n, "0"), wake(v, a, "0")]
                    hists.append(h)
                    corr.count("wake payloads: the wake carries - " + name)
    corr.count("histories: what the wake signal carries x stored heartbeat value (grid)", len(hists))
    rng = lib.rng_for(ctx.seed, "c12wakepayloads")
    n_rand = 80 if ctx.tier == "quick" else 2000
    for i in range(n_rand):
        v = V20[i % 3]
        h = Hist(v, True)
        counts = {}
        for node in (1, 2):
            counts[node] = rng.choice((0, 0, 3, 500, 2 ** 32 - 1, 10 ** 20))
            h.preload.append(("node", node, 17, "2.0", "", "", 0, counts[node], False, rng.random() < 0.8))
            for c in (0, 1):
                h.preload.append(("child", node, c, c, 6, ""))
        pay = 100
        for _ in range(rng.randint(2, 8 if ctx.tier == "quick" else 20)):
            for _ in range(rng.randint(1, 3)):
                pay += 1
                h.ops.append(("send", (rng.choice((1, 2)), rng.choice((0, 1)), 1, rng.choice((0, 1)), rng.choice((0, 2)), str(pay)),
                              rng.random() < 0.9, ()))
            n = rng.choice((1, 2))
            if rng.random() < 0.08:
                h.ops.append(wake(v, n, rng.choice(WAKE_NOT_A_NUMBER)))
            else:
                counts[n] = next_wake_count(rng, counts[n])
                h.ops.append(wake(v, n, wake_text(rng, counts[n])))
        h.ops += [wake(v, 1, "0"), wake(v, 2, "0")]
        hists.append(h)
    corr.count("histories: what the wake signal carries, random walks of the nodes' counters", n_rand)
    return hists


# ---- C12 and the caller's own objects ------------------------------------------------------------------------------
#
# `send(message)` is handed an object that belongs to the caller.  The property speaks of "every message ... and every
# gateway state": the message of a call is the object as it reads at that call, whatever was done with the same
# instance before - sent already (written, or still held for a sleeping node), attributes assigned since.  The
# histories below use `gw`'s operations with a handle: one instance sent again after an assignment to any of its six
# attributes (one, several, all; there and back), to an awake / sleeping / unknown destination, with and without
# buffering; an instance assigned to WHILE it is held (and left alone, or sent again - under the same or another key);
# an instance sent to an awake node that goes to sleep before the next send; one template object used for several
# children and nodes; two instances that read the same; then every node wakes.


def _c12_changes(f, other_node: int) -> dict:
    """Named assignments to a caller's object reading `f` (a set command): what it reads afterwards."""
    n, c, cmd, ack, t, p = f
    c2, t2, p2 = (0 if c else 1), (3 if t == 2 else 2), _other_value(p)
    return {
        "payload": (n, c, cmd, ack, t, p2),
        "child_id": (n, c2, cmd, ack, t, p),
        "message_type": (n, c, cmd, ack, t2, p),
        "node_id": (other_node, c, cmd, ack, t, p),
        "ack": (n, c, cmd, 1 - ack, t, p),
        "command": (n, c, 2, ack, t, p),                        # the set command becomes a request for the same value type
        "payload and child_id": (n, c2, cmd, ack, t, p2),
        "every attribute": (other_node, c2, 2, 1 - ack, t2, p2),
    }


def _c12_object_histories(ctx, corr: Corr):
    t0 = gw.DEFAULT_TIME
    hists = []

    def S(fields, handle=None, buffer=True, faults=()):
        return ("send", tuple(fields), buffer, faults) if handle is None else ("send", tuple(fields), buffer, faults, handle)

    def preload(v):
        pre = [("node", 1, 17, v, "", "", 0, 0, False, False), ("node", 2, 17, v, "", "", 0, 0, False, True)]
        for n in (1, 2):
            for c in (0, 1, 2):
                pre.append(("child", n, c, c, 3, f"c{c}"))
        return pre

    # 1. the grid: assignment x destination x shape x version
    payloads = ["1", "on ", "22.5", ""]
    k = 0
    for v in lib.VERSIONS:
        wake_t = 32 if v == "2.2" else 22

        def wake(n, faults=(), wake_t=wake_t):
            return ("recv", f"{n};255;3;0;{wake_t};500", faults, t0)
        wakes = [wake(2), wake(1), wake(2), wake(1)]
        for dest, dest_name in ((1, "awake"), (2, "sleeping"), (3, "unknown")):
            other = {1: 2, 2: 1, 3: 2}[dest]
            for name in _c12_changes((dest, 1, 1, 0, 2, "1"), other):
                k += 1
                f0 = (dest, 1, 1, k % 2, 2, payloads[k % len(payloads)])
                f1 = _c12_changes(f0, other)[name]
                shapes = {
                    "sent, assigned to, sent again": [S(f0, 1), S(f1, 1)],
                    "sent, assigned to, sent again, unbuffered": [S(f0, 1, False), S(f1, 1, False)],
                    "sent, assigned to, sent, assigned back, sent": [S(f0, 1), S(f1, 1), S(f0, 1)],
                    "sent, assigned to while it may be held": [S(f0, 1), gw.assign_op(1, f1)],
                    "sent, wake, assigned to, sent again": [S(f0, 1), wake(dest), S(f1, 1)],
                    "sent, assigned to, assigned back": [S(f0, 1), gw.assign_op(1, f1), gw.assign_op(1, f0)],
                    "two objects reading the same, one assigned to": [S(f0, 1), S(f0, 2), S(f1, 2), S(f0, 1)],
                    "a message built for one call in between": [S(f0, 1), S(f1), S(f1, 1), S(f0)],
                }
                # not every shape for every cell (the cells rotate through them; each shape meets each assignment and
                # each destination under some version)
                names = list(shapes)
                pick = [names[(k + j) % len(names)] for j in range(3)] if ctx.tier == "quick" else names
                for shape in pick:
                    hists.append(Hist(v, True, preload(v), shapes[shape] + wakes))
                    corr.count("caller's object: " + shape)
                corr.count("caller's object, assignment to " + name, len(pick))
                corr.count("caller's object, destination " + dest_name, len(pick))
        # the destination is awake at the first send and asleep at the second (2.x: its wake signal flags it)
        for name in _c12_changes((1, 1, 1, 0, 2, "1"), 2):
            f0 = (1, 1, 1, 0, 2, "1")
            f1 = _c12_changes(f0, 2)[name]
            hists.append(Hist(v, True, preload(v), [S(f0, 1), wake(1), S(f1, 1), wake(1), wake(2)]))
            corr.count("caller's object: sent to an awake node, the node goes to sleep, assigned to, sent again")
        # one template object for several children / value types / nodes
        tmpl = [S((n, c, 1, 0, t, "1"), 1) for n in (1, 2, 3) for c in (0, 1) for t in (2, 3)]
        hists.append(Hist(v, True, preload(v), tmpl + wakes))
        hists.append(Hist(v, True, preload(v), [S((2, c, 1, 0, 2, p), 1) for p in ("1", "0") for c in (0, 1, 2)] + [wake(2)] +
                          [S((2, 1, 1, 0, 2, p), 1) for p in ("1", "0", "1")] + wakes))
        corr.count("caller's object: one template object for several children / types / nodes", 2)
        # a command of every kind as one object whose payload is assigned to between two sends
        tv = proto_tables(v)
        for cmd, child, t in ((0, 1, 6), (2, 1, 2), (3, 255, int(list(tv["internal"])[-1])), (3, 255, 13), (4, 255, 1)):
            for dest in (1, 2, 3):
                hists.append(Hist(v, True, preload(v), [S((dest, child, cmd, 0, t, "a"), 1), S((dest, child, cmd, 0, t, "b"), 1),
                                                        S((dest, child, cmd, 0, t, "a"), 1)] + wakes[:2]))
                corr.count("caller's object: a command that is not a set command, sent again after an assignment")
    # 2. random histories over a few objects of the caller, two registered nodes and an unknown one
    rng = lib.rng_for(ctx.seed, "c12objects")
    n_rand = 150 if ctx.tier == "quick" else 3000
    for i in range(n_rand):
        v = (lib.VERSIONS[2:] + lib.VERSIONS)[i % 8]
        wake_t = 32 if v == "2.2" else 22
        h = Hist(v, rng.random() < 0.7, preload(v))
        reads = {}                                     # handle -> what the object reads now
        uniq = [0]

        def rand_fields():
            uniq[0] += 1
            return (rng.choice((1, 2, 2, 2, 3)), rng.choice((0, 1, 2)), 1, rng.choice((0, 1)), rng.choice((2, 3)),
                    rng.choice(("1", "0", "on ", f"u{uniq[0]}", f"u{uniq[0]}", "")))

        def reassigned(f):
            """`f` with one, a few or all attributes assigned to (the command stays a set command nine times out of ten:
            only set commands are ever held)."""
            g = list(rand_fields())
            g[2] = 2 if rng.random() < 0.1 else f[2]
            idx = rng.sample(range(6), rng.choice((1, 1, 1, 2, 3, 6)))
            return tuple(g[j] if j in idx else f[j] for j in range(6))
        for _ in range(rng.randint(3, 14 if ctx.tier == "quick" else 40)):
            r = rng.random()
            if r < 0.45:
                hd = rng.choice((1, 1, 2, 3))
                if hd not in reads:
                    f = rand_fields()
                elif rng.random() < 0.85:
                    f = reassigned(reads[hd])
                else:
                    f = reads[hd]                      # sent again as it is
                reads[hd] = f
                h.ops.append(S(f, hd, rng.random() < 0.9))
                corr.count("random objects: send of a caller's object")
            elif r < 0.57 and reads:
                hd = rng.choice(sorted(reads))
                reads[hd] = reassigned(reads[hd])
                h.ops.append(gw.assign_op(hd, reads[hd]))
                corr.count("random objects: assignment without a send")
            elif r < 0.67:
                h.ops.append(S(rng.choice(sorted(reads.values())) if reads and rng.random() < 0.5 else rand_fields(), None, rng.random() < 0.9))
            elif r < 0.87:
                n = rng.choice((1, 2, 2))
                if rng.random() < 0.1:
                    h.ops.append(("recv", f"{n};255;3;0;{wake_t};500", gw.gen_faults(rng, 0.3), t0))
                h.ops.append(("recv", f"{n};255;3;0;{wake_t};500", (), t0))
            elif r < 0.92:
                h.ops.append(("recv", f"{rng.choice((1, 2))};255;0;0;17;{v}", (), t0))       # the node boots again
            elif r < 0.95:
                h.ops.append(gw.SESSION)
            else:
                # any line from one of the two nodes, or a rejected one (not from the gateway: the active protocol stays)
                line = gw.gen_line(rng, v, [1, 2])
                while line.count(";") >= 5 and line.split(";")[0] not in ("1", "2"):
                    line = gw.gen_line(rng, v, [1, 2])
                h.ops.append(("recv", line, (), t0))
        # every node an object may be addressed to wakes at the end (3 is registered only if an id request came by)
        h.ops += [("recv", f"{n};255;3;0;{wake_t};500", (), t0) for n in (1, 2, 3, 1, 2, 3)]
        hists.append(h)
    corr.count("histories: random histories over the caller's objects", n_rand)
    return hists


# ---- C12 at scale: many messages held at the same time --------------------------------------------------------------
#
# The property quantifies over EVERY gateway state, so also over states in which thousands of messages are waiting for
# sleeping nodes.  The histories below hold many messages at once - many keys (node, child, type) over few nodes, few
# keys over many nodes, few keys sent over and over again, a random mixture with awake / unknown destinations,
# intermediate wakes and a wake during which a write fails - and then wake every node.  They are far too long for an
# observation of the whole state after every step (quadratic), so they have their own runner, which records per step
# only what the property speaks about: the outcome of the call, the write attempts, and whether the destination was
# flagged as sleeping when `send` was called (`gateway.nodes[n].sleeping`, the public registry).  The oracle is purely
# observational: it never looks into the gateway's buffer.


def _c12_scale_scenario(spec: dict) -> dict:
    """The history of one scale scenario, in three parts: `setup` (the nodes present themselves; those that sleep
    announce it), `body` (the sends, with whatever comes between them), `tail` (every sleeping node wakes).
    spec: version (2.x), nodes (sleeping nodes 1..nodes), children / types (keys per node = children x types),
    order ("by node" | "interleaved" | "random"), sweeps (every key is sent that many times, each time with a payload
    of its own), awake (further nodes that presented themselves but never went to sleep), unknown (sends to a node
    that never presented itself), mid_wakes (wakes of sleeping nodes between the sends), failing_wake (one of those
    wakes has a write that fails part-way), seed (of the random choices)."""
    import random
    v = spec["version"]
    t = gw.DEFAULT_TIME
    rng = random.Random(f"c12scale:{spec.get('seed', 0)}")
    wake_t = 32 if v == "2.2" else 22
    types = [int(x) for x in list(proto_tables(v)["setreq"])[:spec["types"]]]
    sleepers = list(range(1, spec["nodes"] + 1))
    awake = list(range(spec["nodes"] + 1, spec["nodes"] + 1 + spec.get("awake", 0)))
    dests = sleepers + awake + ([254] if spec.get("unknown") else [])

    def wake(n, faults=()):
        return ("recv", f"{n};255;3;0;{wake_t};500", faults, t)

    setup = []
    for n in sleepers + awake:
        setup.append(("recv", f"{n};255;0;0;17;{v}", (), t))
    for n in sleepers:
        setup.append(wake(n))
    children = list(range(spec["children"]))
    if spec["order"] == "interleaved":
        keys = [(n, c, ty) for c in children for ty in types for n in dests]
    else:
        keys = [(n, c, ty) for n in dests for c in children for ty in types]
    sends = []
    for k in range(spec.get("sweeps", 1)):
        sweep = [("send", (n, c, 1, (n + c + ty + k) % 2, ty, f"{n}.{c}.{ty}.{k}"), True, ()) for n, c, ty in keys]
        if spec["order"] == "random":
            rng.shuffle(sweep)
        sends += sweep
    body = list(sends)
    mids = spec.get("mid_wakes", 0)
    if mids:
        # wakes between the sends: the node stays a sleeping node afterwards, so what is sent to it later is held again
        cuts = sorted(rng.sample(range(1, len(sends)), mids))
        failing = rng.randrange(mids) if spec.get("failing_wake") else None
        body, prev = [], 0
        for j, cut in enumerate(cuts):
            body += sends[prev:cut]
            prev = cut
            n = rng.choice(sleepers)
            if j == failing:
                # a write fails after a few of the node's held messages were written: the rest must stay held
                body.append(wake(n, (False,) * rng.randint(0, 3) + (True,)))
            else:
                body.append(wake(n))
        body += sends[prev:]
    tail = [wake(n) for n in sleepers]
    return {"spec": spec, "setup": setup, "body": body, "tail": tail}


def _c12_scale_hist(sc: dict, body=None) -> Hist:
    return Hist(sc["spec"]["version"], True, [], sc["setup"] + (sc["body"] if body is None else body) + sc["tail"])


async def _c12_scale_run_async(h: Hist, checkpoints=()):
    """One (long) history on the real gateway, observed per step as (outcome, write attempts, active protocol before
    the step, `sleeping` flag of the destination before a send); the rendered state only after the steps listed in
    `checkpoints`.  Received lines are consumed through one `gateway.listen()` generator, renewed after a step that raised."""
    g, tr = gw.build_gateway(h)
    listener = None
    obs, states = [], {}
    for i, op in enumerate(h.ops):
        tr.attempts = []
        proto = g.protocol.VERSION
        sleeping = None
        if op[0] == "recv":
            _, line, faults, now = op
            tr.lines = [line]
            tr.faults = list(faults)
            gw.TIME_STUB.now = tuple(now)
            if listener is None:
                listener = g.listen()
            try:
                out = gw.render_msg(await anext(listener))
            except BaseException as e:  # noqa: BLE001
                out = gw.render_exc(e)
                listener = None
        else:
            _, fields, buffer, faults = op
            tr.faults = list(faults)
            node = g.nodes.get(fields[0])
            sleeping = bool(node is not None and node.sleeping)
            try:
                await g.send(gw.Message(*fields), message_buffer=buffer)
                out = "ok"
            except BaseException as e:  # noqa: BLE001
                out = gw.render_exc(e)
        obs.append((out, tr.attempts, proto, sleeping))
        if i in checkpoints:
            states[i] = gw.render_state(g)
    if listener is not None:
        await listener.aclose()
    return obs, states


def _c12_scale_run(h: Hist, checkpoints=()):
    import asyncio
    return asyncio.run(_c12_scale_run_async(h, checkpoints))


def _c12_scale_oracle(h: Hist, obs) -> tuple[list, dict]:
    """C12 restated over the observations of `_c12_scale_run`, with no access to the gateway's internals.  A send that
    returns normally either handed exactly its own line to the transport, or wrote nothing - which the property allows
    only for a destination that is sleeping, and then that line (the LAST one sent for its (node, child, type): a newer
    command for the same key replaces the waiting one) has to be handed to the transport, once, at that node's next
    wake; if a write of that wake fails, whatever was not written has to come at a later wake.  At the end of the
    history (every sleeping node woke, no write failed) nothing may still be waiting.
    Returns (problems, statistics); a problem is {"what", "step" (1-based), "line", ...}."""
    problems = []
    stats = {"held": 0, "released": 0, "written at once": 0, "library error": 0, "max held at once": 0, "replaced": 0}
    pending: dict[int, dict] = {}      # node -> {(node, child, type): (line, step)}
    n_pending = 0
    for i, (op, (out, writes, proto, sleeping)) in enumerate(zip(h.ops, obs)):
        if op[0] == "send":
            f = op[1]
            if out.startswith("foreign"):
                problems.append({"what": "send raised an exception that is not a library error", "step": i + 1, "outcome": out})
                continue
            if out.startswith("err"):
                stats["library error"] += 1
                continue
            line = line_of(f)
            if len(writes) == 1 and writes[0] == (line, True):
                stats["written at once"] += 1
                continue
            if not writes and sleeping:
                of_node = pending.setdefault(f[0], {})
                key = (f[0], f[1], f[4])
                if key in of_node:
                    stats["replaced"] += 1
                else:
                    n_pending += 1
                of_node[key] = (line, i + 1)
                stats["held"] += 1
                stats["max held at once"] = max(stats["max held at once"], n_pending)
                continue
            problems.append({"what": "send returned normally but the message was neither written nor held for a sleeping destination",
                             "step": i + 1, "line": line, "writes": [list(w) for w in writes[:5]], "destination_sleeping": sleeping})
        elif op[0] == "recv":
            f = fields_of(op[1])
            if f is None or not is_wake(proto, f) or f[0] not in pending:
                continue
            got: dict[str, int] = {}
            for w, ok in writes:
                if ok:
                    got[w] = got.get(w, 0) + 1
            failed = out in ("err transportFailed", "foreign CancelledError") and any(not ok for _, ok in writes)
            of_node = pending[f[0]]
            for key in list(of_node):
                line, step = of_node[key]
                if line in got:
                    if got[line] > 1:
                        problems.append({"what": "a held message was handed to the transport more than once at its node's wake",
                                         "step": i + 1, "line": line, "held_since_step": step})
                    stats["released"] += 1
                elif failed:
                    continue      # a write of this wake failed: the message has to come at a later wake
                else:
                    problems.append({"what": "a held message was neither handed to the transport at its node's wake nor kept for a later one",
                                     "step": i + 1, "line": line, "held_since_step": step, "outcome_of_the_wake": out[:60],
                                     "writes_of_the_wake": len(writes), "held_at_once_before_the_wake": n_pending})
                del of_node[key]
                n_pending -= 1
            if not of_node:
                del pending[f[0]]
    for of_node in pending.values():
        for line, step in of_node.values():
            problems.append({"what": "a held message was never released although its node woke", "step": len(h.ops),
                             "line": line, "held_since_step": step})
    return problems, stats


def _c12_scale_shrink(sc: dict, what: str) -> tuple[Hist, dict]:
    """A shorter history with the same kind of failure: the shortest prefix of the sends (the nodes still wake at the
    end) on which the oracle still reports `what`, then without as many of the first sends as can be left out.  Both
    by bisection (a few dozen runs of some milliseconds each); the result is re-checked, else the full history stands."""
    body = sc["body"]

    def fails(b):
        h = _c12_scale_hist(sc, b)
        probs, _ = _c12_scale_oracle(h, _c12_scale_run(h)[0])
        return any(p["what"] == what for p in probs)

    lo, hi = 0, len(body)            # invariant: body[:hi] fails
    while lo < hi:
        mid = (lo + hi) // 2
        if fails(body[:mid]):
            hi = mid
        else:
            lo = mid + 1
    short = body[:hi]
    lo, hi2 = 0, len(short)          # largest head that can be dropped
    while lo < hi2:
        mid = (lo + hi2 + 1) // 2
        if fails(short[mid:]):
            lo = mid
        else:
            hi2 = mid - 1
    short = short[lo:]
    info = {"sends_and_wakes_between_setup_and_final_wakes": len(short), "of": len(body)}
    if short and len(short) < len(body) and fails(short):
        if not fails(short[:-1]):
            info["note"] = (f"with one operation less between the setup and the final wakes ({len(short) - 1}) every held message "
                            "is delivered; with this one, one is lost")
        return _c12_scale_hist(sc, short), info
    return _c12_scale_hist(sc), {"note": "not shortened"}


def _c12_scale_specs(ctx) -> list[tuple[dict, bool]]:
    """(spec, compare with the Lean model?) of this run.  Sizes vary a little with the seed; the versions rotate."""
    rng = lib.rng_for(ctx.seed, "c12scale")
    vs = [V20[(ctx.seed + k) % 3] for k in range(3)]
    j = lambda a: a + rng.randint(0, max(1, a // 10))      # noqa: E731
    specs = []
    for r, v in enumerate(vs if ctx.tier == "thorough" else vs[:1]):
        w = [vs[(r + k) % 3] for k in range(3)]
        specs += [
            # many keys over few nodes, node after node
            ({"name": "many keys, few nodes", "version": w[0], "nodes": 6, "children": j(50), "types": 5, "order": "by node"}, True),
            # the same number of keys, the nodes taking turns (the oldest held messages belong to every node)
            ({"name": "many keys, nodes taking turns", "version": w[1], "nodes": 12, "children": j(25), "types": 5, "order": "interleaved"}, True),
            # (nearly) as many sleeping nodes as there are node ids, a few keys each
            ({"name": "many sleeping nodes", "version": w[2], "nodes": j(200), "children": 2, "types": 4, "order": "interleaved"}, True),
            # few keys, each replaced hundreds of times: the last value of each is what has to arrive
            ({"name": "few keys replaced many times", "version": w[0], "nodes": 3, "children": 1, "types": 2, "order": "by node",
              "sweeps": j(300)}, True),
            # everything at once, in random order
            ({"name": "random mixture", "version": w[1], "nodes": 8, "awake": 2, "unknown": True, "children": j(25), "types": 5,
              "order": "random", "sweeps": 2, "mid_wakes": 6, "failing_wake": True}, True),
        ]
    big = [
        ({"name": "5 000 keys", "version": vs[2], "nodes": 10, "children": j(100), "types": 5, "order": "by node"}, ctx.tier == "thorough"),
        ({"name": "20 000 keys", "version": vs[0], "nodes": 40, "children": j(100), "types": 5, "order": "interleaved"}, False),
    ]
    if ctx.tier == "thorough":
        big.append(({"name": "70 000 keys", "version": vs[1], "nodes": 70, "children": j(200), "types": 5, "order": "by node"}, False))
        big.append(({"name": "250 000 keys", "version": vs[2], "nodes": 250, "children": j(200), "types": 5, "order": "random"}, False))
    specs += big
    for k, (spec, _) in enumerate(specs):
        spec["seed"] = f"{ctx.seed}:{k}"
    return specs


def _c12_scale(ctx, corr: Corr) -> None:
    """The scale scenarios of C12: run, judged by `_c12_scale_oracle`, and - those whose length the driver manages in
    a few seconds - compared with the Lean model on the writes view (outcome class and write attempts of EVERY step;
    both buffers after the setup, before the final wakes and at the end)."""
    from concurrent.futures import ThreadPoolExecutor
    runs = []
    for spec, with_model in _c12_scale_specs(ctx):
        sc = _c12_scale_scenario(spec)
        h = _c12_scale_hist(sc)
        cps = (len(sc["setup"]) - 1, len(sc["setup"]) + len(sc["body"]) - 1, len(h.ops) - 1)
        obs, states = _c12_scale_run(h, cps)
        runs.append((sc, h, cps, obs, states, with_model and ctx.model_ok))
    shrunk = False
    for sc, h, cps, obs, states, _ in runs:
        spec = sc["spec"]
        problems, stats = _c12_scale_oracle(h, obs)
        corr.count("scale: histories")
        corr.count("scale: " + spec["name"])
        corr.count("scale: operations", len(h.ops))
        for k in ("held", "released", "replaced", "written at once", "library error"):
            corr.count("scale oracle: send " + k if k in ("held", "written at once", "library error") else
                       "scale oracle: held message " + k + (" at its node's wake" if k == "released" else " by a newer one for its key"), stats[k])
        corr.dist["scale: most messages held at the same time"] = max(corr.dist.get("scale: most messages held at the same time", 0),
                                                                      stats["max held at once"])
        for i, (op, o) in enumerate(zip(h.ops, obs)):
            if op[0] == "send":
                held = o[0] == "ok" and not o[1]
                corr.case(hash(("scale", spec["version"], op[1], held)), held,
                          {"scale": spec["name"], "version": spec["version"], "op": list(op), "outcome": o[0], "writes": [w[0] for w in o[1]],
                           "held_at_once": stats["max held at once"]} if i == len(sc["setup"]) + len(sc["body"]) // 2 else None)
        if not problems:
            continue
        first = problems[0]
        same = [p for p in problems if p["what"] == first["what"]]
        case = {"scenario": spec, "problem": first, "problems_of_this_kind": len(same),
                "lines_concerned": [p.get("line") for p in same[:8]], "statistics": stats}
        if not shrunk:
            # one full (shortened) history per run is enough for the replay; the other scenarios are named by their spec
            shrunk = True
            hs, info = _c12_scale_shrink(sc, first["what"])
            ps, st = _c12_scale_oracle(hs, _c12_scale_run(hs)[0])
            ps = [p for p in ps if p["what"] == first["what"]] or same
            case.update({"problem": ps[0], "problems_of_this_kind": len(ps), "lines_concerned": [p.get("line") for p in ps[:8]],
                         "statistics": st, "shortened": info, "history": hs.to_json()})
        else:
            case["history_omitted"] = "regenerate with harness.props.gateway._c12_scale_scenario(scenario)"
        corr.violate(first["what"] + " (many messages held at the same time)", case)
    # the model, for the histories the driver manages: one driver process per history, in parallel
    todo = [r for r in runs if r[5]]

    def model_of(r):
        sc, h, cps, *_ = r
        ml = gw.model_lines(h)            # gnew, gdump, then (operation, gdump) per step: keep the dumps of the checkpoints only
        lines = ml[:1]
        for i in range(len(h.ops)):
            lines.append(ml[2 + 2 * i])
            if i in cps:
                lines.append("gdump")
        return lib.run_model(lines, timeout=900)

    if todo:
        with ThreadPoolExecutor(max_workers=8) as ex:
            outs_all = list(ex.map(model_of, todo))
        for (sc, h, cps, obs, states, _), outs in zip(todo, outs_all):
            corr.count("scale: histories compared with the model")
            corr.count("scale: operations compared with the model", len(h.ops))
            if outs[0] != "ok":
                raise lib.ModelError(f"model rejected a setup operation: {outs[0]}")
            pos = 1
            for i, (out, writes, _, _) in enumerate(obs):
                mout = outs[pos]
                pos += 1
                head, _, mw = mout.partition(" W")
                a, bb = (out_class(out), gw.render_writes(writes)[2:]), (out_class(mout), mw)
                if i in cps:
                    ist, mst = split_state(states[i]), split_state(outs[pos])
                    pos += 1
                    a, bb = a + (ist["ibuf"], ist["sbuf"]), bb + (mst["ibuf"], mst["sbuf"])
                if a != bb:
                    k = next((k for k in range(len(a)) if a[k] != bb[k]), 0)
                    corr.disagree("writes view (many messages held at the same time)",
                                  {"scenario": sc["spec"], "step": i + 1, "op": list(h.ops[i]), "view": "writes",
                                   "differs_in": ("outcome", "writes", "ibuf", "sbuf")[k],
                                   "impl": a[k][:300], "model": bb[k][:300], "impl_len": len(a[k]), "model_len": len(bb[k])})
                    break


def run_c12(ctx) -> Corr:
    corr = Corr("C12", "send of every command 0-4 x every type number of the active protocol's table for that command (and a few "
                "outside it) x buffering flag on/off x destination unknown/awake/sleeping x 5 versions x write fault or not, "
                "plus non-message objects; then a wake of every node; plus histories with traffic BETWEEN a hold and the "
                "destination's next wake (the destination presents itself again - once, twice, with children / sketch / battery, "
                "before every wake -, sends other messages, other nodes and the gateway talk, rejected lines, a reconnect, further "
                "sends; 28 kinds x 4 shapes x 5 versions and random cycles over two nodes with failing wakes); compared on the "
                "writes view with the Lean model; oracle = the trichotomy written / parked-for-a-sleeping-node-and-released-"
                "(once)-at-its-next-wake / library error; plus scale scenarios (_c12_scale): thousands of set commands waiting for "
                "sleeping nodes at the same time (many keys over few nodes, nodes taking turns, ~200 sleeping nodes, few keys "
                "replaced hundreds of times, a random mixture with awake / unknown destinations, wakes in between and a wake with "
                "a failing write; 1 500 - 20 000 keys, thorough: up to 250 000), every send returning normally, then every node "
                "wakes: the last line sent for every key is handed to the transport exactly once; plus the caller's own Message "
                "objects (_c12_object_histories): one instance sent again after an assignment to any attribute, assigned to "
                "while it is held, used as a template, next to one-call messages; plus WHAT THE WAKE SIGNAL CARRIES "
                "(_c12_wake_payload_histories): the heartbeat value stored for the sleeping destination (from its last wake or "
                "restored: 0, small, huge) x the counter / duration its next wake carries (lower, equal, higher, 0, 1, huge, "
                "negative, signed / padded / leading zeros, no number = rejected under 2.0 / 2.1, no wake) and random walks of "
                "two nodes' counters: every accepted wake signal hands over what is held, whatever it carries. "
                "non-trivial = distinct (version, destination state, message, flag, fault); scale: distinct held sends")
    corr.notes.append("scale scenarios (_c12_scale): judged by an observational oracle of their own (_c12_scale_oracle: outcome, write "
                      "attempts, the destination's public `sleeping` flag at the time of the send - never the gateway's buffer). The "
                      "scenarios of up to ~3 000 operations are also run through the Lean model's driver (recv / send operations only) "
                      "and compared on the writes view: outcome class and write attempts of every step, both buffers at three "
                      "checkpoints (after the setup, before the final wakes, at the end) instead of after every step, because dumping "
                      "a state with thousands of held messages after each of thousands of steps is quadratic. The scenarios with "
                      "5 000 keys (quick tier) and with 20 000 keys and more (both tiers) are judged by the oracle alone: the driver "
                      "(interpreted, association lists) needs ~7 s for 5 000 operations and grows quadratically. Protocols 1.4 / 1.5 "
                      "have no wake message, so the scale scenarios use the 2.x protocols only.")
    corr.notes.append("the histories with traffic between hold and wake (_c12_between_histories) consist of recv / send / session "
                      "operations only, all of which the gateway model's driver has: they are compared with the Lean model on the "
                      "writes view AND judged by the oracle (_c12_oracle), like the other C12 histories")
    hists = [h for _, h in corpus_histories("C12")]
    for v in lib.VERSIONS:
        tv = proto_tables(v)
        wake_t = 32 if v == "2.2" else 22
        pools = {0: list(tv["presentation"])[:6] + ["99"], 1: list(tv["setreq"])[:8] + ["-1", "300"], 2: list(tv["setreq"])[:4],
                 3: list(tv["internal"]) + ["40", "-1"], 4: list(tv["stream"]) + ["9"]}
        if ctx.tier == "thorough":
            pools[0], pools[1], pools[2] = list(tv["presentation"]) + ["99"], list(tv["setreq"]) + ["-1", "300"], list(tv["setreq"])
        for cmd, types in pools.items():
            for t in types:
                for buffer in (True, False):
                    for fault in ((), (True,)):
                        h = Hist(v, True, [("node", 1, 17, "2.0", "", "", 0, 0, False, False),
                                           ("node", 2, 17, "2.0", "", "", 0, 0, False, True)])
                        # destinations with registry content that coincides with what is sent: the child exists,
                        # and (every other type) already stores the very value that is sent
                        for n in (1, 2):
                            h.preload.append(("child", n, 1, 1, 6, "c"))
                            if int(t) % 2 == 0:
                                h.preload.append(("val", n, 1, int(t), "5"))
                        for n in (1, 2, 3):
                            child = 255 if cmd in (3, 4) else 1
                            h.ops.append(("send", (n, child, cmd, 0, int(t), "5"), buffer, fault))
                        if cmd == 1 and int(t) in (0, 2):
                            # a second held message for node 2 and a wake whose second write fails, then a clean wake
                            h.ops.append(("send", (2, 1, 1, 0, int(t) + 1, "6"), True, ()))
                            h.ops.append(("recv", f"2;255;3;0;{wake_t};5", (False, gw.CANCEL if int(t) == 2 else True), gw.DEFAULT_TIME))
                        wakes = [("recv", f"{n};255;3;0;{wake_t};5", (), gw.DEFAULT_TIME) for n in (1, 2)]
                        if cmd == 1 and buffer and not fault:
                            # the held message must survive other traffic for the very same (node, child, type): an
                            # unbuffered send, the node's own value request (answered with the stored value), its own report
                            for between in (("send", (2, 1, 1, 0, int(t), "9"), False, ()),
                                            ("recv", f"2;1;2;0;{int(t)};", (), gw.DEFAULT_TIME),
                                            ("recv", f"2;1;1;0;{int(t)};8", (), gw.DEFAULT_TIME)):
                                hists.append(Hist(v, True, h.preload, h.ops + [between] + wakes))
                        if cmd == 1 and buffer and not fault:
                            # the same, with the gateway context left and entered again (a reconnect) before the wakes
                            hists.append(Hist(v, True, h.preload, h.ops + [gw.SESSION] + wakes))
                        h.ops.extend(wakes)
                        hists.append(h)
        h = Hist(v, True)
        h.ops = [("send", None, True, ()), ("send", None, False, ())]
        hists.append(h)
    n_base = len(hists)
    hists += _c12_between_histories(ctx, corr)
    corr.count("histories: one send per destination state, then a wake of every node", n_base)
    corr.count("histories: traffic between hold and wake", len(hists) - n_base)
    # what the destination's wake signal carries (a counter that falls, stands still, restarts; a duration) is no condition
    hists += _c12_wake_payload_histories(ctx, corr)
    corr.notes.append("the wake-payload histories (_c12_wake_payload_histories) are recv / send operations only: compared with "
                      "the Lean model on the writes view and judged by _c12_oracle")
    # what is held is the message that was sent: value kinds an immediate write leaves alone (shared with C07)
    n_base = len(hists)
    hists += held_payload_histories(ctx, corr, grid_only=True)
    corr.count("histories: held payload kinds", len(hists) - n_base)
    corr.notes.append("the held-payload histories (held_payload_histories, shared with C07: a held value with outer whitespace of "
                      "every Python whitespace kind, delimiters, empty, numeric-looking, non-ASCII, control characters, very long; "
                      "second node, second key, overwrite in both orders) are recv / send operations only: compared with the "
                      "Lean model on the writes view and judged by _c12_oracle")
    # the caller's own objects: the same instance sent again after an assignment, assigned to while it is held
    n_base = len(hists)
    hists += _c12_object_histories(ctx, corr)
    corr.count("histories: the caller's own Message objects", len(hists) - n_base)
    corr.notes.append("the histories over the caller's own Message objects (_c12_object_histories: send operations with a handle "
                      "and `assign` operations, see harness/gw.py) run through the Lean model's object layer (Model/Objects.lean: "
                      "`gsendo` / `gassign`; the sleep buffer holds the caller's object, so an assignment to a held object is "
                      "seen at its release) on the writes view, and are judged by _c12_oracle, for which the message of a call "
                      "is the object as it reads at the call")
    impl = run_both(hists, corr, ctx, "writes", "writes view")
    for h, io in zip(hists, impl):
        _c12_oracle(corr, h, io)
    account(corr, hists, impl, lambda h, op, before, o: op[0] == "send")
    _c12_scale(ctx, corr)
    return corr


# ---- C19 --------------------------------------------------------------------------------------


# what a gateway may report as its version in the middle of a history: every version of the table first
REPORT_STRINGS = list(lib.VERSIONS) + ["2.1.1", "2.3", "1.4.9", "2.0.0", "1.6", "3.0", "0.9", "abc", "", "2"]


def version_report_line(rng, payload: str, ack: int = 0) -> str:
    """The gateway tells its version: the answer to the version query (I_VERSION, from the gateway's own id - or, since
    the handler does not look at the sender, from any node), or the gateway's own presentation (node 0, system child)."""
    form = rng.random()
    if form < 0.6:
        return f"0;255;3;{ack};2;{payload}"
    if form < 0.75:
        return f"{rng.choice((1, 2, 3, 9))};255;3;{ack};2;{payload}"
    return f"0;255;0;{ack};{rng.choice((17, 18))};{payload}"


# further strings from C05's corpus (one line, no field separator)
REPORT_CORPUS = [v for v in gw.VERSION_CORPUS if v.isprintable() and ";" not in v and v == v.strip()]


def older_types_history(rng, v_old: str, cross: bool, avoid_hb: bool, length: int, reports: float = 0.0):
    """A history whose message types all exist in `v_old`; started with the version known.

    `reports`: the probability with which an operation is a VERSION REPORT (the version message exists in every
    protocol, so it is a message type of the older one): a string of the table, one that resolves to a table version,
    or one that does not resolve.  A report that resolves switches BOTH gateways to the same protocol - from then on they
    must of course agree - but what the two hold at that moment (registry, the commands parked for sleeping nodes, the
    record of presentation requests sent) has to survive the report alike on both, whichever of the two (or neither)
    the report leaves on the protocol it already ran.

    `cross` (the pair spans 1.x -> 2.x, where the property excludes references to unknown nodes / children): the
    generator keeps an EXPECTATION of the registry (`reg`: node -> child keys) and draws senders, children and
    addressees from it, so that the histories stay inside the property's domain for long.  Every way a node gets
    into the registry is used: preloaded, presented by itself, and registered as a placeholder by the id-request
    handler - a placeholder then sends (sketch name / version, battery, child presentations, set / req, streams, any
    internal type) BEFORE its own presentation arrives.  The expectation only steers; what is inside the domain is
    decided by the oracle from the real registry (`_c19_out_of_scope`)."""
    to = proto_tables(v_old)
    internal = [int(t) for t in to["internal"] if int(t) not in (2,)]  # version reports: drawn separately (`reports`)
    if avoid_hb:
        internal = [t for t in internal if t != 22]
    if cross:
        internal = [t for t in internal if t != 14]
    id_request = _c19_internal_no(v_old, "I_ID_REQUEST")
    h = Hist(None, rng.random() < 0.5)
    nodes = (1, 2)
    for n in nodes:
        h.preload.append(("node", n, 17, "2.0", "", "", 0, 0, rng.random() < 0.2, rng.random() < 0.3))
        for c in (0, 1):
            h.preload.append(("child", n, c, c, 6, "c"))
            if rng.random() < 0.5:
                h.preload.append(("val", n, c, 0, "7"))
    reg = {n: {0, 1} for n in nodes}      # expected registry
    fresh: list = []                       # ids handed out whose node has not presented itself yet

    def ack() -> int:        # a node may ask for an echo of anything it sends
        return 1 if rng.random() < 0.3 else 0

    def handed_out() -> None:
        new = max(reg) + 1 if reg else 1
        if new <= 254:
            reg[new] = set()
            fresh.append(new)

    def presented(n: int) -> None:   # a node presentation replaces the node: its children are gone
        reg[n] = set()
        if n in fresh:
            fresh.remove(n)

    for _ in range(length):
        r = rng.random()
        if fresh and rng.random() < 0.45:
            n = rng.choice(fresh)
        else:
            n = rng.choice(list(reg) if cross else list(reg) + [3])
        kids = sorted(reg.get(n, ()))
        if cross:
            c = rng.choice(kids) if kids else None
        else:
            c = rng.choice((0, 1, 2))
        faults = (rng.choice((False, True, gw.CANCEL)),) if rng.random() < 0.08 else ()
        if reports and rng.random() < reports:
            payload = rng.choice(REPORT_STRINGS[:len(lib.VERSIONS)] if rng.random() < 0.7 else REPORT_STRINGS + REPORT_CORPUS)
            line = version_report_line(rng, payload, ack())
            if line.startswith("0;255;0;"):
                presented(0)
            h.ops.append(("recv", line, (), gw.DEFAULT_TIME))
            continue
        if rng.random() < 0.07:
            # a new node asks for an id: the handler registers a placeholder under the next free id
            h.ops.append(("recv", f"255;{rng.choice((255, 255, 4))};3;{ack()};{id_request};", faults, gw.DEFAULT_TIME))
            handed_out()
            continue
        if r < 0.1 and cross:
            # across 1.x -> 2.x a re-presentation forgets the children, and a later reference to one would be an unknown
            # child (outside the property's precondition): the node presents itself (again) AND then its children
            h.ops.append(("recv", f"{n};255;0;0;17;2.0", (), gw.DEFAULT_TIME))
            presented(n)
            for cc in (0, 1):
                h.ops.append(("recv", f"{n};{cc};0;0;{rng.choice((6, 3, 18))};{rng.choice(('c', ''))}", (), gw.DEFAULT_TIME))
                reg[n].add(cc)
            continue
        if r < 0.1:
            line = f"{n};255;0;0;17;2.0"
            presented(n)
        elif r < 0.2 or (cross and c is None and r < 0.5):
            # child presentations: types whose enum NAME differs between the versions (3, 18), table edges, no description
            # (also in place of a set / req of a node that has no child yet)
            c = rng.choice((0, 1, 2))
            line = f"{n};{c};0;{ack()};{rng.choice((6, 6, 3, 18, 0, 25))};{rng.choice(('d', 'd', '', 'x y'))}"
            if n in reg:
                reg[n].add(c)
        elif r < 0.4:
            line = f"{n};{c};1;{ack()};{rng.choice((0, 2))};{rng.randint(0, 9)}"
        elif r < 0.5:
            line = f"{n};{c};2;{ack()};{rng.choice((0, 2))};"
        elif r < 0.8:
            t = rng.choice(internal)
            payload = {0: rng.choice(["50", "abc", "150"]), 22: rng.choice(["5", "x"]), 3: ""}.get(t, "1")
            sender = n
            if cross and t != id_request and to["internal"][str(t)] not in C19_NODE_REPORTS and rng.random() < 0.25:
                # requests to the controller, log messages ...: they name no registry entry, whoever sends them - the
                # gateway itself (node 0), a node that is not registered
                sender = rng.choice((0, 0, 9, 77))
            line = f"{rng.choice((n, 255)) if t == 3 else sender};{rng.choice((255, 4)) if t == 3 else 255};3;{ack()};{t};{payload}"
            if t == id_request:
                handed_out()
        elif r < 0.86:
            line = f"{n};255;4;{ack()};{rng.choice([int(x) for x in to['stream']])};0"
        elif r < 0.9:
            # lines the codec must judge alike under every version: ill-formed ones, and internal / stream types on a
            # child id other than the system child (accepted for id request / response only)
            t = rng.choice([x for x in internal if x != id_request] if cross else internal)
            line = rng.choice(["", "1;2", "bad", "1;255;1;0;0;x", f"{n};{rng.choice((0, 1, 7))};3;0;{t};x", f"0;0;3;0;{t};log",
                               f"{n};0;4;0;0;x", f"{n};255;{rng.choice((1, 2))};0;0;x", f"{n};256;3;0;{t};", f"{n};-1;3;0;{t};"])
        else:
            if cross and c is None:
                continue
            h.ops.append(("send", (n, c, 1, 0, rng.choice((0, 2)), str(rng.randint(0, 9))), rng.random() < 0.8, ()))
            continue
        h.ops.append(("recv", line, faults, gw.DEFAULT_TIME))
    return h


def _c19_obs(o):
    """What C19 compares between two versions after a step: outcome (yielded message or error), write attempts,
    registry (with flags), both buffers."""
    s = split_state(o["state"])
    return (o["out"], o["writes"], s["nodes"], s["ibuf"], s["sbuf"])


def _c19_is_cross(a: str, w: str) -> bool:
    return a.split(".")[0] != w.split(".")[0]


_C19_SCHEMAS: dict = {}
_C19_DECODED: dict = {}


def _c19_decode(version: str, line: str):
    """The received line as the REAL codec decodes it under `version` (None: it is not a message)."""
    from aiomysensors.model.message import MessageSchema
    from aiomysensors.model.protocol import get_protocol
    from marshmallow import ValidationError
    key = (version, line)
    if key in _C19_DECODED:
        return _C19_DECODED[key]
    schema = _C19_SCHEMAS.get(version)
    if schema is None:
        schema = _C19_SCHEMAS[version] = MessageSchema()
        schema.set_protocol(get_protocol(version))
    try:
        m = schema.load(line)
    except ValidationError:
        m = None
    if len(_C19_DECODED) < 200000:
        _C19_DECODED[key] = m
    return m


def _c19_internal_no(version: str, name: str):
    return next((int(t) for t, nm in proto_tables(version)["internal"].items() if nm == name), None)


# internal message types whose content is kept on the registry entry of the node that sent them
C19_NODE_REPORTS = ("I_BATTERY_LEVEL", "I_SKETCH_NAME", "I_SKETCH_VERSION", "I_HEARTBEAT_RESPONSE", "I_DISCOVER_RESPONSE",
                    "I_PRE_SLEEP_NOTIFICATION", "I_POST_SLEEP_NOTIFICATION")


def _c19_out_of_scope(a: str, op, registry: dict):
    """Is this operation outside the cross-line (1.x -> 2.x) part of the property - 'as long as no unknown node or
    child is referenced and no gateway-ready message occurs' - in the state whose REAL registry (`snapshot_nodes` of
    `gateway.nodes`, taken before the operation) is `registry`?  Returns the reason, or None when it is inside.

    Decided from what the message names and from registry membership only - never from the error a handler raised:
      * a line the codec does not decode is no message and names nothing;
      * a node presentation (system child) names no existing node: it creates one;
      * a child presentation and a stream message name their sender node; a set / req message names its sender node
        and its child;
      * an internal message names its sender node when its type is a report that is kept on the node's registry entry
        (`C19_NODE_REPORTS`: battery level, sketch name / version, heartbeat / discover response, sleep notifications);
        requests to the controller (id, config, time ...), log messages and the like name no registry entry;
      * a send call of a set / req names the node and the child it is addressed to; other send calls name the node.
    The node, resp. the child, must be a key of the registry, resp. of that node's `children`."""
    if op[0] == "recv":
        m = _c19_decode(a, op[1])
        if m is None:
            return None
        node, child, cmd, typ = m.node_id, m.child_id, int(m.command), m.message_type
        if cmd == 3:
            name = proto_tables(a)["internal"].get(str(typ))
            if name == "I_GATEWAY_READY":
                return "gateway-ready"
            if name not in C19_NODE_REPORTS:
                return None
        if cmd == 0 and child == 255:
            return None
    elif op[0] == "send":
        if op[1] is None:
            return None
        node, child, cmd = op[1][0], op[1][1], op[1][2]
    else:
        return None
    if node not in registry:
        return f"node {node} is not in the registry"
    if cmd in (1, 2) and child not in registry[node]["children"]:
        return f"child {child} of node {node} is not in the registry"
    return None


def _c19_scope_cut(a: str, w: str, ops, ia):
    """(index of the first operation outside the property's domain for the pair (a, w), reason), or (None, None).
    Same major line: every history over the older protocol's types is inside.  Across the lines: `_c19_out_of_scope`
    on the real registry the older run showed before each operation."""
    if not _c19_is_cross(a, w):
        return None, None
    for k, op in enumerate(ops):
        why = _c19_out_of_scope(a, op, ia[k]["nodes"])
        if why is not None:
            return k, why
    return None, None


def _c19_first_diff(ia, ib, limit=None, view=None):
    """First step (index into the observation lists) at which two runs of the same history differ, or None.
    `limit`: only the observations before this index are compared."""
    for i, (oa, ob) in enumerate(zip(ia, ib)):
        if limit is not None and i >= limit:
            return None
        va, vb = _c19_obs(oa), _c19_obs(ob)
        if view is not None:
            va, vb = view(va), view(vb)
        if va != vb:
            return i
    return None


def _c19_judge(a: str, w: str, ops, ia, ib, view=None):
    """The pair oracle on two runs (under `a` and `w`) of the same operations: (first differing step INSIDE the
    property's domain or None, index of the first operation outside the domain or None, why it is outside).
    Observation i + 1 belongs to operation i: an operation outside the domain, and everything after it, is not
    judged; everything before it is."""
    cut, why = _c19_scope_cut(a, w, ops, ia)
    return _c19_first_diff(ia, ib, None if cut is None else cut + 1, view), cut, why


def _c19_placeholder_steps(a: str, ops, ia, cut) -> int:
    """Coverage figure: how many of the judged operations come from (or are addressed to) a node that the id-request
    handler put into the registry - a key that appears in the real registry at a step whose line is an id request -
    and that has not presented itself since."""
    held: set = set()
    count = 0
    id_request = _c19_internal_no(a, "I_ID_REQUEST")
    for k, op in enumerate(ops[:len(ops) if cut is None else cut]):
        m = _c19_decode(a, op[1]) if op[0] == "recv" else None
        if m is not None and int(m.command) == 3 and m.message_type == id_request:
            held |= set(ia[k + 1]["nodes"]) - set(ia[k]["nodes"])
            continue
        if m is not None and int(m.command) == 0 and m.child_id == 255:
            held.discard(m.node_id)
            continue
        node = m.node_id if m is not None else (op[1][0] if op[0] == "send" and op[1] is not None else None)
        if node in held:
            count += 1
    return count


def _c19_shrink(h: Hist, a: str, w: str, view=None) -> Hist:
    """Greedy one-pass shrink of a history on which versions `a` and `w` differ: drop every operation without which
    the two runs still differ somewhere inside the property's domain (re-executed on the implementation and judged
    by `_c19_judge`: dropping the operation that registered a node puts the later traffic of that node outside the
    domain, so it stays).  Presentations are never dropped."""
    def differs(ops):
        ia, ib = gw.run_impl_many([Hist(a, h.metric, h.preload, ops), Hist(w, h.metric, h.preload, ops)])
        return _c19_judge(a, w, ops, ia, ib, view)[0]

    ops = list(h.ops)
    for k in range(len(ops) - 2, -1, -1):
        if ops[k][0] == "recv" and ops[k][1].split(";")[2:3] == ["0"]:
            continue
        cand = ops[:k] + ops[k + 1:]
        if differs(cand) is not None:
            ops = cand
    d = differs(ops)
    return Hist(a, h.metric, h.preload, ops[:d] if d is not None else ops)


# payload kinds of a set message / send call in the type grid (C01's domain: no line terminator, no trailing space)
GRID_PAYLOADS = ["1", "0", "21.5", "", "abc", "-3", "100", "on", "1e3", "55.7;13.0;18", "  x", "température °C", "HeatOn", "3.3"]
GRID_CHUNK = 10


def type_grid_histories(rng, outside: bool = False):
    """The property quantifies over ALL histories over the older protocol's message types; the random histories above
    use a handful of child types and value types.  This is the systematic part: for every presentation type p and every
    set/req type s, the versions A(p, s) in whose tables BOTH exist are computed from the extracted tables; the cells
    are grouped by (p, A) and cut into histories of <= GRID_CHUNK value types:

        the node presents itself (or is already known, with the reboot / sleeping flag set), a child of type p is
        presented, then for each s: [req s,] set s <payload kind>, req s, send call of a set s <payload kind>

    Such a history consists of message types of every a in A, so for every a in A and every supported w > a the runs
    under a and w must agree step by step (no unknown node or child, no gateway-ready, no heartbeat: the preconditions
    of the cross-line case and of the 2.2 exception hold too).  Also one history per version set in which a node of
    every presentation type presents itself, then a child, a set and a req.
    Yields (history without version, A, label).  `outside`: instead, per version, a history with child / value types
    just outside that version's tables - nothing is stated about those, they are compared with the model only."""
    vs = lib.VERSIONS
    P = {v: sorted(int(t) for t in proto_tables(v)["presentation"]) for v in vs}
    S = {v: sorted(int(t) for t in proto_tables(v)["setreq"]) for v in vs}
    T0 = gw.DEFAULT_TIME

    def start(h: Hist, n: int, ntype: int = 17):
        style = rng.randint(0, 5)
        if style == 0:
            h.preload.append(("node", n, ntype, "2.0", "", "", 0, 0, True, False))       # reboot wanted: a set triggers it
        elif style == 1:
            h.preload.append(("node", n, ntype, "2.0", "Sk", "1.0", 55, 0, False, True))  # asleep: held send calls
        else:
            h.ops.append(("recv", f"{n};255;0;{rng.choice((0, 0, 1))};{ntype};{rng.choice(('2.0', '1.4.1', ''))}", (), T0))

    def cell_ops(h: Hist, n: int, c: int, s: int):
        ack = lambda: 1 if rng.random() < 0.25 else 0  # noqa: E731
        if rng.random() < 0.2:
            h.ops.append(("recv", f"{n};{c};2;{ack()};{s};", (), T0))       # asked for before anything was reported
        h.ops.append(("recv", f"{n};{c};1;{ack()};{s};{rng.choice(GRID_PAYLOADS)}", (), T0))
        h.ops.append(("recv", f"{n};{c};2;{ack()};{s};", (), T0))
        h.ops.append(("send", (n, c, 1, ack(), s, rng.choice(GRID_PAYLOADS)), rng.random() < 0.7, ()))

    if outside:
        for v in vs:
            h = Hist(None, True)
            n = rng.randint(1, 254)
            start(h, n)
            for c, p in enumerate((P[v][-1] + 1, 200, 254)):
                h.ops.append(("recv", f"{n};{c};0;0;{p};d", (), T0))
                for s in (S[v][0], S[v][-1], S[v][-1] + 1, 200):
                    cell_ops(h, n, c, s)
            c = 7
            h.ops.append(("recv", f"{n};{c};0;0;{P[v][0]};d", (), T0))
            for s in (S[v][-1] + 1, S[v][-1] + 2, 199, 255):
                cell_ops(h, n, c, s)
            yield h, (v,), "outside"
        return

    def versions_of(p, s):
        return tuple(v for v in vs if p in P[v] and (s is None or s in S[v]))

    groups: dict = {}
    for p in sorted({t for v in vs for t in P[v]}):
        for s in sorted({t for v in vs for t in S[v]}):
            A = versions_of(p, s)
            if A and A[0] != vs[-1]:          # a newer supported version to compare with exists
                groups.setdefault((p, A), []).append(s)
    for (p, A), ss in groups.items():
        for k in range(0, len(ss), GRID_CHUNK):
            h = Hist(None, rng.random() < 0.5)
            n, c = rng.randint(1, 254), rng.choice((0, 1, rng.randint(0, 254)))
            start(h, n)
            h.ops.append(("recv", f"{n};{c};0;{rng.choice((0, 0, 1))};{p};{rng.choice(('d', '', 'x y'))}", (), T0))
            for s in ss[k:k + GRID_CHUNK]:
                cell_ops(h, n, c, s)
            yield h, A, f"child-type {p}"
    # nodes of every presentation type
    ngroups: dict = {}
    for p in sorted({t for v in vs for t in P[v]}):
        A = versions_of(p, None)
        if A and A[0] != vs[-1]:
            ngroups.setdefault(A, []).append(p)
    for A, ps in ngroups.items():
        h = Hist(None, True)
        s_common = [s for s in S[A[0]] if all(s in S[a] for a in A)]
        p_common = [q for q in P[A[0]] if all(q in P[a] for a in A)]
        for i, p in enumerate(ps):
            n = 1 + i
            h.ops.append(("recv", f"{n};255;0;0;{p};{rng.choice(('2.0', '1.4.1', ''))}", (), T0))
            if s_common:
                h.ops.append(("recv", f"{n};0;0;0;{rng.choice(p_common)};d", (), T0))
                cell_ops(h, n, 0, rng.choice(s_common))
        yield h, A, "node-types"


def run_both_pieces(hists, corr: Corr, ctx, view: str, what: str, workers: int = 6, with_model=None):
    """`run_both` with the model side cut at history boundaries into pieces that run in parallel driver processes.
    `with_model` (one bool per history): which runs are also put through the model (default: all); the
    implementation traces of all histories are returned."""
    impl_all = gw.run_impl_many(hists)
    if not ctx.model_ok or not hists:
        return impl_all
    from concurrent.futures import ThreadPoolExecutor
    impl = impl_all
    if with_model is not None:
        impl = [io for io, m in zip(impl_all, with_model) if m]
        hists = [h for h, m in zip(hists, with_model) if m]
    per_hist = [gw.model_lines(h) for h in hists]
    total = sum(len(x) for x in per_hist)
    target = max(1, -(-total // workers))
    pieces, cur = [], []
    for ml in per_hist:
        cur.extend(ml)
        if len(cur) >= target:
            pieces.append(cur)
            cur = []
    if cur:
        pieces.append(cur)
    with ThreadPoolExecutor(max_workers=workers) as ex:
        outs = [o for part in ex.map(lib.run_model, pieces) for o in part]
    pos = 0
    for h, io, ml in zip(hists, impl, per_hist):
        mo = gw.model_obs(h, outs[pos:pos + len(ml)])
        pos += len(ml)
        for i, (o, (mout, mstate)) in enumerate(zip(io, mo)):
            iout = o["out"] + gw.render_writes(o["writes"]) if i else "init W"
            a, bb = project(view, iout, o["state"]), project(view, mout, gw.align_state(o["state"], mstate))
            if a != bb:
                short = Hist(h.version, h.metric, h.preload, h.ops[:i])
                corr.disagree(what, {"history": short.to_json(), "step": i, "view": view, "impl": list(a), "model": list(bb)})
                break
    return impl_all


def _c19_forget_sleeping(obs):
    """The stated exception (heartbeat response: 2.0/2.1 mark the node as sleeping, 2.2 does not): the observation
    without the nodes' sleeping flags."""
    out, writes, nodes, ibuf, sbuf = obs
    return (out, writes, re.sub(r":([01]):([01]):\[", r":\1:[", nodes), ibuf, sbuf)


def _c19_violation(corr: Corr, a: str, w: str, h: Hist, i: int, ia, ib, scenario=None, shrink=False, view=None) -> None:
    """Report a step inside the property's domain at which the runs under `a` and `w` differ: the history up to that
    step (shrunk on request), what both versions showed, and - across the lines - how the message's node stands in
    the real registry."""
    cut = Hist(a, h.metric, h.preload, h.ops[:i])
    oa, ob = ia[i], ib[i]
    if shrink:
        small = _c19_shrink(cut, a, w, view)
        ja, jb = gw.run_impl_many([small, Hist(w, small.metric, small.preload, small.ops)])
        d = _c19_judge(a, w, small.ops, ja, jb, view)[0]
        if d is not None and d == len(small.ops):
            cut, oa, ob, ia = small, ja[d], jb[d], ja
    va, vb = _c19_obs(oa), _c19_obs(ob)
    if view is not None:
        va, vb = view(va), view(vb)
    case = {"older": a, "newer": w, "history": cut.to_json(),
            "older_obs": [str(x)[:300] for x in va], "newer_obs": [str(x)[:300] for x in vb]}
    if scenario:
        case["scenario"] = scenario
    if view is _c19_stated_only:
        case["stated_observables_only"] = True      # the runs differ in outcome / writes / registry, not only in the buffers
    elif view is not None:
        case["sleeping_flag_excepted"] = True
    if _c19_is_cross(a, w) and cut.ops:
        last, before = cut.ops[-1], ia[len(cut.ops) - 1]["nodes"]
        case["registry_before_last_step"] = {str(k): sorted(v["children"]) for k, v in before.items()}
        case["in_domain"] = ("every message before and at the last step names a node (and child) that is in the registry "
                             "at that moment, or creates one; no gateway-ready" if _c19_out_of_scope(a, last, before) is None
                             else "NOT in domain")
    corr.violate("the same history is handled differently by a newer protocol version", case)


def placeholder_histories(rng, per_line: int):
    """The id-request handler puts a node into the registry before that node ever presented itself (a placeholder with
    default values).  From then on the node IS in the registry, so whatever it sends is inside the property's domain
    also across 1.x -> 2.x.  Histories: a registry that is empty / small / has a gap / holds a sleeping node; an id
    request (system child or not, echo asked or not, the response's write possibly failing or cancelled); then the
    node that was given the id sends BEFORE its presentation: sketch name, sketch version, battery level (valid or
    not), child presentations, set and req on those children, every stream type, the other internal types of the
    older protocol, send calls addressed to it - in 2.x also heartbeat and discover responses -; possibly a second id
    request in between; then the node presents itself and its children, and reports again.
    Yields (history without version, versions whose tables hold all its types, label)."""
    vs = lib.VERSIONS
    T0 = gw.DEFAULT_TIME
    for a0 in ("1.4", "2.0"):
        to = proto_tables(a0)
        names = {nm: int(t) for t, nm in to["internal"].items()}
        plain = [t for nm, t in names.items() if nm not in ("I_VERSION", "I_GATEWAY_READY", "I_ID_REQUEST", "I_HEARTBEAT_RESPONSE",
                                                           "I_BATTERY_LEVEL", "I_SKETCH_NAME", "I_SKETCH_VERSION")]
        streams = [int(t) for t in to["stream"]]
        sends = a0 == "1.4"          # 2.0-types histories hold heartbeats: nothing may be held for a node (the exception)
        for k in range(per_line):
            h = Hist(None, rng.random() < 0.5)
            reg: dict = {}
            style = k % 4
            if style == 1:
                h.preload.append(("node", 1, 17, "2.0", "Sk", "1.0", 80, 0, False, False))
                h.preload.append(("child", 1, 0, 0, 6, "c"))
                reg[1] = {0}
            elif style == 2:
                for n in (2, rng.randint(5, 250)):
                    h.preload.append(("node", n, 17, "1.4", "", "", 0, 0, rng.random() < 0.3, False))
                    reg[n] = set()
            elif style == 3:
                h.preload.append(("node", 4, 18, "2.0", "", "", 0, 0, False, sends))
                h.preload.append(("child", 4, 1, 1, 3, ""))
                reg[4] = {1}

            def ack() -> int:
                return 1 if rng.random() < 0.25 else 0

            def faults():
                return (rng.choice((True, gw.CANCEL)),) if rng.random() < 0.06 else ()

            def recv(line: str, f=()) -> None:
                h.ops.append(("recv", line, f, T0))

            def id_request() -> int:
                recv(f"255;{rng.choice((255, 255, 255, 7))};3;{ack()};{names['I_ID_REQUEST']};", faults())
                new = max(reg) + 1 if reg else 1
                reg[new] = set()
                return new

            def report(n: int) -> None:
                """One message from node n (or one send call addressed to it)."""
                kind = rng.choice(("name", "name", "version", "battery", "battery", "child", "child", "set", "set", "req", "stream",
                                   "internal", "send", "hb", "discover"))
                kids = sorted(reg[n])
                if kind in ("set", "req", "send") and not kids:
                    kind = "child"
                if kind == "name":
                    recv(f"{n};255;3;{ack()};{names['I_SKETCH_NAME']};{rng.choice(('Door sensor', '', 'x y', 'Sk'))}", faults())
                elif kind == "version":
                    recv(f"{n};255;3;{ack()};{names['I_SKETCH_VERSION']};{rng.choice(('1.2', '', '2.0-beta'))}", faults())
                elif kind == "battery":
                    recv(f"{n};255;3;{ack()};{names['I_BATTERY_LEVEL']};{rng.choice(('87', '0', '100', 'abc', '150', '', '55.5'))}", faults())
                elif kind == "child":
                    c = rng.choice((0, 1, 3, 254))
                    recv(f"{n};{c};0;{ack()};{rng.choice((0, 6, 3, 18, 25))};{rng.choice(('front door', '', 'd'))}", faults())
                    reg[n].add(c)
                elif kind == "set":
                    recv(f"{n};{rng.choice(kids)};1;{ack()};{rng.choice((0, 2, 16))};{rng.choice(('1', '0', '21.5', ''))}", faults())
                elif kind == "req":
                    recv(f"{n};{rng.choice(kids)};2;{ack()};{rng.choice((0, 2, 16))};", faults())
                elif kind == "stream":
                    recv(f"{n};255;4;{ack()};{rng.choice(streams)};{rng.choice(('0', '', '0A00'))}", faults())
                elif kind == "internal":
                    recv(f"{n};255;3;{ack()};{rng.choice(plain)};{rng.choice(('1', '', 'x'))}", faults())
                elif kind == "send":
                    if sends:
                        h.ops.append(("send", (n, rng.choice(kids), 1, ack(), rng.choice((0, 2)), str(rng.randint(0, 9))),
                                      rng.random() < 0.8, ()))
                elif kind == "hb":
                    if "I_HEARTBEAT_RESPONSE" in names:
                        recv(f"{n};255;3;{ack()};{names['I_HEARTBEAT_RESPONSE']};{rng.choice(('5', '0', 'x', ''))}", faults())
                elif kind == "discover":
                    if "I_DISCOVER_RESPONSE" in names:
                        recv(f"{n};255;3;{ack()};{names['I_DISCOVER_RESPONSE']};{rng.choice(('0', '1'))}", faults())

            for n in list(reg):
                if rng.random() < 0.5:
                    report(n)
            p = id_request()
            second = None
            for _ in range(rng.randint(3, 8)):
                if second is None and rng.random() < 0.12:
                    second = id_request()
                report(second if second is not None and rng.random() < 0.3 else p)
            if rng.random() < 0.85:
                recv(f"{p};255;0;{ack()};{rng.choice((17, 18))};{rng.choice(('2.0', '1.4.1', ''))}", faults())
                reg[p] = set()
                for _ in range(rng.randint(1, 4)):
                    report(p)
            yield h, tuple(vs[vs.index(a0):]), f"placeholder ({a0} types)"


def _c19_placeholders(corr: Corr, ctx, run) -> None:
    """Traffic of a node that holds an id but has not presented itself, under every version and every ordered pair.
    `run(hists, with_model)` executes the runs (implementation, and model where asked) and returns the implementation's
    traces."""
    rng = lib.rng_for(ctx.seed, "c19-placeholder")
    base = list(placeholder_histories(rng, 24 if ctx.tier == "quick" else 400))
    hists, index, with_model = [], [], []
    for k, (h, A, label) in enumerate(base):
        index.append(len(hists))
        hists += [Hist(v, h.metric, h.preload, h.ops) for v in A]
        with_model += [ctx.tier != "quick" or j == 0 or j == 1 + k % (len(A) - 1) for j in range(len(A))]
    corr.count("placeholder:runs", len(hists))
    corr.count("placeholder:runs also compared with the model", sum(with_model))
    impl = run(hists, with_model)
    shrunk = 0
    for (h, A, label), first in zip(base, index):
        for x, a in enumerate(A):
            for y in range(x + 1, len(A)):
                w = A[y]
                ia, ib = impl[first + x], impl[first + y]
                # 2.0-types histories hold heartbeat responses: towards 2.2 the sleeping flag may differ (the exception)
                view = _c19_forget_sleeping if w == "2.2" and a in ("2.0", "2.1") else None
                i, cut, why = _c19_judge(a, w, h.ops, ia, ib, view)
                if i is not None:
                    _c19_violation(corr, a, w, h, i, ia, ib, label, shrink=shrunk < 3, view=view)
                    shrunk += 1
                judged = len(h.ops) if cut is None else cut
                corr.case(("placeholder", a, w, first), True,
                          {"older": a, "newer": w, "scenario": label, "ops": len(h.ops), "judged": judged} if first % 61 == 0 else None)
                corr.count(f"placeholder:{a}->{w}:histories")
                corr.count(f"placeholder:{a}->{w}:steps judged", judged)
                if cut is not None:
                    corr.count(f"placeholder:{a}->{w}:histories that leave the domain ({why.split(' ')[0]} ...)")
    corr.notes.append("placeholder nodes: an id request registers a node before its presentation; the traffic of that node (sketch "
                      "name / version, battery, child presentations, set / req, streams, internal types, send calls; heartbeat and "
                      "discover responses in the 2.x histories) is run under every version from the oldest whose tables hold the "
                      "types and judged for every ordered pair; across 1.x -> 2.x the domain (no unknown node or child) is "
                      "decided per step from the real registry before the step, not from the error raised")


def version_report_histories(rng):
    """What a gateway holds BETWEEN messages - the registry, the commands parked for sleeping nodes, the record of the
    presentation requests it has sent - and a version report arriving in the middle of it.  The version message exists
    in every protocol, so these are histories over the older protocol's types; a report that resolves leaves both
    gateways of a pair on the same protocol, which for one of them may be the protocol it already ran and for the other
    a change (the reported version equals the older one's, the newer one's, a third one's, or does not resolve).

    Scenarios (node / child ids, value types, payloads, ack flags drawn per history):
      * `parked, asleep by heartbeat` (2.0 types; 2.0 / 2.1): a node presents itself and children, a heartbeat response
        puts it to sleep, set commands are sent to it (held), the next heartbeat response releases them, another command
        is held and released;
      * `request sent` (2.0 types; 2.0 / 2.1 / 2.2): a node that is not in the registry sends values and a sketch name
        (ONE presentation request), a second such node, the first one presents itself, then a value for a child it
        has not presented, then the child;
      * `parked, asleep at the start` (1.4 types; all five versions): a node restored as sleeping; set commands are sent
        to it (held, a later one replacing an earlier one under the same key), one goes past the buffer, the node reports;
      * `parked and request sent` (2.0 types without the heartbeat response; 2.0 / 2.1 / 2.2): both at once.
    The report - the answer to the version query or the gateway's own presentation - is inserted at EVERY position of
    the scenario (before anything is held, between parking and release, between the request and the node's next
    message, at the end) for every version of the table, and at two positions for each further string.
    Yields (history without version, versions to run it under, label)."""
    vs = lib.VERSIONS
    T0 = gw.DEFAULT_TIME

    def names_of(a0: str) -> dict:
        return {nm: int(t) for t, nm in proto_tables(a0)["internal"].items()}

    def scenario(kind: str):
        h = Hist(None, rng.random() < 0.5)
        ops = h.ops
        n = rng.randint(1, 250)
        c1, c2 = rng.sample((0, 1, 2, 7, 254), 2)
        t1, t2 = rng.sample((0, 2, 3, 16), 2)
        ack = lambda: 1 if rng.random() < 0.2 else 0  # noqa: E731
        val = lambda: rng.choice(("1", "0", "21.5", "", "on"))  # noqa: E731

        def recv(line: str) -> None:
            ops.append(("recv", line, (), T0))

        def send(node: int, c: int, t: int, buffer: bool = True) -> None:
            ops.append(("send", (node, c, 1, ack(), t, val()), buffer, ()))

        if kind == "parked, asleep by heartbeat":
            nm = names_of("2.0")
            hb = nm["I_HEARTBEAT_RESPONSE"]
            if rng.random() < 0.5:
                recv(f"{n};255;0;0;17;2.0")
            else:
                h.preload.append(("node", n, 17, "2.0", "Sk", "1.0", 0, 0, False, False))
            for c in (c1, c2):
                recv(f"{n};{c};0;0;{rng.choice((3, 6))};d")
            recv(f"{n};255;3;{ack()};{hb};{rng.randint(0, 999)}")
            send(n, c1, t1)
            send(n, c2, t2)
            recv(f"{n};255;3;{ack()};{hb};{rng.randint(0, 999)}")
            recv(f"{n};255;3;0;{nm['I_BATTERY_LEVEL']};{rng.randint(0, 100)}")
            send(n, c1, t2)
            recv(f"{n};255;3;0;{hb};{rng.randint(0, 999)}")
            return h, ("2.0", "2.1")
        if kind == "request sent":
            nm = names_of("2.0")
            u, u2 = rng.sample(range(1, 250), 2)
            recv(f"{u};{c1};1;{ack()};{t1};{val()}")
            recv(f"{u};{c1};1;0;{t1};{val()}")
            recv(f"{u};255;3;0;{nm['I_SKETCH_NAME']};sketch")
            recv(f"{u2};{c2};2;0;{t2};")
            recv(f"{u};{c2};1;0;{t2};{val()}")
            recv(f"{u};255;0;0;17;2.0")
            recv(f"{u};{c1};1;0;{t1};{val()}")
            recv(f"{u};{c1};0;0;6;d")
            recv(f"{u2};255;3;0;{nm['I_BATTERY_LEVEL']};50")
            return h, ("2.0", "2.1", "2.2")
        if kind == "parked, asleep at the start":
            nm = names_of("1.4")
            h.preload.append(("node", n, 17, "1.4", "Sk", "1.0", 40, 0, False, True))
            for c in (c1, c2):
                h.preload.append(("child", n, c, c, 3, "d"))
            send(n, c1, t1)
            send(n, c2, t2)
            recv(f"{n};{c1};1;{ack()};{t1};{val()}")
            send(n, c1, t1)
            send(n, c2, t1, buffer=False)
            recv(f"{n};255;3;0;{nm['I_BATTERY_LEVEL']};{rng.randint(0, 100)}")
            send(n, c2, t2)
            return h, tuple(vs)
        assert kind == "parked and request sent"
        nm = names_of("2.0")
        u = n + 1
        h.preload.append(("node", n, 17, "2.0", "", "", 0, 0, False, True))
        h.preload.append(("child", n, c1, c1, 3, ""))
        send(n, c1, t1)
        recv(f"{u};{c1};1;0;{t1};{val()}")
        send(n, c1, t2)
        recv(f"{u};255;3;0;{nm['I_SKETCH_VERSION']};1.0")
        recv(f"{n};{c1};2;0;{t1};")
        send(n, c1, t1)
        recv(f"{u};{c2};1;0;{t1};{val()}")
        return h, ("2.0", "2.1", "2.2")

    for kind in ("parked, asleep by heartbeat", "request sent", "parked, asleep at the start", "parked and request sent"):
        for payload in REPORT_STRINGS:
            probe, _ = scenario(kind)
            every = list(range(len(probe.ops) + 1))
            for pos in (every if payload in vs else rng.sample(every[1:], 2)):
                h, A = scenario(kind)
                pos = min(pos, len(h.ops))
                h.ops.insert(pos, ("recv", version_report_line(rng, payload), (), T0))
                yield h, A, f"version report {payload!r} at position {pos}: {kind}"


def _c19_stated_only(obs):
    """The observation restricted to what the property's text names: yielded message or error, writes, registry."""
    out, writes, nodes, _ibuf, _sbuf = obs
    return (out, writes, nodes, "", "")


def _c19_report(corr: Corr, a: str, w: str, h: Hist, i: int, ia, ib, scenario=None, shrink=False) -> None:
    """The runs under `a` and `w` differ at step `i` (in the full observation).  Where they also differ in what the
    property's text names (outcome, writes, registry) the history up to THAT step is reported; else the history up to the
    first step at which the buffers differ."""
    j = _c19_judge(a, w, h.ops, ia, ib, _c19_stated_only)[0]
    if j is not None:
        _c19_violation(corr, a, w, h, j, ia, ib, scenario, shrink=shrink, view=_c19_stated_only)
    else:
        _c19_violation(corr, a, w, h, i, ia, ib, scenario, shrink=shrink)


def _c19_version_reports(corr: Corr, ctx, run, before=([], [])):
    """A version report in the middle of held state, under every version the scenario's types exist in and judged for
    every ordered pair.  `run(hists, with_model)` executes `before` + these runs and returns the implementation's traces;
    the traces of `before` are returned."""
    rng = lib.rng_for(ctx.seed, "c19-version-report")
    rounds = 1 if ctx.tier == "quick" else 8
    base = [x for _ in range(rounds) for x in version_report_histories(rng)]
    hists, index, with_model = [], [], []
    for k, (h, A, label) in enumerate(base):
        index.append(len(hists))
        hists += [Hist(v, h.metric, h.preload, h.ops) for v in A]
        with_model += [ctx.tier != "quick" or j == k % len(A) for j in range(len(A))]
    corr.count("version-report:runs", len(hists))
    corr.count("version-report:runs also compared with the model", sum(with_model))
    more, more_model = before
    impl_all = run(list(more) + hists, list(more_model) + with_model)
    impl = impl_all[len(more):]
    shrunk = 0
    for (h, A, label), first in zip(base, index):
        for x, a in enumerate(A):
            for y in range(x + 1, len(A)):
                w = A[y]
                ia, ib = impl[first + x], impl[first + y]
                i, cut, why = _c19_judge(a, w, h.ops, ia, ib)
                if i is not None:
                    _c19_report(corr, a, w, h, i, ia, ib, label, shrink=shrunk < 3)
                    shrunk += 1
                judged = len(h.ops) if cut is None else cut
                corr.case(("version-report", a, w, first), True,
                          {"older": a, "newer": w, "scenario": label, "ops": len(h.ops), "judged": judged} if first % 97 == 0 else None)
                corr.count(f"version-report:{a}->{w}:histories")
                corr.count(f"version-report:{a}->{w}:steps judged", judged)
    corr.notes.append("version reports inside the history: the answer to the version query / the gateway's own presentation, "
                      "carrying every version of the table (and strings that resolve to one, or to none), at every position of "
                      "scenarios in which the gateway holds something between messages (commands parked for a sleeping node, a "
                      "presentation request already sent); judged for every ordered pair of the versions the scenario's types "
                      "exist in; also in a third of the random paired histories")
    return impl_all[:len(more)]


def _c19_type_grid(corr: Corr, ctx, extra=None):
    """Every (child type, value type) cell of the older protocol's tables, under every ordered pair of versions.
    `extra` = (histories, with_model): further runs executed in the same batch (one round of parallel model drivers);
    their implementation traces are returned."""
    rng = lib.rng_for(ctx.seed, "c19-grid")
    vs = lib.VERSIONS
    rounds = 1 if ctx.tier == "quick" else 6
    base = [x for _ in range(rounds) for x in type_grid_histories(rng)]
    hists, index, with_model = [], [], []
    for k, (h, A, label) in enumerate(base):
        run_under = vs[vs.index(A[0]):]
        index.append((len(hists), run_under))
        hists += [Hist(v, h.metric, h.preload, h.ops) for v in run_under]
        # the pair oracle judges every run; the quick tier puts the run under the oldest version and under one of the
        # newer ones (rotating) through the model as well, the thorough tier all of them
        with_model += [ctx.tier != "quick" or j == 0 or j == 1 + k % (len(run_under) - 1) for j in range(len(run_under))]
    outside = [Hist(A[0], h.metric, h.preload, h.ops) for h, A, _ in type_grid_histories(rng, outside=True)]
    with_model += [True] * len(outside)
    corr.count("grid:runs", len(hists))
    corr.count("grid:runs also compared with the model", sum(with_model))
    more, more_model = extra if extra is not None else ([], [])
    impl = run_both_pieces(hists + outside + more, corr, ctx, "full", "full view (type grid / placeholder nodes)",
                           with_model=with_model + more_model)
    more_impl = impl[len(hists) + len(outside):]
    shrunk = 0
    for (h, A, label), (first, run_under) in zip(base, index):
        cells = sum(1 for op in h.ops if op[0] == "recv" and op[1].split(";")[2] == "1")
        for a in A:
            for w in run_under[run_under.index(a) + 1:]:
                ia, ib = impl[first + run_under.index(a)], impl[first + run_under.index(w)]
                i, cut, _why = _c19_judge(a, w, h.ops, ia, ib)
                if i is not None:
                    _c19_violation(corr, a, w, h, i, ia, ib, "type grid: " + label, shrink=shrunk < 3)
                    shrunk += 1
                if cut is not None:
                    corr.count(f"grid:{a}->{w}:histories that leave the domain")
                corr.case(("grid", a, w, label, first), True,
                          {"older": a, "newer": w, "scenario": "type grid: " + label, "ops": len(h.ops)} if first % 211 == 0 else None)
                corr.count(f"grid:{a}->{w}:histories")
                corr.count(f"grid:{a}->{w}:" + ("node types" if label == "node-types" else "cells(child type x value type)"), cells)
    for h in outside:
        corr.case(("grid-outside", h.version), True, None)
        corr.count("grid:types outside the version's tables (model comparison only)")
    corr.notes.append("type grid: the cells (child type x set/req type) are computed from the extracted tables of the tree under "
                      "check; they are expressible as operations of the Lean model's driver, so the runs are also compared with the "
                      "model (full view; quick tier: the run under the oldest version and one newer version per history, thorough "
                      "tier: every run); the histories with child / value types OUTSIDE a version's tables are outside the "
                      "property's statement and are compared with the model only, not judged by the pair oracle")
    return more_impl


def run_c19(ctx) -> Corr:
    corr = Corr("C19", "two real gateways fed the same history under every ordered pair of supported versions (same major line: "
                "1.4/1.5, 2.0/2.1, 2.0/2.2, 2.1/2.2; across 1.x->2.x judged as long as every message names a node / child that "
                "is in the REAL registry at that step - preloaded, presented, or registered as a placeholder by an id request - "
                "and is not gateway-ready: the first operation outside that domain ends the judged part), histories "
                "restricted to the older protocol's types (heartbeat response excluded when 2.2 is the newer side, and checked "
                "separately as the stated exception); each run also compared with the Lean model (full view); oracle = "
                "identical outcomes, registry, buffers and writes step by step. non-trivial = distinct (pair, history). "
                "Plus the type grid: a child of EVERY presentation type of the older protocol's table, then req / set / req / "
                "send call of EVERY set/req type of that table with rotating payload kinds and ack flags (nodes freshly "
                "presented, wanting a reboot, or asleep), and nodes of every presentation type; each such history is run under "
                "every version from the oldest whose tables contain its types and judged by the same oracle for every ordered "
                "pair (counted under grid:*). Plus placeholder nodes (placeholder:*): id request, then traffic of the node "
                "that was given the id before its presentation, under all five versions")
    rng = lib.rng_for(ctx.seed, "c19")
    pairs = [("1.4", "1.5", False), ("2.0", "2.1", False), ("2.0", "2.2", False), ("2.1", "2.2", False),
             ("1.4", "2.0", True), ("1.5", "2.0", True), ("1.4", "2.2", True), ("1.5", "2.1", True), ("1.5", "2.2", True), ("1.4", "2.1", True)]
    n = 40 if ctx.tier == "quick" else 600
    hists, meta = [], []
    for (a, bver, cross) in pairs:
        for i in range(n):
            base = older_types_history(rng, a, cross, avoid_hb=(bver == "2.2" and a != "2.2"), length=rng.randint(5, 35),
                                       reports=0.06 if i % 3 == 2 else 0.0)
            for v in (a, bver):
                hists.append(Hist(v, base.metric, base.preload, base.ops))
            meta.append((a, bver, cross))
        # codec level, systematically: every internal type of the older protocol on a child id other than the system
        # child (accepted for id request / response only), from the gateway's own id and from a registered node -
        # every version must judge these lines alike
        sweep = Hist(None, True, [("node", 1, 17, "2.0", "", "", 0, 0, False, False)], [])
        for t in sorted(int(x) for x in proto_tables(a)["internal"]):
            if t != 2:
                for sender, child in ((0, 0), (1, 0), (1, 7)):
                    sweep.ops.append(("recv", f"{sender};{child};3;0;{t};x", (), gw.DEFAULT_TIME))
        for v in (a, bver):
            hists.append(Hist(v, sweep.metric, sweep.preload, sweep.ops))
        meta.append((a, bver, cross))
    impl = run_both(hists, corr, ctx, "full", "full view")
    shrunk = placeholder_steps = 0
    for j, (a, bver, cross) in enumerate(meta):
        ha, ia, ib = hists[2 * j], impl[2 * j], impl[2 * j + 1]
        i, cut, why = _c19_judge(a, bver, ha.ops, ia, ib)
        if i is not None:
            _c19_report(corr, a, bver, ha, i, ia, ib, shrink=shrunk < 2)
            shrunk += 1
        if cross:
            corr.count(f"pair:{a}->{bver}:steps judged", len(ha.ops) if cut is None else cut)
            corr.count(f"pair:{a}->{bver}:steps generated", len(ha.ops))
            if cut is not None:
                corr.count(f"pair:{a}->{bver}:histories that leave the domain ({why.split(' ')[0]} ...)")
            placeholder_steps += _c19_placeholder_steps(a, ha.ops, ia, cut)
        corr.case(("pair", a, bver, j), True, {"older": a, "newer": bver, "ops": len(ha.ops)} if j % 97 == 0 else None)
        corr.count(f"pair:{a}->{bver}")
    corr.count("pair:1.x->2.x:judged steps of a node registered by an id request and not yet presented", placeholder_steps)
    # the stated exception, and nothing more than it: with heartbeat responses in the history (from known and
    # unknown nodes, valid and invalid payloads) 2.0/2.1 and 2.2 may differ in the sleeping flag only.  Nothing is
    # ever held for a node here (no send calls, nobody asleep at the start), so there is nothing to release and
    # outcomes, writes, buffers and the rest of the registry must be identical.
    hb_hists, hb_meta = [], []
    for a in ("2.0", "2.1"):
        for i in range(n):
            base = older_types_history(rng, a, False, avoid_hb=False, length=rng.randint(5, 30))
            pre = [p[:9] + (False,) if p[0] == "node" else p for p in base.preload]
            ops = [op for op in base.ops if op[0] == "recv"]
            for k in range(rng.randint(2, 6)):      # make sure the heartbeat responses are there
                node = rng.choice((1, 2, 3, 3, 4, 200))    # 3, 4: unknown, or a placeholder once an id was handed out
                ops.insert(rng.randint(0, len(ops)), ("recv", f"{node};255;3;0;22;{rng.choice(gw.HEARTBEAT_PAYLOADS + ['5', 'x', ''])}", (), gw.DEFAULT_TIME))
            for v in (a, "2.2"):
                hb_hists.append(Hist(v, base.metric, pre, ops))
            hb_meta.append(a)
    hb_impl = run_both(hb_hists, corr, ctx, "full", "full view (heartbeat exception)")
    sleeping_only = lambda nodes: re.sub(r":([01]):([01]):\[", r":\1:[", nodes)  # noqa: E731
    for j, a in enumerate(hb_meta):
        ha, ia, ib = hb_hists[2 * j], hb_impl[2 * j], hb_impl[2 * j + 1]
        for i in range(len(ha.ops) + 1):
            oa, ob = ia[i], ib[i]
            sa, sb = split_state(oa["state"]), split_state(ob["state"])
            va = (oa["out"], oa["writes"], sleeping_only(sa["nodes"]), sa["ibuf"], sa["sbuf"])
            vb = (ob["out"], ob["writes"], sleeping_only(sb["nodes"]), sb["ibuf"], sb["sbuf"])
            if va != vb:
                corr.violate("heartbeat responses: 2.2 differs from the older version in more than the sleeping flag",
                             {"older": a, "newer": "2.2", "sleeping_flag_excepted": True,
                              "history": Hist(a, ha.metric, ha.preload, ha.ops[:i]).to_json(),
                              "older_obs": [str(x)[:300] for x in va], "newer_obs": [str(x)[:300] for x in vb]})
                break
        corr.case(("hb", a, j), True, None)
        corr.count(f"pair:{a}->2.2:heartbeat-exception")
    for v, sleeps in (("2.0", True), ("2.1", True), ("2.2", False)):
        h = Hist(v, True, [("node", 1, 17, "2.0", "", "", 0, 0, False, False)], [("recv", "1;255;3;0;22;9", (), gw.DEFAULT_TIME)])
        o = gw.run_impl(h)[1]
        if o["nodes"][1]["sleeping"] != sleeps or o["nodes"][1]["hb"] != 9:
            corr.violate("heartbeat response: the one stated difference between 2.0/2.1 and 2.2 is not as stated", {"version": v})
    _c19_placeholders(corr, ctx, lambda hs, wm: _c19_version_reports(
        corr, ctx, lambda hs2, wm2: _c19_type_grid(corr, ctx, extra=(hs2, wm2)), before=(hs, wm)))
    return corr
