"""C09: the listener receives further lines WHILE a write of a wake-up flush is suspended.

The schedules of `flushrace` follow the Lean model's control flow: ONE flush at a time, and no line reaches the
transport's input while a write of that flush waits.  Here the transport's input is fed while a write waits:

    wake    a wake line of node 1 is put into the transport's input      wake2   a wake line of node 2 (another node)
    note    a line of node 1 that is not a wake (battery level; under 2.2 a heartbeat response, not a wake there)
    s0      the application task makes its next `await gateway.send(...)` call (its own task each, default buffering)
    w<k>    the k-th oldest write that is waiting in the transport gets through (its line is appended to the write log
            and the call returns)

EVERY write of EVERY task waits in the transport until the schedule lets it through, so whatever the library does
with a line it receives while a flush waits (handle it after the flush: the listener awaits the flush inline; or
start to handle it at once) happens under the schedule's control.  Schedules are not taken from a model: they are
enumerated from what the REAL system offers after every prefix (depth-first, each prefix re-executed from scratch:
lines while the line budget lasts, calls while the task has calls left, one `w<k>` per write that is waiting), for as
long as at least one write is waiting.  After the schedule the waiting writes are let through oldest first, the
outstanding calls are made, and every node wakes once more with nothing else running.

The verdict is the property's three clauses (`flushrace.oracle`) on the write log alone - every value written at most
as often as it was sent, the last value written for a key is the last one sent, nothing lost - whatever control flow
produced the log.  There is no model comparison for these runs (the Lean flush model has one listener that runs one
flush at a time; a line that arrives during a flush is, for it, a line that arrives after it).

Nothing can hang: no wait of the harness depends on the library making progress (every step is followed by a bounded
number of passes of the event loop until nothing moves any more), and all tasks of a case are cancelled when it ends.
"""

from __future__ import annotations

import asyncio
import json

from .. import lib
from . import flushrace as fr

from aiomysensors.gateway import Gateway  # noqa: E402
from aiomysensors.model.message import Message  # noqa: E402
from aiomysensors.model.node import Child, Node  # noqa: E402
from aiomysensors.transport import Transport  # noqa: E402

NODE, NODE2 = 1, 2
KEYS = {"A": (NODE, 0, 2), "B": (NODE, 1, 2), "C": (NODE, 0, 49), "X": (NODE2, 0, 2), "Y": (NODE2, 1, 2)}


def wake_line(version: str, node: int) -> str:
    return {"2.0": f"{node};255;3;0;22;1111", "2.1": f"{node};255;3;0;22;7", "2.2": f"{node};255;3;0;32;500"}[version]


def note_line(version: str, node: int) -> str:
    """A line of the node that is not a wake."""
    return {"2.0": f"{node};255;3;0;0;55", "2.1": f"{node};0;1;0;2;1", "2.2": f"{node};255;3;0;22;7"}[version]


class SuspendingTransport(Transport):
    """Every write waits until it is let through; reads deliver the lines put into `readq`."""

    def __init__(self) -> None:
        self.readq: asyncio.Queue[str] = asyncio.Queue()
        self.wire: list[tuple[str, object]] = []
        self.waiting: list[tuple[asyncio.Event, str, object]] = []   # oldest first
        self.current: dict = {}        # task -> message object it is sending (set by the send spy)
        self.moves = 0                 # counts everything that happens in the transport (for `settle`)
        self.max_waiting = 0

    async def connect(self) -> None:
        pass

    async def disconnect(self) -> None:
        pass

    async def read(self) -> str:
        item = await self.readq.get()
        self.moves += 1
        return item

    async def write(self, decoded_message: str) -> None:
        ev = asyncio.Event()
        self.waiting.append((ev, decoded_message, self.current.get(asyncio.current_task())))
        self.max_waiting = max(self.max_waiting, len(self.waiting))
        self.moves += 1
        await ev.wait()
        self.moves += 1

    def let_through(self, k: int) -> None:
        ev, line, obj = self.waiting.pop(k)
        self.wire.append((line, obj))      # the order in which writes get through is the write log
        self.moves += 1
        ev.set()


class Run:
    def __init__(self, case: dict) -> None:
        self.case = case
        self.version = case["version"]
        self.tr = tr = SuspendingTransport()
        self.gw = gw = Gateway(tr)
        gw.protocol_version = self.version
        for n in (NODE, NODE2):
            node = Node(n, 17, self.version, sleeping=True)
            for key in KEYS.values():
                if key[0] == n:
                    node.children.setdefault(key[1], Child(key[1], 3))
            gw.nodes[n] = node
        self.serial: dict[int, int] = {}
        self.keep: list[Message] = []
        self.sent: list[tuple[tuple, str, int]] = []
        self.errors: list[str] = []
        self.calls_made = 0
        self.lines = 0
        self.lines_while_waiting = 0
        self.skipped: list = []
        self.call_tasks: list[asyncio.Task] = []
        self.listener: asyncio.Task | None = None
        self.received = 0
        orig_send = gw.send

        async def send_spy(message, *, message_buffer=True):
            task = asyncio.current_task()
            prev = tr.current.get(task)
            tr.current[task] = message
            try:
                await orig_send(message, message_buffer=message_buffer)
            finally:
                if prev is None:
                    tr.current.pop(task, None)
                else:
                    tr.current[task] = prev

        gw.send = send_spy   # instance attribute of this harness-owned object

    async def _listen(self) -> None:
        # the application's loop: `async for message in gateway.listen(): ...`
        async for _ in self.gw.listen():
            self.received += 1

    async def settle(self) -> None:
        """Let the event loop run until nothing moves any more (no timers anywhere: a bounded number of passes)."""
        quiet, last = 0, None
        for _ in range(400):
            await asyncio.sleep(0)
            now = (self.tr.moves, self.received, len(self.tr.waiting), sum(t.done() for t in self.call_tasks),
                   self.listener is not None and self.listener.done())
            quiet = quiet + 1 if now == last else 0
            last = now
            if quiet >= 4:
                break
        if self.listener is not None and self.listener.done():
            lst, self.listener = self.listener, None
            if not lst.cancelled() and lst.exception() is not None:
                self.errors.append(f"listen() raised {type(lst.exception()).__name__}")
            else:
                self.errors.append("listen() ended")
            self.listener = asyncio.get_running_loop().create_task(self._listen())
            await self.settle()

    def _new_message(self, keyname: str, payload: str) -> Message:
        n, c, t = KEYS[keyname]
        m = Message(n, c, 1, 0, t, payload)
        self.serial[id(m)] = len(self.keep)
        self.keep.append(m)
        self.sent.append(((n, c, t), payload, self.serial[id(m)]))
        return m

    async def _call(self, keyname: str, payload: str) -> None:
        m = self._new_message(keyname, payload)
        try:
            await self.gw.send(m)
        except Exception as e:  # noqa: BLE001
            self.errors.append(f"send raised {type(e).__name__}")

    async def call(self, keyname: str, payload: str) -> None:
        self.call_tasks.append(asyncio.get_running_loop().create_task(self._call(keyname, payload)))
        await self.settle()

    async def start(self) -> None:
        await self.gw.__aenter__()
        self.listener = asyncio.get_running_loop().create_task(self._listen())
        for keyname, payload in self.case["parked"]:
            await self.call(keyname, payload)
        await self.settle()

    def enabled(self, max_lines: int) -> list[str]:
        """What the schedule may do next - as long as a write is waiting."""
        n = len(self.tr.waiting)
        if n == 0:
            return []
        out = [f"w{k}" for k in range(min(n, 3))]
        if self.calls_made < len(self.case["calls"]):
            out.append("s0")
        if self.lines < max_lines:
            out.append("wake")
            out.extend(t for t in self.case.get("other_lines", ()) if t != "wake")
        return out

    async def step(self, tok: str) -> None:
        tr = self.tr
        if tok in ("wake", "wake2", "note"):
            if tr.waiting:
                self.lines_while_waiting += 1
            self.lines += 1
            line = {"wake": wake_line(self.version, NODE), "wake2": wake_line(self.version, NODE2),
                    "note": note_line(self.version, NODE)}[tok]
            tr.readq.put_nowait(line)
        elif tok == "s0":
            if self.calls_made >= len(self.case["calls"]):
                self.skipped.append(tok)
                return
            keyname, payload = self.case["calls"][self.calls_made]
            self.calls_made += 1
            await self.call(keyname, payload)
            return
        elif tok.startswith("w") and tok[1:].isdigit():
            k = int(tok[1:])
            if k >= len(tr.waiting):
                self.skipped.append(tok)     # no such write is waiting in this system: nothing happens
                return
            tr.let_through(k)
        else:
            raise fr.HarnessBug(f"unknown choice {tok}")
        await self.settle()

    async def drain(self) -> None:
        guard = 0
        while self.tr.waiting:
            guard += 1
            if guard > 400:
                raise fr.HarnessBug("the writes do not come to an end")
            self.tr.let_through(0)
            await self.settle()

    async def finish(self) -> None:
        await self.drain()
        while self.calls_made < len(self.case["calls"]):
            await self.step("s0")
            await self.drain()
        for tok in ("wake", "wake2"):
            await self.step(tok)
            await self.drain()

    async def close(self) -> None:
        me = asyncio.current_task()
        with_exc = None
        try:
            await self.gw.__aexit__(None, None, None)
        except Exception as e:  # noqa: BLE001
            with_exc = e
        tasks = [t for t in asyncio.all_tasks() if t is not me and not t.done()]
        for t in tasks:
            t.cancel()
        if tasks:
            await asyncio.gather(*tasks, return_exceptions=True)
        del with_exc

    def wire(self):
        return [(line, self.serial.get(id(obj), -1) if obj is not None else -1) for line, obj in self.tr.wire]

    def left(self):
        return [[list(k), m.payload, self.serial.get(id(m), -1)] for k, m in lib.sleep_buffer(self.gw).set_messages.items()]


async def run_prefix(case: dict, schedule, max_lines: int, judge: bool):
    """Execute `schedule`; returns (what is enabled after it, verdict or None).  The case is finished and judged when
    nothing is enabled after the schedule, or when `judge` says so."""
    run = Run(case)
    try:
        async with asyncio.timeout(fr.CASE_TIMEOUT):
            await run.start()
            trace = []
            for tok in schedule:
                await run.step(tok)
                trace.append(f"{tok}: waiting={[ln.strip() for _e, ln, _o in run.tr.waiting]} "
                             f"written={[ln.strip() for ln, _o in run.tr.wire]}")
            en = run.enabled(max_lines)
            if en and not judge:
                return en, None
            await run.finish()
            sent, wire = list(run.sent), run.wire()
            bad = fr.oracle(sent, wire, run.errors, 0)
            info = {"errors": list(run.errors), "skipped": list(run.skipped), "sent": [[list(k), p, s] for k, p, s in sent],
                    "wire": [[line, s] for line, s in wire], "left_parked": run.left(),
                    "max_waiting_writes": run.tr.max_waiting, "lines_while_a_write_waited": run.lines_while_waiting,
                    "trace": trace}
            if info["left_parked"]:
                bad.append(f"clause 1: commands are still parked after every node woke with nothing else running: "
                           f"{info['left_parked']}")
            return en, (bad, info)
    except TimeoutError:
        raise fr.HarnessBug(f"no end within {fr.CASE_TIMEOUT}s: {json.dumps(case)} {schedule}") from None
    finally:
        await run.close()


async def explore(case: dict, max_lines: int, results: list) -> None:
    """Every schedule the real system offers from `wake` on, while a write is waiting."""
    stack = [["wake"]]
    failing = 0
    while stack:
        sched = stack.pop()
        en, verdict = await run_prefix(case, sched, max_lines, judge=False)
        if verdict is not None:
            results.append(({**case, "schedule": sched}, verdict))
            failing += bool(verdict[0])
            if failing >= 12:
                return          # enough failing schedules of this configuration
        else:
            stack.extend(sched + [t] for t in reversed(en))


def configs():
    """(parked, calls of the application task, other kinds of line, lines in the schedule).  Payloads are distinct."""
    out = []
    # the same node wakes again (up to three wakes), up to two calls in between, one or two parked commands
    for parked in ([("A", "0")], [("A", "0"), ("B", "1")], [("A", "0"), ("B", "1"), ("C", "2")]):
        for calls in ([], [("A", "5")], [("B", "5")], [("A", "5"), ("A", "6")], [("A", "5"), ("B", "6")], [("B", "5"), ("A", "6")],
                      [("A", "5"), ("A", "6"), ("A", "7")], [("A", "5"), ("B", "6"), ("A", "7")]):
            if len(parked) + len(calls) <= 4:
                out.append((parked, calls, (), 3 if len(parked) + len(calls) >= 3 else 4))
    # another node wakes / the node reports something else while the flush waits; one call
    for parked in ([("A", "0"), ("X", "8")], [("A", "0"), ("B", "1"), ("X", "8")]):
        for calls in ([], [("A", "5")], [("X", "9")], [("A", "5"), ("X", "9")], [("X", "9"), ("A", "5")]):
            out.append((parked, calls, ("wake2", "note"), 3 if len(parked) + len(calls) <= 3 else 2))
    return out


def run_overlap(corr, ctx, replay_case=None) -> None:
    results: list = []

    async def run_all():
        vi = 0
        if replay_case is not None:
            _en, verdict = await run_prefix(replay_case, replay_case["schedule"], 0, judge=True)
            results.append((replay_case, verdict))
        for parked, calls, other, max_lines in configs():
            case = {"overlap": True, "version": fr.WAKE_VERSIONS[vi % 3], "parked": [list(x) for x in parked],
                    "calls": [list(x) for x in calls], "other_lines": list(other)}
            vi += 1
            await explore(case, max_lines, results)

    asyncio.run(run_all())
    for case, (bad, info) in results:
        if bad:
            corr.violate("C09 violated on the real gateway (lines received while a write of a flush waited): " + bad[0],
                         {**case, "clauses": bad, **info})
        if info["errors"]:
            corr.count("cases-with-exceptions")
        nontrivial = info["lines_while_a_write_waited"] > 0
        corr.case(("overlap", case["version"], json.dumps(case["parked"]), json.dumps(case["calls"]), " ".join(case["schedule"])),
                  nontrivial, {k: v for k, v in {**case, "wire": info["wire"]}.items()} if nontrivial else None)
        corr.count("origin:lines-while-a-write-waits")
        corr.count("schedules:lines-while-a-write-waits")
        corr.count(f"version:{case['version']}")
        corr.count(f"while-a-write-waits:most-writes-waiting-at-once:{info['max_waiting_writes']}")
        corr.count(f"while-a-write-waits:lines-received:{info['lines_while_a_write_waited']}")
        for kind in ("wake", "wake2", "note", "s0"):
            if kind in case["schedule"][1:]:
                corr.count(f"while-a-write-waits:cases-with-{kind}")
    corr.notes.append("lines while a write waits (wake of the same node, wake of another node, a line that is not a wake, calls "
                      "of send, every write of every task under the schedule's control): schedules enumerated from what the "
                      "real system offers after every prefix while at least one write waits (<= 4 wakes of the node with <= 3 "
                      "calls and <= 3 parked commands, <= 3 wakes when calls + parked >= 3; <= 3 lines of three kinds with <= 2 "
                      "calls and commands parked for two nodes, <= 2 lines when calls + parked > 3); judged by the three clauses on the write log alone; no model comparison (for the one-listener "
                      "flush model a line that arrives during a flush is a line that arrives after it)")


def replay(case: dict) -> int:
    """Re-execute an `overlap` replay case on the implementation; print the trace and the oracle's verdict."""
    print(f"version {case['version']}, parked {case['parked']}, calls {case['calls']}, schedule {' '.join(case['schedule'])}")

    async def go():
        return await run_prefix(case, case["schedule"], 0, judge=True)

    _en, (bad, info) = asyncio.run(go())
    for t in info["trace"]:
        print("  ", t)
    print("   sent (call order):", info["sent"])
    print("   write log:", info["wire"])
    print("   still parked:", info["left_parked"], " errors:", info["errors"], " steps with nothing to do:", info["skipped"])
    if bad:
        print("reproduced:", bad[0])
        for b in bad[1:]:
            print("   also:", b)
    else:
        print("NOT reproduced: the write log satisfies the three clauses")
    return 0
