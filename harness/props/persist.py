"""C13 / C14: persistence.  Real `Persistence.save` / `Persistence.load` on real files in the scratch
directory vs the Lean model (`DriverPersist.lean`) vs the properties restated in Python."""

from __future__ import annotations

import asyncio
import copy
import json
import math
import os
import shutil
import sys

from .. import gw, lib
from ..lib import Corr, enc

lib.use_repo()

from marshmallow import ValidationError, fields as mm_fields  # noqa: E402

from aiomysensors import exceptions as exc  # noqa: E402
from aiomysensors.model.message import Message  # noqa: E402
from aiomysensors.model.node import Child, Node  # noqa: E402
from aiomysensors.gateway import Config, Gateway  # noqa: E402
from aiomysensors.persistence import Persistence  # noqa: E402
from aiomysensors.transport import Transport  # noqa: E402

DRIVER = "DriverPersist.lean"
MAXD = sys.get_int_max_str_digits()
FIXTURES = os.path.join(lib.REPO, "tests", "fixtures")

# ---- JSON values <-> the driver's prefix encoding -----------------------------------------------


def enc_json(v, out: list[str]) -> None:
    if v is None:
        out.append("n")
    elif v is True:
        out.append("t")
    elif v is False:
        out.append("f")
    elif isinstance(v, int):
        out.append(f"i{v}")
    elif isinstance(v, float):
        if math.isnan(v):
            out.append("rnan")
        elif math.isinf(v):
            out.append("rinf")
        else:
            a, b = v.as_integer_ratio()
            out.append(f"r{a}/{b}")
    elif isinstance(v, str):
        out.append("s" + enc(v))
    elif isinstance(v, list):
        out.append(f"a{len(v)}")
        for x in v:
            enc_json(x, out)
    elif isinstance(v, dict):
        out.append(f"o{len(v)}")
        for k, x in v.items():
            out.append(enc(k))
            enc_json(x, out)
    else:
        raise TypeError(type(v))


def json_tokens(v) -> str:
    out: list[str] = []
    enc_json(v, out)
    return " ".join(out)


def dec_json(toks: list[str], pos: int = 0):
    t = toks[pos]
    c, body = t[0], t[1:]
    if t == "n":
        return None, pos + 1
    if t == "t":
        return True, pos + 1
    if t == "f":
        return False, pos + 1
    if c == "i":
        return int(body), pos + 1
    if c == "r":
        if body == "nan":
            return math.nan, pos + 1
        if body == "inf":
            return math.inf, pos + 1
        a, b = body.split("/")
        return int(a) / int(b), pos + 1
    if c == "s":
        return lib.dec(body), pos + 1
    if c == "a":
        xs = []
        pos += 1
        for _ in range(int(body)):
            x, pos = dec_json(toks, pos)
            xs.append(x)
        return xs, pos
    if c == "o":
        d = {}
        pos += 1
        for _ in range(int(body)):
            k = lib.dec(toks[pos])
            x, pos = dec_json(toks, pos + 1)
            d[k] = x
        return d, pos
    raise lib.ModelError(f"bad JSON token {t!r}")


def parse_model_json(line: str):
    toks = line.split(" ")
    v, pos = dec_json(toks)
    if pos != len(toks):
        raise lib.ModelError(f"trailing tokens in model JSON: {line[:200]}")
    return v


def jeq(a, b) -> bool:
    """Equality of JSON values as Python sees dicts (order-insensitive), but type-exact."""
    if type(a) is not type(b):
        return False
    if isinstance(a, dict):
        return a.keys() == b.keys() and all(jeq(a[k], b[k]) for k in a)
    if isinstance(a, list):
        return len(a) == len(b) and all(jeq(x, y) for x, y in zip(a, b))
    if isinstance(a, float):
        return a == b or (math.isnan(a) and math.isnan(b))
    return a == b


def json_has_surrogate(v) -> bool:
    stack = [v]
    while stack:
        x = stack.pop()
        if isinstance(x, str):
            if lib.has_surrogate(x):
                return True
        elif isinstance(x, list):
            stack.extend(x)
        elif isinstance(x, dict):
            if any(lib.has_surrogate(k) for k in x):
                return True
            stack.extend(x.values())
    return False


def json_depth(v) -> int:
    d = 0
    stack = [(v, 0)]
    while stack:
        x, k = stack.pop()
        d = max(d, k)
        if isinstance(x, list):
            stack.extend((y, k + 1) for y in x)
        elif isinstance(x, dict):
            stack.extend((y, k + 1) for y in x.values())
    return d


# ---- registries ---------------------------------------------------------------------------------

B = gw.b
num = lib.num


def render_nodes(nodes: dict) -> str:
    """Same format as DriverPersist.lean's showReg (dict order).  The registry is an object of the REAL library
    (built by its handlers or its load): whatever its keys and attributes hold - None, a float, a bool, an integer
    beyond the digit limit, an entry that is not a Node at all - is rendered (lib.enc / lib.num: `!type!...` tokens
    the model never prints), never a crash of the harness."""
    out = []
    for k, n in nodes.items():
        try:
            children = []
            for ck, c in n.children.items():
                vals = ",".join(f"{num(t)}={enc(v)}" for t, v in c.values.items())
                children.append(f"{num(ck)}/{num(c.child_id)}/{num(c.child_type)}/{enc(c.description)}/{{{vals}}}")
            out.append(f"{num(k)}:{num(n.node_type)}:{enc(n.protocol_version)}:{enc(n.sketch_name)}:{enc(n.sketch_version)}:"
                       f"{num(n.battery_level)}:{num(n.heartbeat)}:{B(n.reboot)}:{B(n.sleeping)}:[{';'.join(children)}]")
        except Exception as e:  # noqa: BLE001  (not a Node / Child, children or values not a dict ...)
            out.append(f"{num(k)}:!unrenderable!{type(e).__name__}!{enc(lib.safe_repr(n)[:200])}")
    return "[" + "|".join(out) + "]"


def parse_reg(text: str):
    """'[node|node]' -> {id: (attrs, {key: (cid, ctype, desc, {t: v})})} for order-insensitive comparison."""
    assert text[0] == "[" and text[-1] == "]", text[:80]
    body = text[1:-1]
    reg = {}
    if not body:
        return reg
    for item in body.split("|"):
        f = item.split(":", 9)
        children = {}
        cbody = f[9][1:-1]
        if cbody:
            for c in cbody.split(";"):
                ck, cid, ctype, desc, vals = c.split("/")
                vd = {}
                if vals[1:-1]:
                    last = None
                    for tok in vals[1:-1].split(","):      # a value's code points are comma-separated too
                        if "=" in tok:
                            t, v = tok.split("=")
                            last = int(t)
                            vd[last] = v
                        else:
                            vd[last] += "," + tok
                children[int(ck)] = (int(cid), int(ctype), desc, vd)
        reg[int(f[0])] = (tuple(f[1:9]), children)
    return reg


def same_reg_text(a: str, b: str) -> bool:
    """Two rendered registries equal up to dict order.  A rendering of a registry the real load produced may hold
    tokens parse_reg does not know (lib.enc / lib.num markers): then only the same text is the same registry."""
    try:
        return parse_reg(a) == parse_reg(b)
    except Exception:  # noqa: BLE001
        return a == b


def reg_ops(nodes: dict) -> list[str]:
    ops = ["rnew"]
    for k, n in nodes.items():
        ops.append(f"rnode {k} {n.node_type} {enc(n.protocol_version)} {enc(n.sketch_name)} {enc(n.sketch_version)} "
                   f"{n.battery_level} {n.heartbeat} {B(n.reboot)} {B(n.sleeping)}")
        for ck, c in n.children.items():
            ops.append(f"rchild {k} {ck} {c.child_id} {c.child_type} {enc(c.description)}")
            for t, v in c.values.items():
                ops.append(f"rval {k} {ck} {t} {enc(v)}")
    return ops


def reg_has_surrogate(nodes: dict) -> bool:
    for n in nodes.values():
        if any(lib.has_surrogate(s) for s in (n.protocol_version, n.sketch_name, n.sketch_version)):
            return True
        for c in n.children.values():
            if lib.has_surrogate(c.description) or any(lib.has_surrogate(v) for v in c.values.values()):
                return True
    return False


_MISSING = "<no such attribute>"


def _jsonable(v):
    if type(v) is int and not abs(v) < 10 ** MAXD:
        return f"<int of {v.bit_length()} bits, beyond the digit limit>"
    return v if v is None or type(v) in (bool, int, float, str) else f"<{type(v).__name__}> {lib.safe_repr(v)[:200]}"


def describe(nodes: dict):
    """A replayable description of a registry (JSON-able, whatever the real objects hold)."""
    out = []
    for k, n in nodes.items():
        d = {"key": _jsonable(k)}
        for at in ("node_id", "node_type", "protocol_version", "sketch_name", "sketch_version", "battery_level", "heartbeat",
                   "sleeping", "reboot"):
            d[at] = _jsonable(getattr(n, at, _MISSING))
        try:
            d["children"] = [{"key": _jsonable(ck), "child_id": _jsonable(getattr(c, "child_id", _MISSING)),
                              "child_type": _jsonable(getattr(c, "child_type", _MISSING)),
                              "description": _jsonable(getattr(c, "description", _MISSING)),
                              "values": [[_jsonable(t), _jsonable(v)] for t, v in c.values.items()]}
                             for ck, c in n.children.items()]
        except Exception:  # noqa: BLE001
            d["children"] = _jsonable(getattr(n, "children", _MISSING))
        out.append(d)
    return out


def build(desc) -> dict:
    nodes = {}
    for d in desc:
        n = Node(d["node_id"], d["node_type"], d["protocol_version"], sketch_name=d.get("sketch_name", ""),
                 sketch_version=d.get("sketch_version", ""), battery_level=d.get("battery_level", 0),
                 heartbeat=d.get("heartbeat", 0), sleeping=d.get("sleeping", False))
        n.reboot = d.get("reboot", False)
        for c in d.get("children", []):
            ch = Child(c["child_id"], c["child_type"], description=c.get("description", ""))
            for t, v in c.get("values", []):
                ch.values[t] = v
            n.children[c["key"]] = ch
        nodes[d["key"]] = n
    return nodes


def native_value(nodes: dict) -> dict:
    """The file value of a well-typed registry in the native layout, written down by the harness (not the library)."""
    return {str(k): {"node_id": n.node_id, "node_type": n.node_type, "protocol_version": n.protocol_version,
                     "sketch_name": n.sketch_name, "sketch_version": n.sketch_version, "battery_level": n.battery_level,
                     "heartbeat": n.heartbeat, "sleeping": n.sleeping,
                     "children": {str(ck): {"child_id": c.child_id, "child_type": c.child_type, "description": c.description,
                                            "values": {str(t): v for t, v in c.values.items()}} for ck, c in n.children.items()}}
            for k, n in nodes.items()}


def digits_ok(n: int) -> bool:
    return abs(n) < 10 ** MAXD


ATTRS = ("node_id", "node_type", "protocol_version", "sketch_name", "sketch_version", "battery_level", "heartbeat", "sleeping")
ATTR_TYPES = {"node_id": int, "node_type": int, "protocol_version": str, "sketch_name": str, "sketch_version": str,
              "battery_level": int, "heartbeat": int, "sleeping": bool}


R = lib.safe_repr


def ill_typed(nodes) -> str | None:
    """None when every key and attribute of the registry has exactly the type the library declares for it (`Node` /
    `Child` signatures; what the Lean model's Registry can hold at all); otherwise the first place that has not.  A
    registry the real handlers built may hold anything (None for a version that was never learnt, a float, a bool):
    such a registry is judged by the oracle alone - the model has no value to compare it with."""
    if type(nodes) is not dict:
        return f"the registry is a {type(nodes).__name__}"
    for k, n in nodes.items():
        if type(k) is not int:
            return f"node key {R(k)} is a {type(k).__name__}"
        if not isinstance(n, Node):
            return f"entry {k} is a {type(n).__name__}"
        for at, ty in {**ATTR_TYPES, "reboot": bool}.items():
            v = getattr(n, at, _MISSING)
            if type(v) is not ty:
                return f"node {k}.{at} = {R(v)} is a {type(v).__name__}, not {ty.__name__}"
        if type(getattr(n, "children", None)) is not dict:
            return f"node {k}.children is a {type(getattr(n, 'children', None)).__name__}"
        for ck, c in n.children.items():
            if type(ck) is not int:
                return f"node {k} child key {R(ck)} is a {type(ck).__name__}"
            if not isinstance(c, Child):
                return f"node {k} child {ck} is a {type(c).__name__}"
            for at, ty in (("child_id", int), ("child_type", int), ("description", str)):
                v = getattr(c, at, _MISSING)
                if type(v) is not ty:
                    return f"node {k} child {ck}.{at} = {R(v)} is a {type(v).__name__}, not {ty.__name__}"
            if type(getattr(c, "values", None)) is not dict:
                return f"node {k} child {ck}.values is a {type(getattr(c, 'values', None)).__name__}"
            for t, v in c.values.items():
                if type(t) is not int or type(v) is not str:
                    return f"node {k} child {ck} value {R(t)}: {R(v)} ({type(t).__name__}: {type(v).__name__})"
    return None


def in_domain(nodes: dict) -> bool:
    """C13's domain restated in Python (independent of the model's regOK): what the gateway can
    build - every key and attribute of the declared type, node ids 0-255 stored under their id, battery level 0-100,
    every integer printable by json.dumps.  (A child stored under a key other than its id also round-trips: key and
    child_id are independent in the file.)"""
    if ill_typed(nodes) is not None:
        return False
    for k, n in nodes.items():
        if not (n.node_id == k and 0 <= k <= 255 and 0 <= n.battery_level <= 100):
            return False
        if not all(digits_ok(x) for x in (n.node_type, n.heartbeat, n.battery_level)):
            return False
        for ck, c in n.children.items():
            if not (digits_ok(ck) and digits_ok(c.child_type)):
                return False
            if not all(digits_ok(t) for t in c.values):
                return False
    return True


def real_ok(nodes: dict) -> bool:
    """C15's RealOK restated: C13's domain, every integer attribute printable, the three dict levels in key
    order, no reboot flag."""
    if not in_domain(nodes) or list(nodes) != sorted(nodes):
        return False
    for n in nodes.values():
        if n.reboot or list(n.children) != sorted(n.children):
            return False
        for c in n.children.values():
            if not digits_ok(c.child_id) or list(c.values) != sorted(c.values):
                return False
    return True


def _differ(u, v) -> bool:
    try:
        return bool(u != v)
    except Exception:  # noqa: BLE001  (values of the code under test whose comparison fails are not "identical")
        return True


def same_registry(a: dict, b: dict):
    """C13's own words: every node and child with identical id, type, version, sketch name and
    version, battery level, heartbeat, sleeping flag, description and values.  Returns a reason or None.
    `a` is a registry the real library built, `b` one its load produced: no assumption on what either holds."""
    ks = lib.key_sorted
    try:
        if type(a) is not dict or type(b) is not dict:
            return f"not two dicts: {type(a).__name__} vs {type(b).__name__}"
        if set(a) != set(b) or any(type(k) is not int for k in b):
            return f"node ids differ: {ks(a)} vs {ks(b)}"
        for k in a:
            x, y = a[k], b[k]
            for at in ATTRS:
                u, v = getattr(x, at, _MISSING), getattr(y, at, _MISSING)
                if _differ(u, v) or type(v) is not ATTR_TYPES[at] or type(u) is not ATTR_TYPES[at]:
                    return f"node {k}.{at}: {R(u)} vs {R(v)}"
            if set(x.children) != set(y.children):
                return f"node {k} children: {ks(x.children)} vs {ks(y.children)}"
            for ck in x.children:
                c, d = x.children[ck], y.children[ck]
                for at in ("child_id", "child_type", "description"):
                    u, v = getattr(c, at, _MISSING), getattr(d, at, _MISSING)
                    if _differ(u, v) or type(u) is not type(v):
                        return f"node {k} child {ck}.{at}: {R(u)} vs {R(v)}"
                if _differ(c.values, d.values) or any(type(t) is not int or type(v) is not str for t, v in d.values.items()):
                    return f"node {k} child {ck} values: {R(c.values)} vs {R(d.values)}"
    except Exception as e:  # noqa: BLE001  (an entry that is not a Node / Child, children that are not a dict ...)
        return f"the two registries cannot be compared attribute by attribute ({type(e).__name__}: {e})"
    return None


# ---- running the implementation -----------------------------------------------------------------

CAUSES = [(ValidationError, "ValidationError"), (RecursionError, "RecursionError"), (UnicodeDecodeError, "UnicodeDecodeError"),
          (json.JSONDecodeError, "JSONDecodeError"), (FileNotFoundError, "FileNotFoundError"), (OSError, "OSError"),
          (ValueError, "ValueError"), (TypeError, "TypeError"), (AttributeError, "AttributeError")]


def cause_name(e: BaseException) -> str:
    c = e.__cause__
    for cls, name in CAUSES:
        if isinstance(c, cls):
            return name
    return type(c).__name__


def outcome_of(e: BaseException) -> str:
    if isinstance(e, exc.PersistenceReadError):
        return "err persistenceRead " + cause_name(e)
    if isinstance(e, exc.PersistenceWriteError):
        return "err persistenceWrite"
    if isinstance(e, exc.AIOMySensorsError):
        return "err other:" + type(e).__name__
    return "foreign " + type(e).__name__


async def impl_load(path: str, cur: dict | None = None):
    nodes = {} if cur is None else cur
    p = Persistence(nodes, path)
    try:
        await p.load()
    except BaseException as e:  # noqa: BLE001
        return outcome_of(e), nodes
    return "ok " + render_nodes(nodes), nodes


async def impl_save(path: str, nodes: dict) -> str:
    p = Persistence(nodes, path)
    try:
        await p.save()
    except BaseException as e:  # noqa: BLE001
        return outcome_of(e)
    return "ok"


_counter = [0]


def fresh_path(ext: str = ".json") -> str:
    _counter[0] += 1
    return os.path.join(lib.scratch(), f"persist-{_counter[0]}{ext}")


def _fields(line: str):
    f = line.split(";")
    return f if len(f) >= 6 else None


async def run_history(h: gw.Hist, points=None, trace: list | None = None):
    """The registry the real gateway holds after the history (same stepping as gw._run_impl).
    `points`: None, or a collection of step numbers / the string "all": returns (final registry, [(step, copy of the
    registry after that step, facts)]) for every asked step after which the rendered registry differs from the last
    one returned - the registries a save at that point of the history would write - and the facts at the end.  facts
    (how the registry came about, for the run's coverage counts only): was an id handed out while the gateway's version
    was not known / known; does the registry hold a node that was handed an id and has not presented itself; the kind
    (command/type) of the message of that step.  `trace`: filled with one line per step."""
    g, tr = gw.build_gateway(h)
    snaps: list = []
    last = render_nodes(g.nodes)
    handed: set = set()
    facts = {"id handed out while the gateway's version was not known": False, "id handed out while the version was known": False}

    def facts_now(kind):
        return {**facts, "holds a node that was handed an id and never presented itself": any(i in g.nodes for i in handed), "kind": kind}

    kind = None
    for i, op in enumerate(h.ops, 1):
        tr.attempts = []
        kind = None
        if op[0] == "recv":
            _, line, faults, now = op
            tr.lines = [line]
            tr.faults = list(faults)
            gw.TIME_STUB.now = tuple(now)
            unknown = g.protocol_version is None
            try:
                out = gw.render_msg(await anext(g.listen()))
            except BaseException as e:  # noqa: BLE001  (rejected lines are part of a history)
                out = gw.render_exc(e)
            f = _fields(line)
            if f is not None:
                kind = f"{f[2].strip()}/{f[4].strip()}" if f[2].strip() in ("3", "4") else f[2].strip() + ("/node" if f[1].strip() == "255" else "/child")
                for w, ok in tr.attempts:
                    wf = _fields(w.rstrip("\n"))
                    if ok and wf is not None and wf[2:5] == ["3", "0", "4"] and wf[5].isdigit():
                        handed.add(int(wf[5]))
                        facts["id handed out while the gateway's version was not known" if unknown else "id handed out while the version was known"] = True
                if out.startswith("ok") and f[2].strip() == "0" and f[1].strip() == "255" and f[0].strip().isdigit():
                    handed.discard(int(f[0]))
        elif op[0] == "session":
            out = "(leaving and entering the context: not part of this run)"
        else:
            _, fields, buffer, faults = op
            tr.faults = list(faults)
            obj = Message(*fields) if fields is not None else "not a message"
            try:
                await g.send(obj, message_buffer=buffer)
                out = "ok"
            except BaseException as e:  # noqa: BLE001
                out = gw.render_exc(e)
        if trace is not None:
            pv = "not known" if g.protocol_version is None else repr(g.protocol_version)
            trace.append(f"step {i}: {op[0]} {op[1]!r} -> {out[:100]}   [gateway version {pv}; writes "
                         f"{[w for w, _ in tr.attempts]}; registry {render_nodes(g.nodes)[:400]}]")
        if points is not None and (points == "all" or i in points):
            now_reg = render_nodes(g.nodes)
            if now_reg != last:
                last = now_reg
                snaps.append((i, copy.deepcopy(g.nodes), facts_now(kind)))
    return g.nodes if points is None else (g.nodes, snaps, facts_now(kind))


# ---- legacy layout, restated in Python ----------------------------------------------------------


def legacy_of(v):
    """A native file value in the pymysensors spelling."""
    if not isinstance(v, dict):
        return v
    out = {}
    for key, node in v.items():
        if not isinstance(node, dict):
            out[key] = node
            continue
        ln = {}
        for k, x in node.items():
            if k == "node_id":
                ln["sensor_id"] = x
            elif k == "node_type":
                ln["type"] = x
            elif k in ("sketch_name", "sketch_version") and x == "" and isinstance(x, str):
                ln[k] = None
            elif k == "children" and isinstance(x, dict):
                ln[k] = {ck: ({{"child_id": "id", "child_type": "type"}.get(f, f): y for f, y in c.items()} if isinstance(c, dict) else c)
                         for ck, c in x.items()}
            else:
                ln[k] = x
        out[key] = ln
    return out


# ---- generators ---------------------------------------------------------------------------------

T0 = list(gw.DEFAULT_TIME)
STRINGS = ["", "2.0", "Sk", "température °C", "\U0001f321 ok", "a\"b\\c", "line\nbreak\ttab\x00nul", "  ", " lead", "x" * 300,
           "١٢", "id", "type", "sensor_id", "null", "é"]
BIG = 10 ** 20

# Strings that look like the FILE FORMAT: a stored string (a value, a description, a sketch name / version, a protocol
# version) is just text to save and load, whatever JSON syntax, comment syntax, literal or escape it spells.  A save that
# escapes less than it must, or a load that treats the file's text before / besides the JSON parser (tolerance for
# hand-edited files, comment stripping, a BOM, normalising blanks or line ends), changes such a string and nothing else.
JSON_FRAGMENTS = [",}", ",]", ", }", ",\t]", ",\n}", ",\r\n  ]", ",", "{", "}", "[", "]", "{}", "[]", "[,]", ":", "\": \"", "\"", "\"\"",
                  "'", "\\", "\\\\", "\\\"", "\\u0041", "\\ud83c", "\\n", "\\x41", "\\/", "/", "//", "/*", "*/", "#", "<!--", "null",
                  "true", "false", "None", "NaN", "-Infinity", "1e5", "-0", "0x1F", "01", "\n", "\r\n", "\r", "\t", "\x08\x0c",
                  "\x7f", "\x1f", "\ufeff", "\u2028", "\u00a0", "&quot;", "%7D", "\"},\n  \"2\": {"]
ORDINARY = ["Hall display", "21.5", "Grön", "v", "on", "off:0", "10", "a b", "é"]


JSONISH_PAYLOADS = ["{\"a\": [1, 2, ], \"b\": null,\t} // \\u0041 \\", "/* \"x\" */ [,] # {k: 'v' , }\ufeff"]


def jsonish_text(rng) -> str:
    """A text assembled from fragments of JSON / comment / escape syntax and ordinary words: things like `[1,2,]`,
    `{k:1, }`, `"a": null, // x`, with and without blanks between the pieces."""
    n = rng.randint(2, 7)
    parts = [rng.choice(JSON_FRAGMENTS) if rng.random() < 0.65 else rng.choice(ORDINARY) for _ in range(n)]
    return rng.choice(["", "", " ", "  "]).join(parts)


def jsonish_strings(rng, n_random: int):
    """(kind, string): every fragment alone; embedded in ordinary text; with leading / trailing blanks; doubled (the
    second occurrence starts where the first ended); very long; whole documents in the file's own layout (what save
    itself writes, a record with a comma before the closing brace, a commented file) as ONE string; then random
    assemblies."""
    out = []
    for f in JSON_FRAGMENTS:
        out.append(("alone", f))
    for i, f in enumerate(JSON_FRAGMENTS):
        w1, w2 = ORDINARY[i % len(ORDINARY)], ORDINARY[(i + 3) % len(ORDINARY)]
        out.append(("embedded", [f"{w1} {f} {w2}", f"{w1}{f}{w2}", f"{w1}{f}", f"{f}{w2}"][i % 4]))
    for i, f in enumerate(JSON_FRAGMENTS[::4]):
        out.append(("outer blanks", [" " + f, f + "  ", "\t" + f + "\n", " " + f + " "][i % 4]))
        out.append(("doubled", f + f))
    for f in JSON_FRAGMENTS[::9]:
        out.append(("very long", f * 150))
        out.append(("very long", "x" * 1000 + f + "y" * 1000))
    own = json.dumps({"1": {"children": {}, "node_id": 1, "sketch_name": "a\"b", "sleeping": False}}, sort_keys=True, indent=2)
    out += [("document", own), ("document", own.replace("\n}", ",\n}").replace("{}", "{ , }")),
            ("document", "[1, 2,\t3 ,\n]"), ("document", "{k:1,l:[2,],}"), ("document", "{\"a\": [1, 2, ], \"b\": null, } // c"),
            ("document", "/* {\"1\": 2} */ # x\n{\"k\": \"v\\u0041\\\\\",\n}\n"), ("document", "\ufeff{}"), ("document", "[[[[[[[[[[,]]]]]]]]]]"),
            ("document", "".join(JSON_FRAGMENTS)), ("document", " ".join(reversed(JSON_FRAGMENTS)))]
    for _ in range(n_random):
        out.append(("assembled", jsonish_text(rng)))
    return out


def jsonish_registry(ss: list[str]) -> dict:
    """A registry holding the strings `ss` (cyclically) in its string positions: protocol version, sketch name, sketch
    version, description, value, description, value, value - one string given: every position holds it."""
    it = iter(ss * 8)
    n = Node(1, 17, next(it), sketch_name=next(it), sketch_version=next(it), battery_level=87)
    n.children[1] = Child(1, 36, description=next(it), values={47: next(it)})
    n.children[2] = Child(2, 6, description=next(it), values={0: next(it), 24: next(it)})
    return {0: Node(0, 18, "2.0"), 1: n}


def jsonish_wire_history(version: str, ss: list[str]) -> list[str]:
    """The strings `ss` (cyclically) arriving over the wire in every message that stores its payload as text: node
    presentation (protocol version), sketch name, sketch version, child presentation (description), set (value types
    read from the tables generated from the code)."""
    named = gw.T["named"]
    setreq = sorted(int(x) for x in gw.T["versions"][version]["setreq"])
    p, s_, i = named["cmdPresentation"], named["cmdSet"], named["cmdInternal"]
    it = iter(ss * 8)
    return [f"0;255;{p};0;18;{version}.0", f"1;255;{p};0;17;{next(it)}", f"1;255;{i};0;11;{next(it)}", f"1;255;{i};0;12;{next(it)}",
            f"1;1;{p};0;36;{next(it)}", f"1;1;{s_};0;{setreq[-1]};{next(it)}", f"1;2;{p};0;6;{next(it)}",
            f"1;2;{s_};0;{setreq[0]};{next(it)}", f"1;2;{s_};0;{setreq[len(setreq) // 2]};{next(it)}"]


def jsonish_groups(js: list, rng, alone_all: bool):
    """(label, strings of one registry / history): the whole list packed eight to a registry, starting at a random offset
    (over the seeds every string comes to stand in every kind of position); each document and each random assembly - and
    each single fragment when `alone_all`, else a rotating third of them - in every string position at once."""
    off = rng.randint(0, 7)
    strings = [""] * off + [s for _, s in js]
    out = [("eight strings", strings[i:i + 8]) for i in range(0, len(strings), 8)]
    r = rng.randint(0, 2)
    for i, (kind, s) in enumerate(js):
        if kind in ("document", "assembled") or (kind == "alone" and (alone_all or i % 3 == r)):
            out.append((kind + ", in every string position", [s]))
    return out


def direct_registries(rng, tier: str):
    """Directly constructed registries inside C13's domain, boundary content first."""
    regs = []
    regs.append(("empty", {}))
    n = Node(0, 18, "2.2.0")
    regs.append(("gateway-only", {0: n}))
    n = Node(255, -6, "", sketch_name="température °C", sketch_version="\U0001f321", battery_level=100, heartbeat=-5, sleeping=True)
    n.children[255] = Child(255, -6, description="描述 é", values={BIG: "é", -5: "", 0: "x" * 300})
    n.children[0] = Child(0, BIG, description="")
    regs.append(("boundary", {255: n, 0: Node(0, BIG, "2.0β", heartbeat=BIG)}))
    n = Node(7, int("9" * MAXD), "x", heartbeat=-int("9" * MAXD))
    n.children[BIG] = Child(BIG, -int("9" * MAXD), description="a\"b\\c", values={int("9" * MAXD): "v", -int("9" * MAXD): "w"})
    regs.append(("digit-limit", {7: n}))
    n = Node(1, 17, "2.0", sketch_name="line\nbreak\ttab\x00nul", sketch_version="  ")
    n.children[2] = Child(2, 6, description="null", values={1: "true", 2: "null", 3: "{}"})
    regs.append(("awkward-strings", {1: n}))
    # strings that are not well-formed Unicode: a lone surrogate (what a transport decoding with surrogateescape, or a
    # text cut inside an astral character, hands over).  Python's str holds them; the Lean model's strings do not
    # (judged by the oracle only, counted as "unmodelled: lone surrogate")
    n = Node(1, 17, "2.0", sketch_name="Caf\udce9 sensor", sketch_version="\ud83c")
    n.children[2] = Child(2, 6, description="half \ude00 pair", values={1: "\udc80\udcff", 2: "ok"})
    regs.append(("lone-surrogates", {1: n}))
    # insertion order different from sorted order, at all three levels
    a, b2 = Node(9, 17, "2.0"), Node(2, 17, "1.4", battery_level=1)
    a.children[5] = Child(5, 1, values={30: "a", 4: "b", 100: "c"})
    a.children[1] = Child(1, 2)
    regs.append(("unsorted", {9: a, 2: b2, 10: Node(10, 17, "2.2"), 100: Node(100, 17, "2.1")}))
    n = Node(1, 17, "2.0")
    n.children[3] = Child(4, 6, values={1: "v"})
    regs.append(("child key != child id", {1: n}))
    # the largest registries there can be: every node id 0-255 / all but one / the assignable ids 1-254 plus the gateway
    regs.append(("full 0-255", {i: Node(i, 17, "2.0") for i in range(256)}))
    regs.append(("ids 0-254", {i: Node(i, 17, "2.0") for i in range(255)}))
    regs.append(("ids 1-254", {i: Node(i, 17, "2.0") for i in range(1, 255)}))
    # strings that look like the file format (JSON / comment / escape syntax): see jsonish_groups
    js = jsonish_strings(rng, 20 if tier == "quick" else 600)
    for label, ss in jsonish_groups(js, rng, alone_all=True):
        regs.append((f"json-like strings ({label})", jsonish_registry(ss)))
    k = 300 if tier == "quick" else 1500
    ints = [0, 1, -1, 17, 18, 255, 256, -6, BIG, -BIG, 2 ** 63, 2 ** 64 + 1]
    pool = STRINGS + [s for _, s in js if len(s) < 100]
    for _ in range(k):
        reg = {}
        for nid in rng.sample([0, 1, 2, 7, 100, 253, 254, 255, rng.randint(0, 255)], rng.randint(1, 4)):
            if nid in reg:
                continue
            n = Node(nid, rng.choice(ints), rng.choice(pool), sketch_name=rng.choice(pool), sketch_version=rng.choice(pool),
                     battery_level=rng.choice([0, 1, 50, 99, 100]), heartbeat=rng.choice(ints), sleeping=rng.random() < 0.5)
            for cid in rng.sample([0, 1, 2, 254, 255, BIG, -1, rng.randint(0, 255)], rng.randint(0, 3)):
                if cid in n.children:
                    continue
                c = Child(cid, rng.choice(ints), description=rng.choice(pool))
                for t in rng.sample(ints, rng.randint(0, 3)):
                    c.values[t] = rng.choice(pool)
                n.children[cid] = c
            reg[nid] = n
        regs.append(("random", reg))
    return regs


def outside_registries():
    """Directly constructed registries OUTSIDE the domain (correspondence only, no oracle)."""
    regs = []
    for bat in (150, -3, 101, -1):
        regs.append((f"battery {bat}", {1: Node(1, 17, "2.0", battery_level=bat)}))
    regs.append(("node id 256", {256: Node(256, 17, "2.0")}))
    regs.append(("node id -1", {-1: Node(-1, 17, "2.0")}))
    regs.append(("one bad node after a good one", {1: Node(1, 17, "2.0"), 2: Node(2, 17, "2.0", battery_level=150)}))
    n = Node(3, 17, "2.0")
    n.reboot = True
    regs.append(("reboot flag set", {3: n}))
    return regs


WIRE_BOUNDARY = [
    # (version, lines): boundary payloads named by the property
    ("2.0", ["1;255;0;0;17;2.0", "1;255;3;0;0;150"]),
    ("2.0", ["1;255;0;0;17;2.0", "1;255;3;0;0;-3"]),
    ("1.4", ["1;255;0;0;17;1.4", "1;255;3;0;0;100.4", "1;255;3;0;0;100.5"]),
    ("2.2", ["1;255;0;0;-6;", "1;0;0;0;-7;", "1;0;1;0;" + str(BIG) + ";é", "1;0;1;0;-9;"]),
    ("2.2", ["255;255;0;0;" + "9" * MAXD + ";température", "255;255;3;0;11;\U0001f321 sketch", "255;255;3;0;12;"]),
    ("2.0", ["2;255;0;0;17;2.0", "2;255;3;0;22;-" + "9" * MAXD, "2;255;3;0;22;12", "2;255;3;0;0;57.5"]),
    ("2.2", ["3;255;0;0;17;2.2", "3;255;3;0;32;500", "3;7;0;0;6;desc;with;delims", "3;7;1;0;2;a;b", "3;255;3;0;0;1e2"]),
    ("1.4", ["255;255;3;0;3;", "255;255;3;0;3;", "1;255;3;0;0;0.5", "2;255;3;0;0;99.5"]),
]


def handler_sweep(version: str, node: int, child: int, with_id_request: bool = True) -> list[str]:
    """One received line for every handler the protocol of `version` has, addressed to `node`: read from the tables
    generated from the code on this run (every command; every internal type that has a handler, every stream type), so
    a handler added to the code is swept too.  Payloads: a number every numeric handler accepts, then a text."""
    t = gw.T["versions"][version]
    chain = gw.T["chains"][version]
    named = gw.T["named"]
    setreq = sorted(int(x) for x in t["setreq"])
    lines = [f"{node};{child};{named['cmdPresentation']};0;6;outdoor é",
             f"{node};{child};{named['cmdSet']};0;{setreq[0]};20.5", f"{node};{child};{named['cmdSet']};0;{setreq[-1]};on;off",
             f"{node};{child};{named['cmdSet']};1;{setreq[0]};21", f"{node};{child};{named['cmdReq']};0;{setreq[0]};"]
    for ty in sorted(int(x) for x in t["internal"]):
        if chain["internal"].get(str(ty)) is None:
            continue                                   # no handler: the message is passed on as it is
        if ty == named["iVersion"]:
            payloads = [version]                       # (anything else would change the protocol in use mid-sweep)
        elif ty in t.get("nodeIdRequestTypes", [3]) and not with_id_request:
            continue
        else:
            payloads = ["57", "Sketch é 1.0"]
        for pl in payloads:
            lines.append(f"{node};255;{named['cmdInternal']};0;{ty};{pl}")
    for ty in sorted(int(x) for x in t["stream"]):
        lines.append(f"{node};255;{named['cmdStream']};0;{ty};0102")
    return lines


def systematic_wire_histories():
    """For every protocol version, with the gateway's version known from the start and not known: an id request as the
    very first message (the placeholder node is created before the version query was answered), every handler on that
    node, which never presents itself; then the version becomes known and the gateway presents itself; another id
    request; a node that presents itself, every handler on it; every handler on the gateway's own node and on a node
    that is not registered; at last the first placeholder presents itself.  C13 quantifies over every registry
    reachable from received messages: run_c13 saves after EVERY step of these histories that changed the registry."""
    hs = []
    named = gw.T["named"]
    idreq = f"255;255;{named['cmdInternal']};0;3;"
    for version in lib.VERSIONS:
        for known in (False, True):
            lines = [idreq] + handler_sweep(version, 1, 1)
            lines += [f"0;255;{named['cmdInternal']};0;{named['iVersion']};{version}", f"0;255;{named['cmdPresentation']};0;18;{version}.0", idreq]
            lines += [f"7;255;{named['cmdPresentation']};0;17;{version}"] + handler_sweep(version, 7, 2)
            lines += handler_sweep(version, 0, 3, with_id_request=False)
            lines += handler_sweep(version, 9, 4, with_id_request=False)
            lines += [f"1;255;{named['cmdPresentation']};0;17;{version}", f"1;5;{named['cmdPresentation']};0;3;relay"]
            hs.append((f"wire-systematic: protocol {version}, version {'known' if known else 'not known'} at start",
                       gw.Hist(version if known else None, True, [], [("recv", ln, (), T0) for ln in lines])))
    return hs


def wire_histories(rng, tier: str, pts):
    """(label, history, save points): "all" = after every step that changed the registry; a set of steps; the end of the
    history is always a save point."""
    hs = []
    for version, lines in WIRE_BOUNDARY:
        hs.append(("wire-boundary", gw.Hist(version, True, [], [("recv", ln, (), T0) for ln in lines]), "all"))
    for label, h in systematic_wire_histories():
        hs.append((label, h, "all"))
    # strings that look like the file format, received as payloads of every message whose payload is stored as text
    # (no line break inside: a line break ends a line); saved at the end of the history
    js = [(kind, s) for kind, s in jsonish_strings(rng, 10 if tier == "quick" else 300) if "\n" not in s and "\r" not in s]
    for i, (label, ss) in enumerate(jsonish_groups(js, rng, alone_all=tier != "quick")):
        version = lib.VERSIONS[i % len(lib.VERSIONS)]
        hs.append((f"wire-json-like: {label}", gw.Hist(version if i % 4 else None, True, [],
                                                      [("recv", ln, (), T0) for ln in jsonish_wire_history(version, ss)]), ()))
    for h in lib.EXTRA_HISTORIES:          # histories on which the code as translated leaves the model (check.tie_search)
        hs.append(("wire-tie-search", h, "all"))
    k = 400 if tier == "quick" else 2500
    for i in range(k):
        version = lib.VERSIONS[i % 5]
        h = gw.gen_history(rng, version, rng.randint(5, 40 if tier == "quick" else 120), preload_p=0.0)
        hs.append(("wire-random", h, {pts.randint(1, len(h.ops)) for _ in range(1 if tier == "quick" else 2)}))
    return hs


MUT_VALUES = [None, True, False, 0, 1, -1, 7, 100, 101, 255, 256, BIG, 1.0, 0.0, -0.0, 1.5, 100.9, -0.9, 255.5, 1e300, math.nan,
              math.inf, -math.inf, "", "1", "0", " 3 ", "1_7", "+5", "٣", "x", "yes", "No", "TRUE", "tRUE", "id", "idx", "type",
              "xtypex", "sensor_id", "sketch_name", "sketch_version", "9" * (MAXD + 1), "9" * MAXD,
              # strings that mean something to a version parser (a stored library version is just a string to load)
              "20.1.2.\n.", "2024.1.2.\n.", "2.2.0-beta", "latest", "v2.1", "0x10", "2.x", "1e999", "2..2",
              [], [1], ["id"], ["type"], ["x", "type"], ["sensor_id"], ["sketch_name"], ["sketch_version"], [[]],
              {}, {"a": 1}, {"1": 5}, {"1": None}, {"x": {}}, {"1": "s"}, {"1": {}}, {" 1 ": "a", "1": "b"}]


def paths_of(v, path=()):
    """Every position in a JSON value: the value itself and, recursively, every member."""
    yield path
    if isinstance(v, dict):
        for k, x in v.items():
            yield from paths_of(x, path + (k,))
    elif isinstance(v, list):
        for i, x in enumerate(v):
            yield from paths_of(x, path + (i,))


def get_at(v, path):
    for p in path:
        v = v[p]
    return v


def replace_at(v, path, new):
    if not path:
        return copy.deepcopy(new)
    v = copy.deepcopy(v)
    cur = v
    for p in path[:-1]:
        cur = cur[p]
    cur[path[-1]] = copy.deepcopy(new)
    return v


def delete_at(v, path):
    v = copy.deepcopy(v)
    cur = v
    for p in path[:-1]:
        cur = cur[p]
    del cur[path[-1]]
    return v


def rename_at(v, path, newkey):
    """Rename the key of the member at `path`, keeping its position."""
    v = copy.deepcopy(v)
    cur = v
    for p in path[:-1]:
        cur = cur[p]
    items = [(newkey if k == path[-1] else k, x) for k, x in cur.items()]
    cur.clear()
    cur.update(items)
    return v


RENAMES = ["sensor_id", "type", "id", "node_id", "child_id", "node_type", "child_type", "sketch_name", " 3 ", "x", "", "1", "007", "-0", "1.0"]


def mutations(base, values=None):
    """Single-position mutations of a valid file value: type/shape at every level, missing, extra, renamed."""
    for path in paths_of(base):
        for m in (MUT_VALUES if values is None else values):
            yield ("replace", path, replace_at(base, path, m))
        if path:
            yield ("missing", path, delete_at(base, path))
            if isinstance(path[-1], str):
                for nk in RENAMES:
                    if nk not in get_at(base, path[:-1]):
                        yield ("rename", path, rename_at(base, path, nk))
        if isinstance(get_at(base, path), dict):
            for extra_k, extra_v in (("extra", 1), ("sensor_id", 9), ("type", None), ("type", 3), ("id", 4), ("sketch_name", None),
                                     ("sketch_version", None), ("sleeping", "yes"), ("7", {"node_id": 7, "node_type": 1, "protocol_version": "p"})):
                if extra_k not in get_at(base, path):
                    w = copy.deepcopy(base)
                    get_at(w, path)[extra_k] = copy.deepcopy(extra_v)
                    yield ("extra", path, w)


def random_json(rng, depth: int):
    r = rng.random()
    if depth <= 0 or r < 0.35:
        return copy.deepcopy(rng.choice(MUT_VALUES))
    if r < 0.5:
        return [random_json(rng, depth - 1) for _ in range(rng.randint(0, 3))]
    if r < 0.7:
        return {rng.choice(["1", "2", " 3 ", "x", "id", "type", "", "values", "children"]): random_json(rng, depth - 1)
                for _ in range(rng.randint(0, 3))}
    if r < 0.85:   # node-shaped
        names = ["node_id", "node_type", "protocol_version", "children", "sketch_name", "sketch_version", "battery_level",
                 "heartbeat", "sleeping", "sensor_id", "type", "extra"]
        d = {"node_id": rng.randint(0, 260), "node_type": 17, "protocol_version": "2.0"}
        for nm in rng.sample(names, rng.randint(0, 5)):
            d[nm] = random_json(rng, depth - 1)
        for nm in rng.sample(names[:3], rng.randint(0, 1)):
            d.pop(nm, None)
        return d
    d = {"child_id": rng.randint(0, 260), "child_type": 6}   # child-shaped
    for nm in rng.sample(["child_id", "child_type", "description", "values", "id", "type", "extra"], rng.randint(0, 4)):
        d[nm] = random_json(rng, depth - 1)
    return d


def random_file_value(rng):
    r = rng.random()
    if r < 0.15:
        return random_json(rng, 4)
    return {str(i): random_json(rng, 4) if rng.random() < 0.5 else
            {"node_id": i, "node_type": 17, "protocol_version": "2.0", "children": {str(j): random_json(rng, 3) for j in range(rng.randint(0, 2))}}
            for i in range(rng.randint(0, 3))}


# ---- the live Boolean sets must equal the model's table ----------------------------------------

MODEL_TRUTHY = ["t", "T", "true", "True", "TRUE", "on", "On", "ON", "y", "Y", "yes", "Yes", "YES", "1"]
MODEL_FALSY = ["f", "F", "false", "False", "FALSE", "off", "Off", "OFF", "n", "N", "no", "No", "NO", "0"]


def check_boolean_tables(corr: Corr) -> None:
    truthy, falsy = set(mm_fields.Boolean.truthy), set(mm_fields.Boolean.falsy)
    src = open(os.path.join(lib.LEAN, "AioMySensors", "Model", "Schema.lean"), encoding="utf-8").read()
    import re

    def table(name):
        m = re.search(r"def " + name + r" : List String :=\s*\[(.*?)\]", src, flags=re.S)
        return re.findall(r'"([^"]*)"', m.group(1)) if m else None

    mt, mf = table("truthyStrings"), table("falsyStrings")
    if mt != MODEL_TRUTHY or mf != MODEL_FALSY:
        corr.disagree("Schema.lean's truthy/falsy tables differ from the harness copy", {"model": [mt, mf]})
    live_t = {x for x in truthy if isinstance(x, str)}
    live_f = {x for x in falsy if isinstance(x, str)}
    rest_t = sorted(repr(x) for x in truthy if not isinstance(x, str))
    rest_f = sorted(repr(x) for x in falsy if not isinstance(x, str))
    if live_t != set(MODEL_TRUTHY) or live_f != set(MODEL_FALSY) or rest_t != ["1"] or rest_f != ["0"]:
        corr.disagree("marshmallow's Boolean.truthy/falsy differ from the model's table",
                      {"truthy": sorted(map(repr, truthy)), "falsy": sorted(map(repr, falsy))})
    corr.count("boolean tables checked against marshmallow")


# ---- model batching ------------------------------------------------------------------------------


class Batch:
    """Collects driver operations; `ask` returns a handle resolved after `run`."""

    def __init__(self) -> None:
        self.lines: list[str] = []
        self.out: list[str] = []

    def ask(self, line: str) -> int:
        self.lines.append(line)
        return len(self.lines) - 1

    def run(self) -> None:
        self.out = lib.run_model(self.lines, driver=DRIVER) if self.lines else []

    def __getitem__(self, i: int) -> str:
        return self.out[i]



# ---- the JSON text layer: json.dumps / json.loads vs JsonText.render / JsonText.parse ------------


def hexb(b: bytes) -> str:
    return b.hex() if b else "-"


def py_loads(text: str):
    """json.loads as load() sees it: (class, value)."""
    try:
        return "ok", json.loads(text)
    except json.JSONDecodeError:
        return "invalid", None
    except RecursionError:
        return "tooDeep", None
    except ValueError:
        return "hugeInt", None


def same_parsed(a, b) -> bool:
    """Parsed values equal: type-exact, dict ORDER included (the parser fixes it); NaN = NaN; the sign of an
    infinity is not kept by the model."""
    if type(a) is not type(b):
        return False
    if isinstance(a, dict):
        return list(a) == list(b) and all(same_parsed(a[k], b[k]) for k in a)
    if isinstance(a, list):
        return len(a) == len(b) and all(same_parsed(x, y) for x, y in zip(a, b))
    if isinstance(a, float):
        return (math.isnan(a) and math.isnan(b)) or (math.isinf(a) and math.isinf(b))
    return a == b


def has_real_literal(v) -> bool:
    """A float that is not NaN / an infinity, or an infinity (which a huge real literal also gives)."""
    stack = [v]
    while stack:
        x = stack.pop()
        if isinstance(x, float) and not math.isnan(x):
            return True
        if isinstance(x, list):
            stack.extend(x)
        elif isinstance(x, dict):
            stack.extend(x.values())
    return False


def model_parsed(line: str):
    if line.startswith("ok "):
        return "ok", parse_model_json(line[3:])
    return line, None


class TextChecks:
    """Collects `jparse` questions; after the batch ran, compares every answer with the real json.loads."""

    def __init__(self, corr: Corr, batch: "Batch") -> None:
        self.corr, self.batch, self.asked = corr, batch, []

    def parse_bytes(self, label: str, data: bytes) -> None:
        self.asked.append((label, data, self.batch.ask("jparse " + hexb(data))))

    def parse_text(self, label: str, text: str) -> None:
        if lib.has_surrogate(text):
            self.corr.count("text unmodelled: raw lone surrogate")
            return
        self.parse_bytes(label, text.encode("utf-8"))

    def compare(self) -> None:
        corr = self.corr
        for label, data, h in self.asked:
            corr.count("text:" + label)
            shown = data[:300].decode("utf-8", "replace")
            try:
                text = data.decode("utf-8")
            except UnicodeDecodeError:
                text = None
            mcls, mval = model_parsed(self.batch[h])
            if text is None:
                if mcls != "undecodable":
                    corr.disagree("UTF-8 decoding", {"label": label, "bytes": data[:80].hex(), "impl": "UnicodeDecodeError", "model": mcls})
                continue
            pcls, pval = py_loads(text)
            corr.count("text outcome:" + pcls)
            if mcls == "unsupported":
                corr.count("text skipped: model says unsupported")
                if pcls == "ok" and not (has_real_literal(pval) or json_has_surrogate(pval)):
                    corr.disagree("json.loads: the model calls a text unsupported that holds no real and no lone surrogate",
                                  {"label": label, "text": shown})
                continue
            if pcls == "tooDeep":
                corr.count("text skipped: recursion limit")
                continue
            if mcls != pcls or (pcls == "ok" and not same_parsed(mval, pval)):
                corr.disagree("json.loads", {"label": label, "text": shown, "impl": pcls + ("" if pval is None else " " + json.dumps(pval)[:300]),
                                             "model": self.batch[h][:300]})


EDGE_TEXTS = [
    # whitespace
    "{}", " {} ", "\t\n\r {\n}\r\n", "[]", "[ ]", "{ }", " [ 1 , 2 ] ", '{ "a" : 1 , "b" : [ ] }', "\f{}", "\v{}", " {}", "{} ",
    "{}\x00", "﻿{}", "", " ", "\n",
    # literals
    "null", "true", "false", "nul", "nulll", "True", "NULL", "tru", "truefalse", "[null,true,false]", "[nul]", "[truee]",
    "NaN", "Infinity", "-Infinity", "-Inf", "Infinit", "[NaN, Infinity, -Infinity]", "nan", "infinity", "+Infinity", "-NaN", "Infinityy",
    # numbers
    "0", "-0", "1", "-1", "10", "01", "-01", "00", "1 2", "+1", "-", "--1", "- 1", "1-", "0x10", "1_0", "١٢", "[0]", "[-0]", "[01]", "[1 ]",
    "[ -7,0,10 ]", "1.5", "1.", ".5", "-.5", "1e5", "1E5", "1e+5", "1e-5", "1e", "1e+", "1.e5", "1.5e", "0.0", "-0.0", "0e0", "[1.0]", "[1.]", "[1e]",
    "[1.5x]", "1.5.5", "9" * 100, "-" + "9" * 100, "9" * MAXD, "9" * (MAXD + 1), "-" + "9" * (MAXD + 1), "[" + "9" * (MAXD + 1) + "]",
    "[" + "9" * (MAXD + 1), "[" + "9" * (MAXD + 1) + ",", "9" * (MAXD + 1) + ".5", "9" * (MAXD + 1) + "e1", "9" * (MAXD + 1) + "x", "1" + "0" * MAXD,
    "[1,2", "12", "123 ", " 123", "1\n", "0 0",
    # strings
    '""', '"a"', '"é"', '"\U0001f600"', '"\\""', '"\\\\"', '"\\/"', '"/"', '"\\b\\f\\n\\r\\t"', '"\\u00e9"', '"\\u00E9"', '"\\u00Ab"', '"\\ud83d\\ude00"',
    '"\\uD83D\\uDE00"', '"\\ud83d"', '"\\ude00"', '"\\ud83d\\u0041"', '"\\ud83dx"', '"\\ud83d\\n"', '"\\ud83d\\ud83d\\ude00"', '"\\ude00\\ud83d"',
    '"\\ud83d\\uzzzz"', '"\\ud83d\\u12"', '"\\ud83d\\', '"\\ud83d\\u', '"\\ud83d', '"\\u12"', '"\\u123"', '"\\u12345"', '"\\uzzzz"', '"\\u+123"', '"\\u 123"',
    '"\\x41"', '"\\a"', '"\\\'"', '"\\', '"\\"', '"abc', '"', "'a'", '"a"b', '"a" "b"', '"\ttab"', '"line\nbreak"', '"nul\x00"', '"\x1f"', '"\x7f"', '"\x20"',
    '" "', '"\\u0000"', '"\\u001f"', '"\\ufeff"', '"\\uffff"', '"\\ud7ff"', '"\\ue000"', '"\\udbff\\udfff"', '"\\udbff\\udbff"', '"\\udc00\\udc00"',
    # arrays
    "[1,]", "[,1]", "[,]", "[1,,2]", "[1 2]", "[1;2]", "[", "]", "[]]", "[[]", "[[],[]]", "[[[[[[]]]]]]", "[1,[2,[3,[4]]]]", '["a",]', "[1]x", "[1] []",
    # objects
    '{"a":1}', '{"a":1,}', '{,"a":1}', '{"a" 1}', '{"a":}', '{"a"}', '{a:1}', "{'a':1}", '{1:1}', '{"a":1 "b":2}', '{"a":1,,"b":2}', '{"a":1;"b":2}',
    '{"a":1,"b":2,"a":3}', '{"a":1,"a":2}', '{"a":{"b":1,"b":2},"a":3}', '{"":0}', '{"":0,"":1}', '{"a":1,"b":2,"c":3,"b":4,"a":5}', '{"\\u0061":1,"a":2}',
    '{"a":[{"b":[{"c":null}]}]}', "{", "}", "{}}", "{{}", '{"a":{}', '{"a":{}}', '{"a":1}}', '{"a":1}{', '{"a":1} x', '{null:1}', '{"a":1,"b"}', '{"a":1,"b":}',
    '{"a" :\n\t1\r}', '{"a": NaN}', '{"a": 1.5}', '{"a": "\\ud800"}', '{"\\ud800": 1}', '{"x": -}',
    # comments and other extensions
    "// c\n{}", "{} // c", "/* c */ {}", "{/* c */}", "# c\n{}", "[1, // c\n2]", "{}\n{}", "[undefined]", "[None]", "[0b1]", "[.1]", "[1.e1]", "(1)",
]


def text_checks(corr: Corr, batch: "Batch", cases, rng, tier: str) -> "TextChecks":
    """(b) of the text layer: the real json.loads vs JsonText.parse on hand-written edge texts, on every proper
    prefix of a few saved files (both must reject every non-empty one), on single-character edits of saved
    files, and on byte strings that are / are not UTF-8."""
    tc = TextChecks(corr, batch)
    for t in EDGE_TEXTS:
        tc.parse_text("edge", t)
    saved = [c for c in cases if c.get("bytes") and c.get("m") is not None]
    small = sorted((c for c in saved if 200 <= len(c["bytes"]) <= 1600), key=lambda c: (-len({*c["bytes"]}), len(c["bytes"])))
    picked = [c for c in saved if c["label"] in ("direct:boundary", "direct:awkward-strings", "direct:unsorted")]
    for c in small:
        if len(picked) >= (5 if tier == "quick" else 12):
            break
        if c not in picked:
            picked.append(c)
    for c in picked:
        data = c["bytes"]
        step = 1 if (tier == "thorough" or len(data) <= 1200) else 2
        for i in range(0, len(data), step):
            tc.parse_bytes("prefix", data[:i])
        tc.parse_bytes("prefix:whole", data)
    alphabet = list('{}[],:"\\ \n0159-.eEtfnuNI/x') + ["\\u", "é", "\x00", "\t", "00", '""', "\\ud83d", "\U0001f600"]
    pool = [c["bytes"].decode("utf-8") for c in picked] + ['{"a": [1, -20, {"b": null, "c": "x\\n\\u00e9"}], "d": true, "e": {}}']
    for _ in range(400 if tier == "quick" else 4000):
        t = rng.choice(pool)
        i = rng.randrange(len(t) + 1)
        r = rng.random()
        if r < 0.4:
            t = t[:i] + t[i + 1:]
        elif r < 0.8:
            t = t[:i] + rng.choice(alphabet) + t[i:]
        else:
            t = t[:i] + rng.choice(alphabet) + t[i + 1:]
        tc.parse_text("edit", t)
    for raw in (b"\xc3\xa9", b"\xe2\x82\xac", b"\xf0\x9f\x98\x80", b"\xf4\x8f\xbf\xbf", b"\xef\xbf\xbf", b"\xed\x9f\xbf", b"\xee\x80\x80", b"\x7f",
                b"\xc2\x80", b"\xdf\xbf", b"\xe0\xa0\x80", b"\xf0\x90\x80\x80",
                b"\xc0\x80", b"\xc1\xbf", b"\xe0\x80\x80", b"\xe0\x9f\xbf", b"\xed\xa0\x80", b"\xed\xbf\xbf", b"\xf0\x80\x80\x80", b"\xf0\x8f\xbf\xbf",
                b"\xf4\x90\x80\x80", b"\xf5\x80\x80\x80", b"\xff", b"\xfe", b"\x80", b"\xbf", b"\xc3", b"\xe2\x82", b"\xf0\x9f\x98", b"\xc3\x28", b"\xe2\x28\xa1",
                b"\xe2\x82\x28", b"\xf0\x28\x8c\xbc", b"\xf0\x9f\x28\x80", b"\xf8\x88\x80\x80\x80"):
        tc.parse_bytes("utf8", b'"' + raw + b'"')
        tc.parse_bytes("utf8", b'["a' + raw + b'", 1]')
    return tc


# ---- C13 -----------------------------------------------------------------------------------------


def read_saved(path: str, c: dict) -> None:
    """What a save that returned left on disk: c["bytes"], c["text"], c["saved"] (the parsed value, None when the
    text is not JSON json.loads accepts - then c["unparsable"] says why).  A file the real save wrote is evidence to
    be judged, whatever it holds; a save that returned without leaving a file is a failed save."""
    try:
        with open(path, "rb") as f:
            c["bytes"] = f.read()
    except OSError as e:
        c["save"] = f"returned, but the file cannot be read: {type(e).__name__}"
        return
    c["text"] = c["bytes"].decode("utf-8", "replace")
    try:
        c["saved"] = json.loads(c["bytes"].decode("utf-8"))
    except (ValueError, RecursionError) as e:      # JSONDecodeError, UnicodeDecodeError, digit limit
        c["saved"], c["unparsable"] = None, f"{type(e).__name__}: {str(e)[:200]}"


async def c13_impl(cases):
    """cases: list of dict(label, nodes, replay).  Fills in what the implementation did."""
    for c in cases:
        nodes = c["nodes"]
        path = fresh_path()
        c["save"] = await impl_save(path, nodes)
        c["saved"] = None
        if c["save"] == "ok":
            read_saved(path, c)
        if c["save"] == "ok":
            c["load"], c["loaded"] = await impl_load(path)
            if c["saved"] is not None:
                lp = fresh_path()
                c["legacy_value"] = legacy_of(c["saved"])
                with open(lp, "w", encoding="utf-8") as f:
                    json.dump(c["legacy_value"], f)
                c["legacy_load"], c["legacy_loaded"] = await impl_load(lp)
                os.unlink(lp)
        if os.path.exists(path):
            os.unlink(path)


# ---- C13, sessions: every save of ONE running gateway must write the registry it holds ----------
#
# The property quantifies over every registry the gateway can reach from received messages.  The cases above reach a
# registry and hand it to a fresh Persistence object; an application never does that: it runs ONE gateway with a
# persistence file, and that gateway's own Persistence object saves again and again (the scheduled save when the
# session starts and every SAVE_INTERVAL seconds, explicit `gateway.persistence.save()` calls, the final save on
# exit) while messages keep changing the registry in between - including messages whose handling ends in an error
# AFTER the registry was changed (a presentation whose version cannot be parsed, a write that fails or is cancelled
# while a reaction is sent).  After EVERY completed save the file must load, into an empty registry, to exactly the
# registry the gateway holds at that moment.


class ClockLoop(asyncio.SelectorEventLoop):
    """The ordinary event loop (real files, real executor threads) whose clock can be moved forward: every timer of
    the code under test (the sleep between two scheduled saves, wherever and however it is written) then expires."""

    def __init__(self) -> None:
        super().__init__()
        self.ahead = 0.0

    def time(self) -> float:
        return super().time() + self.ahead


class SaveWatch:
    """Counts the saves of one Persistence object (also the ones of its saver task) so that the harness only looks
    at the file, and only lets traffic through, while no save is in flight (determinism; not part of the oracle)."""

    def __init__(self, p) -> None:
        self.started = self.finished = 0
        self.last = None
        self.event = asyncio.Event()
        inner = p.save

        async def save(*a, **k):
            self.started += 1
            try:
                r = await inner(*a, **k)
                self.last = "ok"
                return r
            except BaseException as e:  # noqa: BLE001
                self.last = outcome_of(e) if not isinstance(e, asyncio.CancelledError) else "cancelled"
                raise
            finally:
                self.finished += 1
                self.event.set()

        p.save = save

    def idle(self) -> bool:
        return self.started == self.finished


SESSION_GUARD = 20.0


async def quiesce(watch: SaveWatch, more_than: int | None = None, patience: float = 0.05) -> bool:
    """Wait until no save is in flight and (if asked) one more save than `more_than` has finished.  Gives up on a save
    that never starts only after both a dozen turns of the event loop and `patience` seconds (a saver task starts its
    save within three turns; wall time alone would make a stalled process look like a missing save)."""
    import time as _t

    t0 = _t.monotonic()
    spins = 0
    while True:
        await asyncio.sleep(0)
        spins += 1
        if watch.idle():
            if more_than is None or watch.finished > more_than:
                return True
            if spins >= 12:
                if _t.monotonic() - t0 > patience:
                    return False
                await asyncio.sleep(0.001)
            continue
        if _t.monotonic() - t0 > SESSION_GUARD:
            raise RuntimeError("a save of the session did not finish")
        watch.event.clear()
        try:
            await asyncio.wait_for(watch.event.wait(), 0.01)
        except asyncio.TimeoutError:
            pass


def _interval() -> float:
    import aiomysensors.persistence as pm

    v = getattr(pm, "SAVE_INTERVAL", 900)
    return float(max(v, 900)) if isinstance(v, (int, float)) and not isinstance(v, bool) else 900.0


_LOADED: dict = {}


async def run_session(sc: dict) -> dict:
    """One scenario on the real Gateway with a real persistence file.  Returns the trace of the steps and one record
    per save point: what the file loaded to (fresh Persistence, empty registry, a copy of the file) vs the registry."""
    from aiomysensors.gateway import Config, Gateway

    loop = asyncio.get_running_loop()
    path = fresh_path()
    tr = gw.FaultTransport()
    if sc["preload"]:          # the file an earlier run left behind
        pre, _ = gw.build_gateway(gw.Hist(None, True, [tuple(p) for p in sc["preload"]], []))
        await impl_save(path, pre.nodes)
    g = Gateway(tr, Config(metric=sc["metric"], persistence_file=path))
    if sc["version"] is not None:
        g.protocol_version = sc["version"]
    watch = SaveWatch(g.persistence)
    trace: list[str] = []
    points: list[dict] = []
    marks = {"writes": {}, "dirty_error_steps": 0, "ticks_missed": 0}
    judged_before = [0]

    async def point(kind: str, step: int, outcome: str | None = None) -> None:
        observed = watch.finished > judged_before[0]
        judged_before[0] = watch.finished
        outcome = outcome if outcome is not None else (watch.last if observed else None)
        nodes = g.nodes
        rec = {"kind": kind, "step": step, "save": outcome, "observed": observed, "registry": render_nodes(nodes),
               "domain": in_domain(nodes), "nth": len(points)}
        if observed and outcome == "ok" and os.path.exists(path):
            with open(path, "rb") as f:
                rec["bytes"] = f.read()
            if rec["bytes"] not in _LOADED:      # load (fresh Persistence, empty registry, a copy of the file) is a function of the bytes
                cp = fresh_path()
                with open(cp, "wb") as f:
                    f.write(rec["bytes"])
                _LOADED[rec["bytes"]] = await impl_load(cp)
                os.unlink(cp)
            rec["load"], loaded = _LOADED[rec["bytes"]]
            rec["why"] = same_registry(nodes, loaded) if rec["load"].startswith("ok ") else None
            # (a registry holding something the model's typed Registry cannot hold is judged by the oracle alone)
            rec["surrogate"] = ill_typed(nodes) is not None or reg_has_surrogate(nodes)
            rec["ops"] = [] if rec["surrogate"] else reg_ops(nodes)
            if not rec["load"].startswith("ok ") or rec["why"]:
                rec["describe"] = describe(nodes)
        points.append(rec)

    async def enter(step: int) -> str:
        n0 = watch.finished
        try:
            await g.__aenter__()
        except BaseException as e:  # noqa: BLE001
            await quiesce(watch)
            return outcome_of(e)
        # a file that was missing is created by load (a save of its own); the saver task has not run yet
        n1 = watch.finished
        if n1 > n0 and watch.idle():
            await point("created-by-load", step)
        if await quiesce(watch, more_than=n1):
            await point("scheduled-at-start", step)
        return "ok"

    async def leave(step: int) -> str:
        try:
            await g.__aexit__(None, None, None)
            out = "ok"
        except BaseException as e:  # noqa: BLE001
            out = outcome_of(e)
        await quiesce(watch)
        await point("exit", step)
        return out

    out = await enter(0)
    trace.append(f"0: enter the gateway context -> {out}")
    listener = None
    persistent = sc["style"] == 1
    entered = out == "ok"
    for i, op in enumerate(sc["ops"], 1):
        tr.attempts = []
        before = render_nodes(g.nodes)
        if op[0] == "recv":
            _, line, faults, now = op
            tr.lines = [line]
            tr.faults = list(faults)
            gw.TIME_STUB.now = tuple(now)
            if listener is None or not persistent:
                if listener is not None:
                    await listener.aclose()
                listener = g.listen()
            try:
                out = gw.render_msg(await anext(listener))
            except BaseException as e:  # noqa: BLE001
                out = gw.render_exc(e)
                listener = None
            shown = f"receive {line[:120]!r}" + (f" write faults {gw.faults_tok(faults)}" if faults else "")
        elif op[0] == "send":
            _, fields, buffer, faults = op
            tr.faults = list(faults)
            try:
                await g.send(Message(*fields) if fields is not None else "not a message", message_buffer=buffer)
                out = "ok"
            except BaseException as e:  # noqa: BLE001
                out = gw.render_exc(e)
            shown = f"send {fields}" + (f" write faults {gw.faults_tok(faults)}" if faults else "")
        elif op[0] == "reboot":
            n = g.nodes.get(op[1])
            if n is not None:
                n.reboot = True
            out, shown = ("ok" if n is not None else "no such node"), f"the application asks for a reboot of node {op[1]} (node.reboot = True)"
        elif op[0] == "save":
            shown = "gateway.persistence.save()"
            try:
                await g.persistence.save()
                out = "ok"
            except BaseException as e:  # noqa: BLE001
                out = outcome_of(e)
            await quiesce(watch)
            await point("explicit", i, out)
        elif op[0] == "tick":
            shown = "the save interval passes"
            for _ in range(6):      # the saver reaches its sleep (a save that ran in a task of its own reports back first)
                await asyncio.sleep(0)
            n0 = watch.finished
            loop.ahead += _interval() + 1
            if entered and await quiesce(watch, more_than=n0):
                await point("scheduled", i)
                out = "scheduled save done"
            else:
                out = "no scheduled save observed"
                marks["ticks_missed"] += 1
        elif op[0] == "session":
            shown = "leave the gateway context and enter it again"
            if listener is not None:
                await listener.aclose()
                listener = None
            out = await leave(i) if entered else "not entered"
            out2 = await enter(i)
            entered = out2 == "ok"
            out = f"exit {out}, enter {out2}"
        else:
            raise RuntimeError(f"unknown session operation {op!r}")
        if op[0] in ("recv", "send"):
            marks["writes"][i] = len(tr.attempts)
            changed = render_nodes(g.nodes) != before
            if changed and not out.startswith("ok"):
                marks["dirty_error_steps"] += 1
            out += f"  [writes {sum(1 for _, ok in tr.attempts if ok)}/{len(tr.attempts)}" + ("; registry changed]" if changed else "]")
        trace.append(f"{i}: {shown} -> {out}")
    if listener is not None:
        await listener.aclose()
    if entered:
        out = await leave(len(sc["ops"]) + 1)
        trace.append(f"{len(sc['ops']) + 1}: leave the gateway context -> {out}")
    if os.path.exists(path):
        os.unlink(path)
    return {"trace": trace, "points": points, "marks": marks}


def point_failure(p: dict) -> str | None:
    """The property at one save point: the file the session's save wrote loads to the registry held."""
    if not p["observed"]:
        return None
    if p["save"] != "ok":
        return f"save failed: {p['save']}"
    if "load" not in p:
        return "save returned but there is no file"
    if not p["load"].startswith("ok "):
        return f"a file written by save is not accepted by load: {p['load']}"
    if p["why"]:
        return ("the file written by a save of the running gateway does not load to the registry the gateway holds: " + p["why"]
                + " (registry held vs loaded from the file)")
    return None


def session_failure(res: dict):
    for p in res["points"]:
        why = point_failure(p)
        if why:
            return p, why
    return None


T1 = list(gw.DEFAULT_TIME)


def _recv(line: str, faults=()) -> list:
    return ["recv", line, list(faults), T1]


def session_contexts(version: str | None):
    """(name, reported version at start, steps that build a registry with content) for one protocol version."""
    v = version
    base = [_recv(f"0;255;0;0;18;{v}.0"), _recv(f"1;255;0;0;17;{v}"), _recv("1;255;3;0;11;Grön sensor"), _recv("1;255;3;0;12;1.0"),
            _recv("1;1;0;0;6;outdoor temp"), _recv("1;1;1;0;0;20.5"), _recv("1;255;3;0;0;80"), _recv(f"2;255;0;0;17;{v}"),
            _recv("2;0;0;0;3;relay")]
    ctxs = [("plain", v, base)]
    # the application has asked for a reboot of the node: the next set is answered with a reboot command
    ctxs.append(("reboot requested", v, base + [["reboot", 1]]))
    # the gateway never told its version: every handled message is followed by a version request
    ctxs.append(("version unknown", None, base[1:]))
    if v in ("2.0", "2.1", "2.2"):
        sleep = _recv("1;255;3;0;22;100") if v in ("2.0", "2.1") else _recv("1;255;3;0;32;500")
        ctxs.append(("asleep with buffered commands", v, base + [sleep, ["send", [1, 1, 1, 0, 0, "18.0"], True, []],
                                                               ["send", [1, 1, 1, 0, 2, "1"], True, []]]))
    return ctxs


def session_updates(version: str):
    """Messages whose handler changes (or may change) the registry: one of every kind the handlers know."""
    v = version
    other = "1.4" if v != "1.4" else "2.2"
    ups = [("node presented again", f"1;255;0;0;18;{v}.1"), ("new node presented", f"7;255;0;0;17;{v}"),
           ("gateway presented again", f"0;255;0;0;18;{v}.1"), ("gateway presented, version cannot be parsed", "0;255;0;0;18;2.x"),
           ("gateway presented, empty version", "0;255;0;0;18;"), ("gateway presented with another protocol's version", f"0;255;0;0;17;{other}"),
           ("child presented", "1;2;0;0;7;humidity"), ("child presented again", "1;1;0;0;3;changed é"),
           ("value changed", "1;1;1;0;0;21.5"), ("value of a new type", "1;1;1;0;2;1"), ("battery level", "1;255;3;0;0;79"),
           ("sketch name", "1;255;3;0;11;Other"), ("sketch version", "1;255;3;0;12;2.0"), ("id request", "255;255;3;0;3;"),
           ("value from an unknown child", "1;9;1;0;0;1"), ("value from an unknown node", "9;1;1;0;0;1"),
           # payloads that look like the file format (see JSON_FRAGMENTS): the file the session's own saver writes is read back
           ("value that looks like JSON text", "1;1;1;0;24;" + JSONISH_PAYLOADS[0]),
           ("description / sketch name that looks like JSON text", "1;1;0;0;3;" + JSONISH_PAYLOADS[1])]
    if v in ("2.0", "2.1", "2.2"):
        ups += [("heartbeat", "1;255;3;0;22;200"), ("heartbeat of the other node", "2;255;3;0;22;5")]
    if v == "2.2":
        ups += [("pre-sleep notification", "1;255;3;0;32;500")]
    return ups


FAULT_PATTERNS = [(), (True,), (False, True), (gw.CANCEL,), (False, gw.CANCEL)]
SAVE_KINDS = [["save"], ["tick"], ["session"]]


def systematic_sessions(seed: int, tier: str):
    """save -> one registry-changing message, ending in every way a step can end -> (other traffic) -> save -> exit,
    for every kind of change and every context; the kind of the two saves and the traffic in between rotate."""
    pairs: dict = {}
    for version in lib.VERSIONS:
        for cname, start, setup in session_contexts(version):
            for uname, line in session_updates(version):
                pairs.setdefault((cname, uname), []).append((version, start, setup, line))
    out = []
    k = seed
    for pi, ((cname, uname), applicable) in enumerate(pairs.items()):
        # quick tier: every (context, change) pair on two of the versions that have it, rotating with the seed
        if tier == "quick":
            picked = {(pi + seed) % len(applicable), (pi + seed + 2) % len(applicable)}
            applicable = [a for i, a in enumerate(applicable) if i in picked]
        for version, start, setup, line in applicable:
            group = []
            for faults in FAULT_PATTERNS:
                k += 1
                first = SAVE_KINDS[k % 3]
                trailing = [[], [_recv("2;0;1;0;2;1")], [_recv("1;255;3;0;0;abc")], [_recv("2;0;1;0;2;0"), _recv("1;9;2;0;0;")]][(k // 3) % 4]
                last = [[["save"]], [["tick"]], []][(k // 12) % 3]
                ops = setup + [first] + [_recv(line, faults)] + trailing + last
                group.append({"label": f"systematic: {cname}; {uname}; protocol {version}; faults {gw.faults_tok(faults)}", "version": start,
                              "metric": True, "preload": [], "style": k % 2, "ops": ops, "mark": len(setup) + 2})
            out.append(group)
    return out


def random_sessions(rng, tier: str):
    out = []
    n = 80 if tier == "quick" else 800
    for i in range(n):
        version = lib.VERSIONS[i % 5]
        h = gw.gen_history(rng, version, rng.randint(8, 30 if tier == "quick" else 60), send_ratio=0.2, fault_ratio=0.3,
                           preload_p=0.4, cancel_ratio=0.25)
        ops = []
        for op in h.ops:
            ops.append([op[0], op[1] if op[0] == "recv" else (list(op[1]) if op[1] is not None else None),
                        list(op[2]) if op[0] == "recv" else op[2], list(op[3])])
            r = rng.random()
            if r < 0.12:
                ops.append(["save"])
            elif r < 0.18:
                ops.append(["tick"])
            elif r < 0.22:
                ops.append(["session"])
            elif r < 0.25:
                ops.append(["reboot", rng.choice(gw.NODES)])
        out.append({"label": "random", "version": h.version, "metric": h.metric, "preload": [list(p) for p in h.preload],
                    "style": i % 2, "ops": ops})
    return out


async def shrink_session(sc: dict, budget: int = 60) -> tuple[dict, dict]:
    """Drop operations one at a time while some save point still fails (a shorter history for the replay file)."""
    best, res = sc, await run_session(sc)
    progress = True
    while progress and budget > 0:
        progress = False
        for i in range(len(best["ops"]) - 1, -1, -1):
            if budget <= 0:
                break
            cand = {**best, "ops": best["ops"][:i] + best["ops"][i + 1:]}
            budget -= 1
            r = await run_session(cand)
            if session_failure(r):
                best, res, progress = cand, r, True
    return best, res


def session_checks(ctx, corr: Corr, batch: "Batch") -> list:
    """Runs the session scenarios, judges every save point by the oracle, queues the model's questions; returns the
    list of (point, scenario, handles) to compare after the batch ran."""
    rng = lib.rng_for(ctx.seed, "c13-sessions")
    pending = []
    seen_model: set = set()

    async def main():
        results = []
        for group in systematic_sessions(ctx.seed, ctx.tier):
            writes = None
            for sc, faults in zip(group, FAULT_PATTERNS):
                if writes is not None and len(faults) > writes:
                    corr.count("session: fault pattern skipped (the step writes less often)")
                    continue
                res = await run_session(sc)
                if not faults:
                    writes = res["marks"]["writes"].get(sc["mark"], 0)
                results.append((sc, res))
        for sc in random_sessions(rng, ctx.tier):
            results.append((sc, await run_session(sc)))
        shrunk = 0
        for sc, res in results:
            bad = session_failure(res)
            if bad and shrunk < 3 and len(sc["ops"]) > 1:
                shrunk += 1
                small, sres = await shrink_session(sc)
                if session_failure(sres):
                    res["shrunk"] = (small, sres)
        return results

    results = asyncio.run(main(), loop_factory=ClockLoop)
    for sc, res in results:
        kind = sc["label"].split(":")[0].split(";")[0]
        corr.count(f"session scenarios ({kind})")
        corr.count("session steps that end in an error after the registry changed", res["marks"]["dirty_error_steps"])
        if res["marks"]["ticks_missed"]:
            corr.count("session: save interval passed without an observed save (not judged)", res["marks"]["ticks_missed"])
        regs = []
        for p in res["points"]:
            if not p["observed"]:
                corr.count("session save point not judged (no save observed)")
                continue
            corr.count("session save:" + p["kind"])
            regs.append(p["registry"])
        bad = session_failure(res)
        if bad:
            p, why = bad
            use_sc, use_res, use_p = sc, res, p
            if "shrunk" in res:
                use_sc, use_res = res["shrunk"]
                use_p, why = session_failure(use_res)
            corr.violate(why, {"scenario": use_sc["label"], "steps": use_res["trace"],
                               "failing_save": {"kind": use_p["kind"], "at_step": use_p["step"]},
                               "session": {k: use_sc[k] for k in ("version", "metric", "preload", "style", "ops")},
                               "registry_held": use_p.get("describe"), "file": use_p.get("bytes", b"")[:3000].decode("utf-8", "replace"),
                               "operations_before_shrinking": len(sc["ops"])})
        else:
            for p in res["points"]:
                if p["observed"] and not p["domain"]:
                    corr.violate("a registry reached from received messages is outside the domain of the round-trip theorem "
                                 "(node id / battery level / printable integers)",
                                 {"session": {k: sc[k] for k in ("label", "version", "metric", "preload", "style", "ops")},
                                  "steps": res["trace"], "registry": p["registry"][:1500]})
                    break
        # non-trivial: the same Persistence object saved at least two different non-empty registries
        distinct = [r for i, r in enumerate(regs) if r != "[]" and r not in regs[:i]]
        corr.case(("session", json.dumps(sc["ops"]), sc["version"], sc["style"]), len(distinct) >= 2,
                  {"label": "session: " + sc["label"], "steps": res["trace"][-6:], "saves": [p["kind"] for p in res["points"] if p["observed"]]})
        # ---- model: every file the session wrote vs saveText / load (save r) of the registry held at that moment
        if ctx.model_ok:
            for p in res["points"]:
                if "bytes" not in p or p["surrogate"]:
                    continue
                key = (tuple(p["ops"]), p["bytes"])
                if key in seen_model:
                    corr.count("session save point: model already asked about the same registry and file")
                    continue
                seen_model.add(key)
                for op in p["ops"]:
                    batch.ask(op)
                pending.append((p, sc, res, {"savetext": batch.ask("savetext"), "loadsave": batch.ask("loadsave")}))
    return pending


def session_compare(corr: Corr, batch: "Batch", pending: list) -> None:
    for p, sc, res, m in pending:
        corr.count("session save point compared with the model")
        rp = {"session": {k: sc[k] for k in ("label", "version", "metric", "preload", "style", "ops")}, "steps": res["trace"],
              "save": {"kind": p["kind"], "after_step": p["step"]}}
        text = p["bytes"].decode("utf-8", "replace")
        if batch[m["savetext"]] != hexb(p["bytes"]):
            mt = bytes.fromhex(batch[m["savetext"]].replace("-", "")).decode("utf-8", "replace")
            k = next((i for i, (x, y) in enumerate(zip(mt, text)) if x != y), min(len(mt), len(text)))
            corr.disagree("bytes written by a save of the running gateway vs saveText of the registry it holds",
                          {**rp, "first_difference_at": k, "impl": text[max(0, k - 200):k + 200], "model": mt[max(0, k - 200):k + 200]})
        ls = batch[m["loadsave"]]
        if ls.startswith("ok ") != p["load"].startswith("ok ") or (ls.startswith("ok ") and not same_reg_text(ls[3:], p["load"][3:])) \
                or (not ls.startswith("ok ") and ls != p["load"]):
            corr.disagree("load of the file a running gateway saved vs load (save r)", {**rp, "impl": p["load"][:1500], "model": ls[:1500]})


# ---- C13, sessions that end WHILE a scheduled save is in flight ----------------------------------
#
# The sessions above only look at the file, and only let traffic through, while no save is in flight.  A running
# gateway does not wait: messages arrive while the scheduled save (at start, after each save interval) is somewhere
# between taking its snapshot and closing the file, and the application may leave the context right then.  The file the
# session leaves behind - once every file operation that was still pending has completed - must still load to the
# registry the gateway held when it was left.
#
# Control: the library's own aiofiles is used, on the ordinary event loop; the loop's `run_in_executor` (through
# which every file operation of a save reaches a worker thread) can hold ONE operation of a save that runs in the
# background: either before it starts (an operation queued behind a busy thread pool: if its future is cancelled
# meanwhile it is never executed, as in concurrent.futures) or after it took effect with its result not yet delivered
# (a slow operation).  Operations are numbered per save as they are submitted (1 = open, 2 = write, 3 = close in the
# code as it stands; nothing below depends on those names or on their number).


import contextvars  # noqa: E402
import functools  # noqa: E402
from concurrent.futures import ThreadPoolExecutor  # noqa: E402

_SAVE_CTX: contextvars.ContextVar = contextvars.ContextVar("c13_save_in_progress", default=None)


def _op_name(func) -> str:
    while isinstance(func, functools.partial):
        func = func.func
    name = getattr(func, "__name__", None) or type(func).__name__
    return {"__exit__": "close"}.get(name, name)


class FileGate:
    """Holds one file operation of one background save; see the comment above."""

    def __init__(self) -> None:
        self.plan: tuple | None = None      # (k, after): the k-th operation of the next background save
        self.target: int | None = None      # the save (tagger's numbering) the plan applies to, once it shows up
        self.ops: dict[int, list[str]] = {}
        self.held: dict | None = None
        self.reached = False

    def arm(self, k: int, after: bool) -> None:
        self.plan, self.target, self.held, self.reached = (k, after), None, None, False

    def submit(self, loop: "GateLoop", executor, func, args, info):
        n, background = info
        names = self.ops.setdefault(n, [])
        names.append(_op_name(func))
        if self.plan is not None and background and not self.reached:
            if self.target is None:
                self.target = n
            if self.target == n and len(names) == self.plan[0]:
                return self._hold(loop, executor, func, args, n, len(names), names[-1])
        return loop.submit_now(executor, func, args)

    def _hold(self, loop, executor, func, args, n, k, name):
        self.reached = True
        fut = loop.create_future()
        h = self.held = {"after": self.plan[1], "fut": fut, "save": n, "k": k, "name": name, "released": False,
                         "start": None, "real": None, "cf": None, "fate": None}
        if h["after"]:
            h["real"] = loop.submit_now(executor, func, args)
            h["cf"] = loop.file_ops[-1]
        else:
            h["start"] = lambda: loop.submit_now(executor, func, args)

        def waiter_gone(f):
            # the awaiting code was cancelled: a queued operation is then never executed, the result of a running one
            # is thrown away - and nothing here may keep the file object alive longer than a thread pool would
            if f.cancelled():
                if h["start"] is not None:
                    h["fate"] = "cancelled while queued: never executed"
                elif h["after"] and not h["released"]:
                    h["fate"] = "took effect; the awaiting save was cancelled and its result thrown away"
                h["start"] = None
                if h["real"] is not None and not h["released"]:
                    h["real"] = None

        fut.add_done_callback(waiter_gone)
        return fut

    def effect_pending(self) -> bool:
        """An `after` hold whose operation is still running in its thread."""
        h = self.held
        return bool(h and h["after"] and h["cf"] is not None and not h["cf"].done())

    def release(self) -> str:
        h = self.held
        if h is None or h["released"]:
            return "nothing held"
        h["released"] = True
        fut = h["fut"]
        real = h["real"]
        if not h["after"]:
            start, h["start"] = h["start"], None
            if start is None or fut.done():
                return h["fate"] or "cancelled while queued: never executed"
            real = start()
            h["fate"] = "executed after it was let through"
        else:
            if real is None or fut.done():
                h["real"] = None
                return h["fate"] or "took effect; result thrown away"
            h["fate"] = "result delivered after it was let through"
        h["real"] = None

        def deliver(r):
            if fut.done():
                return
            if r.cancelled():
                fut.cancel()
            elif r.exception() is not None:
                fut.set_exception(r.exception())
            else:
                fut.set_result(r.result())

        real.add_done_callback(deliver)
        fut.add_done_callback(lambda f: real.cancel() if f.cancelled() else None)
        return h["fate"]


class GateLoop(ClockLoop):
    """ClockLoop whose thread-pool submissions can be held by a FileGate (only those made inside a tagged save)."""

    def __init__(self) -> None:
        super().__init__()
        self.gate: FileGate | None = None
        self.file_ops: list = []
        self._pool: ThreadPoolExecutor | None = None

    def submit_now(self, executor, func, args):
        if executor is None:
            if self._pool is None:
                self._pool = ThreadPoolExecutor(thread_name_prefix="c13-files")
                self.set_default_executor(self._pool)
            executor = self._pool
        cf = executor.submit(func, *args)
        self.file_ops = [c for c in self.file_ops if not c.done()]
        self.file_ops.append(cf)
        return asyncio.wrap_future(cf, loop=self)

    def run_in_executor(self, executor, func, *args):
        info = _SAVE_CTX.get()
        if self.gate is None or info is None:
            return self.submit_now(executor, func, args)
        return self.gate.submit(self, executor, func, args, info)

    def ops_in_flight(self) -> int:
        return sum(1 for c in self.file_ops if not c.done())


class SaveTags:
    """Numbers the saves of one Persistence object and marks, for the file layer, which save an operation belongs to
    and whether that save runs in the background (in a task other than the one that drives the session)."""

    def __init__(self, p, driver) -> None:
        self.count = 0
        self.finished: set = set()
        inner = p.save

        async def save(*a, **k):
            self.count += 1
            n = self.count
            tok = _SAVE_CTX.set((n, asyncio.current_task() is not driver))
            try:
                return await inner(*a, **k)
            finally:
                self.finished.add(n)
                try:
                    _SAVE_CTX.reset(tok)
                except ValueError:
                    pass

        p.save = save


async def _wait_held(loop: GateLoop, gate: FileGate, tags: SaveTags, watch: SaveWatch, patience: float = 0.05) -> bool:
    """Until the planned operation is held (and, for an `after` hold, took effect).  False: the background save never
    came, or it finished with fewer file operations than the plan asks for."""
    import time as _t

    t0 = _t.monotonic()
    spins = 0
    while True:
        await asyncio.sleep(0)
        spins += 1
        if gate.reached:
            if not gate.effect_pending():
                return True
        elif gate.target is not None and gate.target in tags.finished:
            return False
        elif gate.target is None and spins >= 12 and watch.idle() and _t.monotonic() - t0 > patience:
            return False
        if _t.monotonic() - t0 > SESSION_GUARD:
            raise RuntimeError("the held file operation of a scheduled save did not take effect")
        if spins >= 12:
            await asyncio.sleep(0.001)


async def _settle(loop: GateLoop, watch: SaveWatch) -> bool:
    """Until every save of the session has finished and no file operation is pending or running."""
    import time as _t

    t0 = _t.monotonic()
    calm = 0
    while calm < 3:
        await asyncio.sleep(0)
        calm = calm + 1 if (watch.idle() and not loop.ops_in_flight()) else 0
        if _t.monotonic() - t0 > SESSION_GUARD:
            return False
        if not calm:
            await asyncio.sleep(0.001)
    return True


async def run_overlap(sc: dict) -> dict:
    """One session that is left while a scheduled save is held at one of its file operations.  sc: version, metric,
    preload, when ('start' | 'tick'), before (traffic before the interval passes), hold [k, after], during (traffic
    while the save is held).  Returns the trace and the final record (file after everything settled vs registry)."""
    from aiomysensors.gateway import Config, Gateway

    loop = asyncio.get_running_loop()
    gate = loop.gate = FileGate()
    path = fresh_path()
    tr = gw.FaultTransport()
    if sc["preload"]:          # the file an earlier run left behind
        pre, _ = gw.build_gateway(gw.Hist(None, True, [tuple(p) for p in sc["preload"]], []))
        await impl_save(path, pre.nodes)
    g = Gateway(tr, Config(metric=sc["metric"], persistence_file=path))
    if sc["version"] is not None:
        g.protocol_version = sc["version"]
    watch = SaveWatch(g.persistence)
    tags = SaveTags(g.persistence, asyncio.current_task())
    trace: list[str] = []
    k, after = sc["hold"]
    res = {"trace": trace, "judged": False, "reached": False, "why": None, "running_at_return": 0, "point": None,
           "changed": False, "ops_of_held_save": None}

    async def receive(line: str) -> None:
        tr.lines, tr.faults, tr.attempts = [line], [], []
        gw.TIME_STUB.now = tuple(T1)
        before = render_nodes(g.nodes)
        listener = g.listen()
        try:
            out = gw.render_msg(await anext(listener))
        except BaseException as e:  # noqa: BLE001
            out = gw.render_exc(e)
        await listener.aclose()
        trace.append(f"{len(trace)}: receive {line[:70]!r}{'...' if len(line) > 70 else ''} -> {out[:60]}"
                     + ("  [registry changed]" if render_nodes(g.nodes) != before else ""))

    def cleanup() -> None:
        loop.gate = None
        if os.path.exists(path):
            os.unlink(path)

    if sc["when"] == "start":
        gate.arm(k, after)
    try:
        async with asyncio.timeout(SESSION_GUARD):
            await g.__aenter__()
        out = "ok"
    except BaseException as e:  # noqa: BLE001
        out = outcome_of(e)
    trace.append(f"0: enter the gateway context ({'the file of an earlier run holds ' + str(len(g.nodes)) + ' node(s)' if sc['preload'] else 'no file yet'}) -> {out}")
    if out != "ok":
        gate.release()
        await _settle(loop, watch)
        cleanup()
        res["why"] = f"entering the gateway context failed: {out}"
        res["judged"] = True
        return res
    if sc["when"] == "tick":
        await quiesce(watch, more_than=watch.finished)
        for line in sc["before"]:
            await receive(line)
        for _ in range(6):      # the saver reaches its sleep (a save that ran in a task of its own reports back first)
            await asyncio.sleep(0)
        gate.arm(k, after)
        loop.ahead += _interval() + 1
        trace.append(f"{len(trace)}: the save interval passes")
    held = await _wait_held(loop, gate, tags, watch)
    res["reached"] = held
    if not held:
        trace.append(f"{len(trace)}: no scheduled save reached its file operation {k} (operations of that save: "
                     f"{gate.ops.get(gate.target, [])})")
    else:
        h = gate.held
        trace.append(f"{len(trace)}: the scheduled save (save {h['save']} of this session's Persistence object) is in flight: its file "
                     f"operation {k} ({h['name']}) " + ("took effect, its result is not delivered yet" if after else "is queued, not started yet"))
    snapshot = render_nodes(g.nodes)
    for line in sc["during"]:
        await receive(line)
    res["changed"] = render_nodes(g.nodes) != snapshot

    # leave the context; if leaving waits for the held operation, that operation completes (it is slow, not dead)
    async def unblock():
        import time as _t

        t0, quiet = _t.monotonic(), 0
        while True:
            await asyncio.sleep(0)
            quiet = quiet + 1 if not loop.ops_in_flight() else 0
            if quiet >= 30 and _t.monotonic() - t0 > 0.05:
                res["released_while_leaving"] = gate.release()
                return
            if quiet >= 30:
                await asyncio.sleep(0.001)

    dog = asyncio.ensure_future(unblock())
    try:
        async with asyncio.timeout(SESSION_GUARD):
            await g.__aexit__(None, None, None)
        out = "ok"
    except BaseException as e:  # noqa: BLE001
        out = "did not return" if isinstance(e, TimeoutError) else outcome_of(e)
    dog.cancel()
    running = watch.started - watch.finished
    res["running_at_return"] = running
    held_nodes = g.nodes
    at_exit = render_nodes(held_nodes)
    trace.append(f"{len(trace)}: leave the gateway context -> {out}"
                 + (f"  [the held operation was let through because leaving waited for it: {res['released_while_leaving']}]"
                    if "released_while_leaving" in res else "")
                 + f"  [saves still running when it returned: {running}]")
    fate = gate.release()
    settled = await _settle(loop, watch)
    if held:
        trace.append(f"{len(trace)}: the held file operation is let through ({fate}); "
                     + ("every pending file operation completed, no save is running" if settled else "a save or file operation never finished"))
    res["ops_of_held_save"] = list(gate.ops.get(gate.target, [])) if gate.target is not None else None
    res["judged"] = True
    rec = {"kind": "exit while a scheduled save was in flight", "step": len(trace) - 1, "registry": at_exit,
           "domain": in_domain(held_nodes), "describe": describe(held_nodes)}
    if out != "ok":
        res["why"] = f"leaving the gateway context failed: {out}"
    elif not settled:
        res["why"] = "a save of the session never finished although every file operation was let through"
    elif not os.path.exists(path):
        res["why"] = "the session was left but there is no file"
    else:
        with open(path, "rb") as f:
            rec["bytes"] = f.read()
        if rec["bytes"] not in _LOADED:
            cp = fresh_path()
            with open(cp, "wb") as f:
                f.write(rec["bytes"])
            _LOADED[rec["bytes"]] = await impl_load(cp)
            os.unlink(cp)
        rec["load"], loaded = _LOADED[rec["bytes"]]
        rec["surrogate"] = ill_typed(held_nodes) is not None or reg_has_surrogate(held_nodes)
        rec["ops"] = [] if rec["surrogate"] else reg_ops(held_nodes)
        trace.append(f"{len(trace)}: load a copy of the file ({len(rec['bytes'])} bytes) into an empty registry -> {rec['load'][:60]}")
        if not rec["load"].startswith("ok "):
            res["why"] = ("the file left behind by a session that ended while a scheduled save was in flight is not accepted by load: "
                          + rec["load"])
        else:
            diff = same_registry(held_nodes, loaded)
            if diff:
                res["why"] = ("the file left behind by a session that ended while a scheduled save was in flight does not load to the "
                              "registry the gateway held when it was left: " + diff + " (registry held vs loaded from the file)")
    if res["why"] is None and running:
        res["why"] = (f"{running} save(s) of the session were still running when leaving the gateway context returned: the file was "
                      "not final when the session was over")
    res["point"] = rec
    cleanup()
    return res


LONG_PAYLOAD = "a long payload, " * 25
OVERLAP_DIRECTIONS = ("shorter", "longer", "same length")


def overlap_base(version: str, value: str) -> list:
    """The registry of an earlier run (preload tuples): gateway, a node with sketch, battery, a child and a value."""
    return [["node", 0, 18, version + ".0", "", "", 0, 0, False, False],
            ["node", 1, 17, version, "Grön sensor", "1.0", 80, 0, False, False],
            ["child", 1, 1, 1, 6, "outdoor temp"], ["val", 1, 1, 0, value],
            ["node", 2, 17, version, "", "", 0, 0, False, False], ["child", 2, 0, 0, 3, "relay"]]


def overlap_change(version: str, direction: str) -> tuple[str, list[str]]:
    """(value stored before, traffic) so that the serialised registry becomes shorter / longer / keeps its length."""
    if direction == "shorter":
        return LONG_PAYLOAD, ["1;255;3;0;0;79", "1;1;1;0;0;7"]
    if direction == "longer":
        return "20.5", [f"7;255;0;0;17;{version}", "7;3;0;0;7;humidité", "7;3;1;0;1;55.5", "1;1;1;0;0;" + LONG_PAYLOAD]
    return "20.5", ["1;1;1;0;0;21.5", "1;255;3;0;0;81"]


def overlap_sessions(seed: int, tier: str, n_ops: int, rng) -> list[dict]:
    """Every file operation of a scheduled save (before it starts / after it took effect) x the scheduled save at start
    and after an interval x the registry getting shorter, longer, changing at equal length since that save's snapshot;
    plus the first session ever (no file yet) and random traffic while the save is held."""
    out = []
    positions = [(k, after) for k in range(1, n_ops + 1) for after in (False, True)]
    # The LAST operation of a save held in the queue is run but not judged (LAST_QUEUED): a queued operation whose waiter
    # is cancelled is never executed, so the file object of the cancelled save stays open with its text still buffered,
    # and CPython writes that text out whenever the object is collected - in the code as it stands that is right after
    # the final save has submitted its truncating open (the cancelled save's frames live until then), a race between
    # two threads whose outcome differs from run to run.  The state 'before close' itself is covered by the hold
    # 'the operation before it took effect, result not delivered'.
    judged = [(k, after) for k, after in positions if after or k < n_ops or n_ops == 1]
    i = seed
    for k, after in positions:
        observe_only = (k, after) not in judged
        for when in ("start", "tick"):
            for direction in OVERLAP_DIRECTIONS:
                versions = lib.VERSIONS if tier == "thorough" else [lib.VERSIONS[i % 5]]
                i += 1
                for v in versions:
                    value, during = overlap_change(v, direction)
                    pos = f"operation {k} {'took effect' if after else 'queued'}"
                    out.append({"label": f"overlap: scheduled save at {when}; {pos}; registry gets {direction}; protocol {v}",
                                "version": v, "metric": True, "preload": overlap_base(v, value), "when": when, "hold": [k, after],
                                "before": ["2;0;1;0;2;1"] if when == "tick" else [], "during": during, "direction": direction,
                                "observe_only": observe_only})
        # the first session ever: no file, the snapshot of the save at start is the empty registry
        v = lib.VERSIONS[i % 5]
        i += 1
        out.append({"label": f"overlap: scheduled save at start; operation {k} {'took effect' if after else 'queued'}; no file yet, "
                             f"nodes present themselves; protocol {v}",
                    "version": v, "metric": True, "preload": [], "when": "start", "hold": [k, after], "before": [],
                    "during": [f"0;255;0;0;18;{v}.0", f"1;255;0;0;17;{v}", "1;1;0;0;6;outdoor temp", "1;1;1;0;0;20.5"], "direction": "longer",
                    "observe_only": observe_only})
    # random traffic (no write faults) while the save is held, from a random earlier registry
    for j in range(12 if tier == "quick" else 150):
        v = lib.VERSIONS[(j + seed) % 5]
        h = gw.gen_history(rng, v, rng.randint(3, 12), send_ratio=0.0, fault_ratio=0.0, preload_p=0.8)
        lines = [op[1] for op in h.ops if op[0] == "recv" and not lib.has_surrogate(op[1])]
        k, after = rng.choice(judged)
        when = rng.choice(["start", "tick"])
        cut = rng.randint(0, len(lines)) if when == "tick" else 0
        out.append({"label": f"overlap: random traffic; scheduled save at {when}; operation {k} {'took effect' if after else 'queued'}; protocol {v}",
                    "version": h.version, "metric": h.metric, "preload": [list(p) for p in h.preload], "when": when, "hold": [k, after],
                    "before": lines[:cut], "during": lines[cut:], "direction": "random", "observe_only": False})
    return out


async def probe_save_ops() -> int:
    """How many file operations one scheduled save submits (3 in the code as it stands: open, write, close)."""
    loop = asyncio.get_running_loop()
    gate = loop.gate = FileGate()
    path = fresh_path()
    g = Gateway(gw.FaultTransport(), Config(persistence_file=path))
    watch = SaveWatch(g.persistence)
    SaveTags(g.persistence, asyncio.current_task())
    try:
        await g.__aenter__()
        await quiesce(watch, more_than=watch.finished)
        await g.__aexit__(None, None, None)
        await quiesce(watch)
    finally:
        loop.gate = None
        if os.path.exists(path):
            os.unlink(path)
    counts = [len(v) for v in gate.ops.values()]
    return max(counts) if counts else 0


def overlap_checks(ctx, corr: Corr, batch: "Batch") -> list:
    """Runs the sessions that end while a scheduled save is in flight; oracle; queues the model's questions about the
    file each of them left behind (same shape as session_checks' list)."""
    rng = lib.rng_for(ctx.seed, "c13-overlap")
    pending = []

    async def main():
        n_ops = await probe_save_ops()
        results = []
        for sc in overlap_sessions(ctx.seed, ctx.tier, max(1, min(n_ops, 8)), rng):
            results.append((sc, await run_overlap(sc)))
        return n_ops, results

    n_ops, results = asyncio.run(main(), loop_factory=GateLoop)
    corr.count(f"overlap: file operations per scheduled save = {n_ops}")
    for sc, res in results:
        k, after = sc["hold"]
        if sc["observe_only"]:
            # Judged, but a violation at exactly this position is the recorded known finding `cancelled-save-unclosed-file`
            # (known-findings.txt): a genuine race of the unchanged library between two executor threads, whose outcome
            # differs from run to run (it shows in roughly one run in ten on a loaded machine).
            corr.count("overlap, the save's last file operation queued when the session was left (the cancelled save never closes "
                       "its file; CPython flushes it when the object is collected) - file "
                       + ("loads to the registry held" if not res["why"] else "does NOT load to the registry held (known finding)"))
            if res["why"]:
                p0 = res["point"]
                corr.violate(res["why"], {"class": "cancelled-save-unclosed-file", "scenario": sc["label"], "steps": res["trace"],
                                          "file": (p0.get("bytes", b"") if p0 else b"")[:3000].decode("utf-8", "replace"),
                                          "file_operations_of_the_held_save": res["ops_of_held_save"]})
            continue
        corr.count("overlap scenarios (session left while a scheduled save is in flight)")
        if not res["reached"]:
            corr.count("overlap: scheduled save not caught at the planned operation (judged all the same)")
        else:
            name = (res["ops_of_held_save"] or ["?"] * k)[k - 1]
            corr.count(f"overlap held at operation {k} ({name}) {'after it took effect' if after else 'before it started'}")
            corr.count(f"overlap: scheduled save at {sc['when']}")
            corr.count(f"overlap: registry since the snapshot: {sc['direction']}" + ("" if res["changed"] else " (unchanged)"))
        full = {"label": sc["label"], "version": sc["version"], "metric": sc["metric"], "preload": sc["preload"], "style": 0,
                "ops": [["enter", sc["when"]], ["hold", k, after]] + [["recv", ln] for ln in sc["before"]] + [["in-flight"]]
                       + [["recv", ln] for ln in sc["during"]] + [["exit"]]}
        p = res["point"]
        if res["why"]:
            corr.violate(res["why"], {"scenario": sc["label"], "steps": res["trace"],
                                      "session": {kk: sc[kk] for kk in ("version", "metric", "preload", "when", "hold", "before", "during")},
                                      "registry_held": p.get("describe") if p else None,
                                      "file": (p.get("bytes", b"") if p else b"")[:3000].decode("utf-8", "replace"),
                                      "file_operations_of_the_held_save": res["ops_of_held_save"]})
        elif p is not None and not p["domain"]:
            corr.violate("a registry reached from received messages is outside the domain of the round-trip theorem "
                         "(node id / battery level / printable integers)", {"scenario": sc["label"], "steps": res["trace"],
                                                                            "registry": p["registry"][:1500]})
        corr.case(("overlap", sc["label"], json.dumps(sc["during"])), bool(res["reached"] and res["changed"]),
                  {"label": sc["label"], "steps": res["trace"][-5:]})
        if ctx.model_ok and p is not None and "bytes" in p and not p["surrogate"]:
            for op in p["ops"]:
                batch.ask(op)
            pending.append((p, full, res, {"savetext": batch.ask("savetext"), "loadsave": batch.ask("loadsave")}))
    return pending


def coverage_of_wire_case(corr: Corr, c: dict, kinds: dict) -> None:
    """Counts (evidence only) how the saved registry of a history-driven case came about."""
    f = c["facts"]
    proto = c["of"].split(",")[0] if c["of"].startswith("wire-systematic") else c["label"]
    for k, v in f.items():
        if v and k != "kind":
            corr.count(f"saved registry ({proto}): {k}")
    if c["of"].startswith("wire-systematic") and f.get("kind"):
        kinds.setdefault(proto, set()).add(f["kind"])


def judge_roundtrip(corr: Corr, c: dict) -> None:
    """C13's statement on one case (registry c["nodes"], what save / load / the legacy spelling did: c13_impl)."""
    rp = c["replay"]
    shown = {**rp, "file": c.get("text", "")[:2000]}
    if c["save"] != "ok":
        corr.violate(f"save failed: {c['save']}", rp)
    elif not c["load"].startswith("ok "):
        corr.violate(f"a file written by save is not accepted by load: {c['load']}"
                     + (f" (json.loads: {c['unparsable']})" if c.get("unparsable") else ""), shown)
    else:
        why = same_registry(c["nodes"], c["loaded"])
        if why:
            corr.violate("save then load does not reproduce the registry: " + why, shown)
        if "legacy_load" not in c:
            corr.count("legacy spelling not derived (the saved file is not JSON for json.loads although load accepted it)")
        elif not c["legacy_load"].startswith("ok "):
            corr.violate(f"the pymysensors spelling of a saved file is rejected: {c['legacy_load']}",
                         {**rp, "legacy": json.dumps(c["legacy_value"])[:2000]})
        else:
            why = same_registry(c["loaded"], c["legacy_loaded"])
            if why:
                corr.violate("legacy and native layout load to different registries: " + why,
                             {**rp, "legacy": json.dumps(c["legacy_value"])[:2000]})


def run_c13(ctx) -> Corr:
    corr = Corr("C13", "registries reached by running wire histories on the real Gateway (boundary histories named by the "
                "property; systematic histories for each of the 5 versions, with the gateway's version known at start and not "
                "known: an id request as the first message, every handler the generated tables list for that version - node/"
                "child presentation, set, req, every internal type with a handler, every stream type - on the node that was "
                "handed an id and never presents itself, on a presented node, on the gateway's node and on an unregistered "
                "node, the version becoming known in between; then random histories over 5 versions), saved at the end AND "
                "inside the history (systematic / boundary / corpus: after every step that changed the registry; random: at "
                "one random step, two in the thorough tier; a registry already saved is not saved twice; whatever the registry holds - None, a value of "
                "another type - is rendered and judged, a registry the model's typed Registry cannot hold by the oracle alone), "
                "and directly constructed registries (boundary content: "
                "negative/huge/digit-limit integers, empty/non-ASCII/control-character strings, unsorted insertion order; "
                "strings that look like the file format - fragments of JSON / comment / escape syntax such as a comma before a "
                "closing brace or bracket, braces, quotes, backslashes, spelt-out escapes, literals, comment openers, line "
                "breaks, a byte order mark, alone, embedded in ordinary text, with outer blanks, doubled, very long, whole "
                "documents in the file's own layout, random assemblies - in every string position of a registry (protocol "
                "version, sketch name, sketch version, description, value), packed eight to a registry and one in every "
                "position at once, built directly AND received as payloads of node / child presentation, sketch name / "
                "version and set messages), "
                "each saved by the real Persistence.save to a real file and loaded by the real Persistence.load into an "
                "empty dict; oracle = every attribute the property lists is reproduced with the same type, and the "
                "pymysensors spelling of the saved file loads to the same registry; model compared on: the saved JSON "
                "value, RegOK, load(file value), load(save r), legacyOf, load(legacy); plus out-of-domain registries "
                "(model vs implementation only) and the two repository fixtures; the JSON text layer: the bytes of every "
                "saved file vs JsonText.render of the sorted dump (saveText) byte for byte, json.loads of the file vs "
                "JsonText.parse (member order included), json.dumps(sort_keys / insertion order, indent=2) of str-keyed "
                "values vs dumpsSorted / render, RealOK vs its restatement, and json.loads vs JsonText.parse on "
                "hand-written edge texts (whitespace, escapes, surrogates, duplicate keys, leading zeros, digit limit, "
                "trailing commas, comments, NaN), on every proper prefix of several saved files, on single-character "
                "edits of saved files and on valid / invalid UTF-8 (texts the model calls unsupported - real literals, "
                "lone surrogates - are skipped); sessions: ONE real Gateway with a real persistence file on the ordinary "
                "event loop (clock movable), whose own Persistence object saves repeatedly - the save a missing file causes, "
                "the scheduled save at start and after each save interval, explicit saves, the save on exit, leaving and "
                "re-entering the context - with traffic in between: systematically every kind of registry-changing message "
                "(node/gateway/child presentation, new and changed; values; battery; sketch; id request; heartbeat; "
                "pre-sleep; messages from unknown nodes/children) x every context (plain, reboot requested, version "
                "unknown, asleep with buffered commands) x every way the step can end (handled, rejected after the change, "
                "1st/2nd write failing or cancelled), and random histories with faults; oracle after EVERY completed save: "
                "a copy of the file loads into an empty registry to exactly the registry the gateway holds; model compared "
                "per save point on the file's bytes (saveText) and load (save r); sessions that are LEFT WHILE a scheduled save "
                "(at start / after a save interval) is in flight: one file operation of that save (every one it submits to the "
                "thread pool, as counted on this run) is held before it starts or after it took effect, the registry changes "
                "meanwhile (serialised text shorter / longer / same length; the first session without a file; random traffic), "
                "the context is left, the held operation is let through; oracle: once every pending file operation has "
                "completed a copy of the file loads to exactly the registry held at exit, and no save is still running when "
                "leaving returned. non-trivial = registry has a child, a "
                "value, a non-default attribute, or lies outside the domain; a session is non-trivial when its Persistence "
                "object saved two different non-empty registries; a session left during a save is non-trivial when the save was held "
                "where planned and the registry changed while it was held")
    corr._model_ok = ctx.model_ok
    rng = lib.rng_for(ctx.seed, "c13")
    cases = []

    async def prepare():
        seen: set = set()

        async def wire(label: str, h: gw.Hist, points) -> None:
            """The registry at the end of the history and the registries at its save points: one case each (a registry
            that was already saved - the same rendering - is not saved again)."""
            final, snaps, facts_end = await run_history(h, points)
            last = render_nodes(final)
            for step, nodes, facts in snaps:
                key = render_nodes(nodes)
                if step == len(h.ops) or key == last or key in seen:
                    corr.count("save point inside a history skipped (the same registry is saved elsewhere)")
                    continue
                seen.add(key)
                short = gw.Hist(h.version, h.metric, h.preload, h.ops[:step])
                cases.append({"label": label.split(":")[0], "nodes": nodes, "facts": facts, "of": label,
                              "replay": {"roundtrip": "history", "history": short.to_json(), "label": label, "save_after_step": step},
                              "domain": True, "inner": True})
            if not (points == "all" and last in seen):
                seen.add(last)
                cases.append({"label": label.split(":")[0], "nodes": final, "facts": facts_end, "of": label,
                              "replay": {"roundtrip": "history", "history": h.to_json(), "label": label, "save_after_step": len(h.ops)},
                              "domain": True})

        for c in lib.load_corpus("C13"):
            h = gw.Hist.from_json(c["history"])
            await wire("corpus:" + c["_file"], h, "all")
        for label, h, points in wire_histories(rng, ctx.tier, lib.rng_for(ctx.seed, "c13-save-points")):
            await wire(label, h, points)
        for label, reg in direct_registries(rng, ctx.tier):
            cases.append({"label": "direct:" + label, "nodes": reg, "replay": None, "domain": True})
        for label, reg in outside_registries():
            cases.append({"label": "outside:" + label, "nodes": reg, "replay": None, "domain": False})
        for c in cases:
            if c["replay"] is None:
                c["replay"] = {"roundtrip": "registry", "registry": describe(c["nodes"]), "label": c["label"]}
        await c13_impl(cases)

    asyncio.run(prepare())

    batch = Batch()
    kinds: dict = {}
    for c in cases:
        nodes = c["nodes"]
        corr.count(c["label"].split(":")[0] + (" (saved inside the history)" if c.get("inner") else ""))
        if "facts" in c:
            coverage_of_wire_case(corr, c, kinds)
        reachable = c["label"].split(":")[0] in ("corpus", "wire-boundary", "wire-random", "wire-systematic", "wire-tie-search", "wire-json-like")
        # ---- oracle (independent of the model)
        bad = ill_typed(nodes)
        if c["domain"]:
            flagged = len(corr.violations)
            judge_roundtrip(corr, c)
            if not in_domain(nodes):
                if not reachable:
                    raise RuntimeError("generator produced an out-of-domain registry: " + c["label"])
                if len(corr.violations) == flagged:
                    corr.violate("a registry reached from received messages is outside the domain of the round-trip theorem "
                                 "(declared attribute types / node id / battery level / printable integers)"
                                 + (f": {bad}" if bad else ""), {**c["replay"], "registry": describe(nodes)})
        nontrivial = (not c["domain"]) or bad is not None or any(
            n.children or n.battery_level or n.heartbeat or n.sleeping or n.sketch_name or n.sketch_version for n in nodes.values())
        corr.case(render_nodes(nodes), nontrivial, {"label": c["label"], "registry": render_nodes(nodes)[:300], "load": c.get("load", "")[:120]})
        # ---- model
        c["m"] = None
        if ctx.model_ok and c["save"] == "ok":
            if bad is not None or c["saved"] is None:
                # the model's Registry holds typed values only, its JSON parser is compared on texts json.loads accepts
                corr.count("unmodelled: a registry with an attribute of another type than declared / a saved file json.loads "
                           "rejects (judged by the oracle)")
                continue
            if reg_has_surrogate(nodes) or json_has_surrogate(c["saved"]):
                corr.count("unmodelled: lone surrogate")
                continue
            for op in reg_ops(nodes):
                batch.ask(op)
            if c.get("inner"):
                # a registry saved inside a history: the model is asked what the reachability theorems are about (the
                # registry is in RegOK, load (save r)); the file-value and text questions are asked at the histories' ends
                c["m_inner"] = {"regok": batch.ask("regok"), "loadsave": batch.ask("loadsave")}
                continue
            c["m"] = {"save": batch.ask("save"), "regok": batch.ask("regok"), "loadsave": batch.ask("loadsave"),
                      "load": batch.ask("load " + json_tokens(c["saved"])), "legacy": batch.ask("legacy " + json_tokens(c["saved"])),
                      "legacy_load": batch.ask("load " + json_tokens(c["legacy_value"])),
                      "savetext": batch.ask("savetext"), "realok": batch.ask("realok"),
                      "jparse": batch.ask("jparse " + hexb(c["bytes"]))}
            text_i = corr.dist.get("text layer: files", 0)
            corr.count("text layer: files")
            if text_i % 3 == 0 and len(c["bytes"]) < 20000:     # generic values: str keys sort as strings, insertion order kept
                c["m"]["jdumps"] = batch.ask("jdumps " + json_tokens(c["saved"]))
                c["m"]["jrender"] = batch.ask("jrender " + json_tokens(c["legacy_value"]))
    for proto, ks in sorted(kinds.items()):
        corr.count(f"{proto}: kinds of message (command/type) after which the registry changed and was saved: "
                   + " ".join(sorted(ks, key=lambda x: [int(y) if y.isdigit() else -1 for y in x.split('/')])))
    # fixtures
    fx = {}
    for name in ("test_aiomysensors_persistence.json", "test_pymysensors_persistence.json"):
        p = os.path.join(FIXTURES, name)
        if os.path.exists(p):
            out, nodes = asyncio.run(impl_load(p))
            with open(p, encoding="utf-8") as f:
                val = json.load(f)
            fx[name] = (out, nodes, batch.ask("load " + json_tokens(val)) if ctx.model_ok else None)
            corr.count("fixture")
    if len(fx) == 2:
        (o1, n1, _), (o2, n2, _) = fx.values()
        if not (o1.startswith("ok ") and o2.startswith("ok ")):
            corr.violate("a repository fixture is rejected by load", {"native": o1, "legacy": o2})
        else:
            why = same_registry(n1, n2)
            if why:
                corr.violate("the legacy and the native fixture load to different registries: " + why, {"native": o1, "legacy": o2})
        corr.case("fixtures:" + o1, True, {"label": "fixtures", "native": o1[:200], "legacy": o2[:200]})
    # sessions: several saves by the gateway's own Persistence object, traffic (also failing steps) in between
    import time as _t

    t_sessions = _t.time()
    pending = session_checks(ctx, corr, batch)
    corr.notes.append(f"session scenarios: {_t.time() - t_sessions:.1f} s on the implementation, {len(pending)} save points queued for the model")
    corr.notes.append("session scenarios (one Gateway with a persistence file; scheduled, explicit and exit saves with traffic in "
                      "between) are judged by the oracle at every completed save; a session, its saver task and its file are not "
                      "operations of the Lean model, which has no state between two saves: the model is compared per save point on "
                      "the file's bytes (saveText of the registry held) and on load (save r)")
    # sessions left while a scheduled save is in flight (held at each of its file operations)
    t_overlap = _t.time()
    pending_overlap = overlap_checks(ctx, corr, batch)
    pending += pending_overlap
    corr.notes.append(f"sessions left while a scheduled save is in flight: {_t.time() - t_overlap:.1f} s on the implementation, "
                      f"{len(pending_overlap)} files queued for the model")
    corr.notes.append("sessions left while a scheduled save is in flight (one file operation of that save held before it starts / "
                      "after it took effect, the registry changed meanwhile) are judged by the oracle alone as far as the schedule "
                      "is concerned: tasks, the thread pool and an open file are not operations of the persistence model's driver. "
                      "The file such a session leaves behind is compared with the model like every other save point (its bytes = "
                      "saveText of the registry held at exit; load (save r))")
    if not ctx.model_ok:
        return corr
    check_boolean_tables(corr)
    tc = text_checks(corr, batch, cases, lib.rng_for(ctx.seed, "c13-text"), ctx.tier)
    batch.run()
    tc.compare()
    session_compare(corr, batch, pending)
    for name, (out, _, h) in fx.items():
        if batch[h] != out:
            corr.disagree("fixture load", {"fixture": name, "impl": out, "model": batch[h]})
    for c in cases:
        m = c.get("m_inner")
        if m is None:
            continue
        rp = c["replay"]
        want = "1" if in_domain(c["nodes"]) else "0"
        if batch[m["regok"]] != want:
            corr.disagree("RegOK (model) vs the domain restated in Python", {**rp, "model": batch[m["regok"]], "python": want})
        ls = batch[m["loadsave"]]
        if ls.startswith("ok ") != c["load"].startswith("ok ") or (ls.startswith("ok ") and not same_reg_text(ls[3:], c["load"][3:])) \
                or (not ls.startswith("ok ") and ls != c["load"]):
            corr.disagree("load (save r)", {**rp, "impl": c["load"][:1500], "model": ls[:1500]})
    for c in cases:
        m = c["m"]
        if m is None:
            continue
        rp = c["replay"]
        # the text layer: the file's bytes are JsonText.render of the sorted dump, and JsonText.parse reads them as json.loads does
        if batch[m["savetext"]] != hexb(c["bytes"]):
            mt = bytes.fromhex(batch[m["savetext"]].replace("-", "")).decode("utf-8", "replace")
            k = next((i for i, (x, y) in enumerate(zip(mt, c["text"])) if x != y), min(len(mt), len(c["text"])))
            corr.disagree("text written by save (json.dumps sort_keys indent=2) vs saveText", {**rp, "first_difference_at": k,
                          "impl": c["text"][max(0, k - 60):k + 60], "model": mt[max(0, k - 60):k + 60]})
        pcls, pval = py_loads(c["text"])
        mcls, mval = model_parsed(batch[m["jparse"]])
        if mcls != pcls or (pcls == "ok" and not same_parsed(mval, pval)):
            corr.disagree("json.loads of the saved file vs JsonText.parse", {**rp, "impl": pcls, "model": batch[m["jparse"]][:600]})
        want = "1" if real_ok(c["nodes"]) else "0"
        if batch[m["realok"]] != want:
            corr.disagree("RealOK (model) vs its restatement in Python", {**rp, "model": batch[m["realok"]], "python": want})
        if "jdumps" in m:
            corr.count("text layer: generic dumps")
            want_t = json.dumps(c["saved"], sort_keys=True, indent=2)
            if batch[m["jdumps"]] != hexb(want_t.encode("utf-8")):
                corr.disagree("json.dumps(v, sort_keys=True, indent=2) of a str-keyed value vs dumpsSorted", {**rp, "impl": want_t[:800]})
            want_t = json.dumps(c["legacy_value"], indent=2)
            if batch[m["jrender"]] != hexb(want_t.encode("utf-8")):
                corr.disagree("json.dumps(v, indent=2) vs render", {**rp, "impl": want_t[:800]})
        if not jeq(parse_model_json(batch[m["save"]]), c["saved"]):
            corr.disagree("saved JSON value", {**rp, "impl": c["text"][:1500], "model": batch[m["save"]][:1500]})
        want = "1" if in_domain(c["nodes"]) else "0"
        if batch[m["regok"]] != want:
            corr.disagree("RegOK (model) vs the domain restated in Python", {**rp, "model": batch[m["regok"]], "python": want})
        if batch[m["load"]] != c["load"]:
            corr.disagree("load of the saved file", {**rp, "impl": c["load"][:1500], "model": batch[m["load"]][:1500]})
        ls = batch[m["loadsave"]]
        if ls.startswith("ok ") != c["load"].startswith("ok ") or (ls.startswith("ok ") and not same_reg_text(ls[3:], c["load"][3:])) \
                or (not ls.startswith("ok ") and ls != c["load"]):
            corr.disagree("load (save r)", {**rp, "impl": c["load"][:1500], "model": ls[:1500]})
        if not jeq(parse_model_json(batch[m["legacy"]]), c["legacy_value"]):
            corr.disagree("legacyOf", {**rp, "python": json.dumps(c["legacy_value"])[:1500], "model": batch[m["legacy"]][:1500]})
        if batch[m["legacy_load"]] != c["legacy_load"]:
            corr.disagree("load of the legacy spelling", {**rp, "impl": c["legacy_load"][:1500], "model": batch[m["legacy_load"]][:1500]})
    return corr


# ---- C13: replaying a case of a replay file ------------------------------------------------------


def replay(case: dict) -> int:
    """Re-executes a C13 case on the implementation and prints it: the message history step by step (or the
    constructed registry), the save, the file, the load of the file into an empty registry, the oracle's verdict; a
    session (one gateway with a persistence file) is run again with its trace.  Returns 1 when the violation shows."""
    c = Corr("C13", "replay")
    if case.get("roundtrip") in ("history", "registry"):
        async def go():
            if case["roundtrip"] == "history":
                h = gw.Hist.from_json(case["history"])
                trace: list = []
                nodes = await run_history(h, None, trace)
                print(f"history ({case.get('label', '')}): gateway version at start "
                      f"{'not known' if h.version is None else h.version}, {len(h.ops)} steps, saved after the last one")
                for line in trace:
                    print("  " + line)
            else:
                nodes = build(case["registry"])
                print("registry constructed directly:", render_nodes(nodes)[:1500])
            cc = {"label": "replay", "nodes": nodes, "replay": {}, "domain": True}
            await c13_impl([cc])
            return cc

        cc = asyncio.run(go())
        print("registry held     :", render_nodes(cc["nodes"])[:1500])
        print("  (attributes)    :", json.dumps(describe(cc["nodes"]), default=str)[:1500])
        print("Persistence.save  :", cc["save"])
        if "text" in cc:
            print("file written      :", cc["text"][:1500])
            print("Persistence.load  :", cc.get("load", "")[:1500], "(into an empty registry, fresh Persistence object)")
            if "legacy_load" in cc:
                print("pymysensors layout:", cc["legacy_load"][:300])
        judge_roundtrip(c, cc)
        bad = ill_typed(cc["nodes"])
        if not c.violations and not in_domain(cc["nodes"]):
            c.violate("the registry is outside the domain of the round-trip theorem" + (f": {bad}" if bad else ""), {})
    elif "session" in case and "hold" in case["session"]:
        sc = {"label": case.get("scenario", "replay"), **case["session"]}
        res = asyncio.run(run_overlap(sc), loop_factory=GateLoop)
        for line in res["trace"]:
            print("  " + line)
        if res["why"]:
            c.violate(res["why"], {})
    elif "session" in case:
        sc = {"label": case.get("scenario", "replay"), **case["session"]}
        res = asyncio.run(run_session(sc), loop_factory=ClockLoop)
        for line in res["trace"]:
            print("  " + line)
        for p in res["points"]:
            if p["observed"]:
                print(f"  save point {p['nth']} ({p['kind']}, step {p['step']}): save {p['save']}; load of a copy of the file: "
                      f"{p.get('load', 'no file')[:200]}" + (f"; {p['why']}" if p.get("why") else ""))
        bad = session_failure(res)
        if bad:
            c.violate(bad[1], {})
        elif any(p["observed"] and not p["domain"] for p in res["points"]):
            c.violate("a registry reached from received messages is outside the domain of the round-trip theorem", {})
    else:
        print(json.dumps(case, indent=1, default=str)[:4000])
        print("(not a re-executable C13 case)")
        return 0
    print("oracle:", "held" if not c.violations else "VIOLATED - " + "; ".join(v["what"] for v in c.violations))
    return 1 if c.violations else 0


# ---- C14 -----------------------------------------------------------------------------------------


def classify(data: bytes):
    """bytes -> (FileState name, parsed value or None); the parser itself is the real json.loads."""
    try:
        text = data.decode("utf-8")
    except UnicodeDecodeError:
        return "undecodable", None
    if text == "":
        return "empty", None
    try:
        return "value", json.loads(text)
    except json.JSONDecodeError:
        return "notJson", None
    except RecursionError:
        return "tooDeep", None
    except ValueError:
        return "hugeInt", None


def sample_registry() -> dict:
    a = Node(0, 18, "2.2.0")
    b = Node(1, 17, "2.3.2", sketch_name="GPS é", sketch_version="1.0", battery_level=57, heartbeat=12, sleeping=True)
    b.children[1] = Child(1, 38, description="pos", values={49: "40.7,-73.9,12", 2: "on"})
    b.children[0] = Child(0, 6)
    return {0: a, 1: b}


# ---- C14: the directory around the persistence file ---------------------------------------------
#
# The property speaks about "loading" as a whole, observed at Persistence.load / Gateway.__aenter__: whatever load
# decides to read must fail with PersistenceReadError only.  Files next to the persistence file (a backup, a temporary
# file of an interrupted write, a lock, an editor's copy) are ignored by the code the model was written against; a
# load that consults them (fallback, recovery, locking) is held to the same statement.  The scenarios below place
# such files, in every content class of the property, next to a persistence file that is missing, empty, valid or
# damaged.  The Lean model has no sibling files: where it is compared, the comparison says that the outcome is the
# one of the persistence file alone.

MAIN_NAME = "mysensors.json"
DIRECTORY = "<directory>"        # content marker: the entry is a directory, not a file


class IdleTransport(Transport):
    """Connects to nothing and never delivers a line."""

    async def connect(self) -> None:
        pass

    async def disconnect(self) -> None:
        pass

    async def read(self) -> str:
        await asyncio.Event().wait()
        return ""

    async def write(self, decoded_message: str) -> None:
        pass


def sibling_names(name: str) -> list[tuple[str, str]]:
    """(kind, file name): the usual names of a backup / temporary / lock / editor file kept next to `name`."""
    stem, ext = os.path.splitext(name)
    out = [(f"<file>{sfx}", name + sfx) for sfx in (".bak", ".tmp", ".lock", "~", ".old", ".new", ".backup", ".orig", ".1", ".swp", ".part", ".save")]
    out += [(f"<stem>{sfx}", stem + sfx) for sfx in (".bak", ".tmp", ".lock")]
    out += [(f"<stem>{mid}<ext>", stem + mid + ext) for mid in (".bak", ".tmp", "-backup", ".old")]
    out += [(".<file>", "." + name), (".<file>.tmp", "." + name + ".tmp"), (".<file>.swp", "." + name + ".swp"), (".<file>.lock", "." + name + ".lock"),
            ("#<file>#", "#" + name + "#"), ("~<file>", "~" + name)]
    return out


def file_contents(good: bytes, other: bytes) -> list[tuple[str, object]]:
    """(label, bytes or DIRECTORY): one content per class named by the property, read/parse-stage failures first."""
    cut = good.rindex(b'"', 0, len(good) // 2)      # inside a string literal
    return [
        ("truncated", good[:len(good) // 2]),
        ("undecodable", good[:cut] + b"\xff\xfe" + good[cut:]),
        ("deep nesting", b"[" * 100000),
        ("directory", DIRECTORY),
        ("huge integer", b'{"1": ' + b"9" * (MAXD + 1) + b"}"),
        ("truncated by one byte", good[:-1]),
        ("not JSON", b"bad content"),
        ("undecodable start", b"\xff\xfe" + good),
        ("deep objects", b'{"a":' * 100000),
        ("wrong shape: array", b"[]"),
        ("wrong shape: number", b"12345\n"),            # what a lock file holding a process id looks like
        ("wrong shape: record", b'{"1": 5}'),
        ("wrong shape: child", b'{"1": {"node_id": 1, "node_type": 17, "protocol_version": "2.0", "children": {"1": 5}}}'),
        ("missing field", b'{"1": {"node_id": 1}}'),
        ("out of range", b'{"1": {"node_id": 1, "node_type": 17, "protocol_version": "2.0", "battery_level": 150}}'),
        ("unknown field", b'{"1": {"node_id": 1, "node_type": 17, "protocol_version": "2.0", "extra": 1}}'),
        ("empty", b""),
        ("whitespace", b" \n"),
        ("valid", good),
        ("valid, other registry", other),
    ]


def main_states(good: bytes) -> list[tuple[str, object]]:
    return [("missing", None), ("empty", b""), ("valid", good), ("truncated", good[:len(good) // 2]), ("undecodable", b"\xff\xfe" + good),
            ("wrong shape", b'{"1": 5}'), ("deep nesting", b"[" * 100000), ("directory", DIRECTORY)]


def shown(data) -> str:
    if data is None or isinstance(data, str):
        return str(data)
    return data[:200].decode("utf-8", "replace") + (f"… ({len(data)} bytes)" if len(data) > 200 else "")


def place(path: str, data) -> None:
    if data is None:
        return
    if isinstance(data, str):      # DIRECTORY
        os.mkdir(path)
        return
    with open(path, "wb") as f:
        f.write(data)


def snapshot(path: str):
    if os.path.isfile(path):
        with open(path, "rb") as f:
            return f.read()
    return None


async def sessions_leave(k: int, via: str, reg_of) -> dict:
    """Run k ordinary sessions on a fresh directory; return {file name: bytes} of everything the library left there
    besides the persistence file itself (nothing, for the code the model was written against)."""
    d = fresh_path(".sessions")
    os.mkdir(d)
    p = os.path.join(d, MAIN_NAME)
    try:
        for i in range(k):
            if via == "gateway":
                g = Gateway(IdleTransport(), Config(persistence_file=p))
                async with g:
                    for key, n in reg_of(i).items():
                        g.nodes[key] = n
                    await asyncio.sleep(0)
            else:
                nodes: dict = {}
                pers = Persistence(nodes, p)
                await pers.load()
                nodes.update(reg_of(i))
                await pers.save()
        left = {}
        for name in sorted(os.listdir(d)):
            if name != MAIN_NAME:
                q = os.path.join(d, name)
                left[name] = snapshot(q) if os.path.isfile(q) else DIRECTORY
        return left
    finally:
        shutil.rmtree(d, ignore_errors=True)


def dir_scenarios(rng, tier: str, good: bytes, other: bytes, left: dict) -> list[dict]:
    """Directory scenarios: {main: (label, content), siblings: [(kind, name, label, content)], into: bool, via}."""
    names = [("left by the library's own sessions", n) for n in left] + [x for x in sibling_names(MAIN_NAME) if x[1] not in left]
    contents = file_contents(good, other)
    mains = main_states(good)
    out = []
    # (a) one sibling: every name x every content with the persistence file missing; the other main states take every
    #     name with a rotating fifth of the contents (quick tier) or all of them (thorough); names the library itself
    #     uses are never thinned out.  Quick tier: the two entry points alternate; thorough: both
    for mi, (mlabel, mdata) in enumerate(mains):
        for ni, (kind, name) in enumerate(names):
            for ci, (clabel, cdata) in enumerate(contents):
                if tier == "quick" and mdata is not None and name not in left and (ci + ni + mi) % 5 != 0:
                    continue
                vias = ("load", "gateway") if (name in left or tier == "thorough") else (("load", "gateway")[(mi + ni + ci) % 2],)
                for via in vias:
                    out.append({"main": (mlabel, mdata), "siblings": [(kind, name, clabel, cdata)], "into": rng.random() < 0.4, "via": via,
                                "newer": True, "label": "sibling"})
    # (b) what the library's own sessions left behind, all of it damaged in the same way at once (a crash)
    if left:
        for mlabel, mdata in mains:
            for clabel, cdata in contents:
                sibs = [("left by the library's own sessions", n, clabel, cdata) for n in left]
                out.append({"main": (mlabel, mdata), "siblings": sibs, "into": False, "via": "gateway", "newer": True, "label": "crash"})
            for clabel, dmg in (("as the library left it", lambda b: b), ("as left, cut in half", lambda b: b[:len(b) // 2]),
                                ("as left, cut by one byte", lambda b: b[:-1]), ("as left, undecodable", lambda b: b"\xff\xfe" + b),
                                ("as left, emptied", lambda b: b"")):
                sibs = [("left by the library's own sessions", n, clabel, dmg(b) if isinstance(b, bytes) else b) for n, b in left.items()]
                for via in ("load", "gateway"):
                    out.append({"main": (mlabel, mdata), "siblings": sibs, "into": False, "via": via, "newer": True, "label": "crash"})
    # (c) several siblings at once, random
    for _ in range(200 if tier == "quick" else 2500):
        mlabel, mdata = mains[0] if rng.random() < 0.5 else rng.choice(mains)
        sibs = []
        for kind, name in rng.sample(names, rng.randint(2, 5)):
            clabel, cdata = rng.choice(contents)
            sibs.append((kind, name, clabel, cdata))
        out.append({"main": (mlabel, mdata), "siblings": sibs, "into": rng.random() < 0.4, "via": rng.choice(["load", "gateway"]),
                    "newer": rng.random() < 0.5, "label": "siblings"})
    return out


async def run_dir_case(c: dict) -> None:
    """Materialise the directory, load once (Persistence.load or Gateway.__aenter__), record what happened."""
    d = fresh_path(".dir")
    os.mkdir(d)
    p = os.path.join(d, MAIN_NAME)
    try:
        mdata = c["main"][1]
        place(p, mdata)
        for _kind, name, _clabel, cdata in c["siblings"]:
            q = os.path.join(d, name)
            place(q, cdata)
            if not c["newer"] and mdata is not None:
                os.utime(q, (1_000_000_000, 1_000_000_000), follow_symlinks=False)      # older than the persistence file
        cur = sample_registry() if c["into"] else {}
        c["before"] = render_nodes(cur)
        c["pre_ops"] = reg_ops(cur)
        c["exit"] = None
        if c["via"] == "load":
            c["out"], nodes = await impl_load(p, cur)
            c["snap"] = snapshot(p)
        else:
            g = Gateway(IdleTransport(), Config(persistence_file=p))
            g.nodes.update(cur)
            nodes = g.nodes
            try:
                await g.__aenter__()
            except BaseException as e:  # noqa: BLE001
                c["out"] = outcome_of(e)
                c["snap"] = snapshot(p)
            else:
                # observed before the save task got to run: what load itself did
                c["snap"] = snapshot(p)
                c["out"] = "ok " + render_nodes(nodes)
                try:
                    await g.__aexit__(None, None, None)
                except BaseException as e:  # noqa: BLE001
                    c["exit"] = outcome_of(e)
        c["nodes"] = nodes
        c["back"], c["loaded"] = None, None
        if mdata is None and c["snap"] is not None:
            # what the created file holds, read in a directory of its own
            q = fresh_path()
            with open(q, "wb") as f:
                f.write(c["snap"])
            c["back"], c["loaded"] = await impl_load(q)
            os.unlink(q)
    finally:
        shutil.rmtree(d, ignore_errors=True)


def dir_case_record(c: dict) -> dict:
    """The replayable description of a directory scenario."""
    mlabel, mdata = c["main"]
    steps = [f"a directory holds {MAIN_NAME}: {mlabel}" if mdata is not None else f"a directory holds no {MAIN_NAME}"]
    for kind, name, clabel, cdata in c["siblings"]:
        steps.append(f"and {name} ({kind}): {clabel}" + ("" if c["newer"] or mdata is None else ", modified earlier than the persistence file"))
    steps.append(("Persistence(nodes, path).load()" if c["via"] == "load" else "async with Gateway(transport, Config(persistence_file=path))")
                 + (" with an empty registry" if c["before"] == "[]" else " with the registry given under 'into'"))
    steps.append("-> " + c["out"][:300])
    return {"label": "directory:" + c["label"], "steps": steps, "path": MAIN_NAME, "main": {"state": mlabel, "bytes": shown(mdata)},
            "siblings": [{"name": name, "content": clabel, "bytes": shown(cdata)} for _k, name, clabel, cdata in c["siblings"]],
            "into": c["before"], "via": c["via"], "outcome": c["out"][:600]}


def judge_dir_case(corr: Corr, c: dict) -> None:
    """C14 restated for a directory: load succeeds or raises PersistenceReadError, nothing else; a missing persistence
    file is not an error and is created holding the current registry; an empty one loads as an empty registry."""
    mlabel, mdata = c["main"]
    out = c["out"]
    case = dir_case_record(c)
    if not (out.startswith("ok ") or out.startswith("err persistenceRead")):
        corr.violate(f"load raised something other than PersistenceReadError: {out}", case)
    elif mdata is None:
        if not out.startswith("ok "):
            corr.violate(f"a missing persistence file is an error: {out}", case)
        elif c["snap"] is None:
            corr.violate("a missing persistence file was not created", case)
        elif not c["back"].startswith("ok ") or same_registry(c["nodes"], c["loaded"]):
            corr.violate("the file created for a missing path does not hold the current registry: "
                         + (c["back"] if not c["back"].startswith("ok ") else str(same_registry(c["nodes"], c["loaded"]))),
                         {**case, "file": c["snap"][:1500].decode("utf-8", "replace")})
    elif mdata == b"" and out != "ok " + c["before"]:
        corr.violate(f"an empty file did not load as an empty registry: {out}", case)
    if c["exit"] is not None:
        corr.notes.append(f"leaving the gateway context after a directory scenario raised {c['exit']} ({case['steps']})")


def run_c14(ctx) -> Corr:
    corr = Corr("C14", "real files written to the scratch directory and loaded by the real Persistence.load: corpus, every "
                "byte prefix of valid files (native, legacy, non-ASCII), every single-position mutation of valid file "
                "values at every nesting level (replacement by null/bool/int/real/NaN/string/array/object values, member "
                "removed, member added, key renamed), random JSON values (node-/child-shaped and arbitrary), "
                "undecodable bytes, integer literals beyond the digit limit, nesting 100000 deep and 200-600 deep, missing "
                "file, missing parent directory, empty file, a directory as path, loads into a non-empty registry; directories "
                "in which sibling files (backup / temporary / lock / editor-copy names, and every file the library's own "
                "sessions leave behind) with truncated / undecodable / deeply nested / wrong-shape / empty / valid content "
                "or a directory in their place stand next to a missing / empty / valid / damaged persistence file, loaded "
                "through Persistence.load and through Gateway.__aenter__ (one sibling: every name x content; several at "
                "once: random); histories of a whole process (persist_loops.py): several Persistence / Gateway objects on one "
                "or two shared paths, one operation (save / load / entering / leaving a gateway context) held at each of its "
                "file operations (before it starts / after it took effect) while loads, enters and saves of OTHER objects on "
                "the same path are started, the same contention repeated under two to four successive event loops of this "
                "process (asyncio.run each), quiet loops before / between, objects created per loop or once per process, "
                "every load judged (holder, contender, later quiet ones; loads with nothing else in flight also compared "
                "with the model on the bytes the file held); the same files (all valid / special ones, a rotating part of the "
                "prefixes / mutations / random values, a missing file) loaded in fresh interpreters in which an APPLICATION has "
                "defined classes of its own (persist_env.py): marshmallow schemas named like the library's NodeSchema / "
                "ChildSchema / MessageSchema in modules of its own (before / after the library is imported, between two rounds of "
                "loads), subclasses of the library's schemas and of its model / persistence / gateway / exception classes under "
                "the same and under other names, unregistered look-alikes, DEBUG logging, the event loop in debug mode, earlier "
                "use of the library's schemas; every such load judged and compared with the model's outcome for the same bytes; "
                "oracle = the outcome is success or PersistenceReadError, a missing file is created holding the current "
                "registry, an empty file gives an empty registry; model compared on outcome, the class raised inside, and "
                "the registry of successful loads, both with the file state classified by the harness (real json.loads) "
                "and from the file's BYTES through the modelled UTF-8 decoder and JSON parser (JsonText.classify; quick "
                "tier: every prefix / special file, every fourth mutation / random value; real literals and lone "
                "surrogates are outside the modelled fragment and skipped). non-trivial = the file is valid JSON (the "
                "schema interpreter ran) or a distinct file state")
    rng = lib.rng_for(ctx.seed, "c14")
    files: list[tuple[str, bytes, dict | None]] = []     # (label, bytes, registry to load into or None)

    for c in lib.load_corpus("C14"):
        data = (c["repeat"][0] * c["repeat"][1] if "repeat" in c else c["text"]).encode("utf-8")
        files.append(("corpus", data, None))

    # valid base files
    async def texts():
        out = []
        for reg in (sample_registry(), direct_registries(lib.rng_for(ctx.seed, "c14-base"), "quick")[2][1]):
            p = fresh_path()
            saved = await impl_save(p, reg)
            data = snapshot(p)
            if saved != "ok" or data is None or py_loads(data.decode("utf-8", "replace"))[0] != "ok":
                # C14 is about load: when this tree's save does not give a valid file, the base files are written here
                corr.notes.append(f"base file written by the harness (this tree's save: {saved})")
                data = json.dumps(native_value(reg), sort_keys=True, indent=2).encode("utf-8")
            out.append(data)
            if os.path.exists(p):
                os.unlink(p)
        return out

    base_texts = asyncio.run(texts())
    for name in ("test_aiomysensors_persistence.json", "test_pymysensors_persistence.json"):
        p = os.path.join(FIXTURES, name)
        if os.path.exists(p):
            with open(p, "rb") as f:
                base_texts.append(f.read())
    base_texts.append(json.dumps(json.loads(base_texts[1]), ensure_ascii=False).encode("utf-8"))   # raw UTF-8, compact
    for t in base_texts:
        step = 1 if ctx.tier == "thorough" else (2 if len(t) < 1000 else 5)
        for i in range(0, len(t), step):
            files.append(("prefix", t[:i], None))
        files.append(("valid", t, None))

    # mutations
    bases = [json.loads(base_texts[0]), legacy_of(json.loads(base_texts[0]))]
    if ctx.tier == "thorough":
        bases.append(json.loads(base_texts[1]))
    for bi, base in enumerate(bases):
        # quick tier: the full replacement pool on the native file, every third value on the legacy spelling
        pool = None if (ctx.tier == "thorough" or bi == 0) else MUT_VALUES[(ctx.seed % 3)::3]
        for kind, _path, v in mutations(base, pool):
            files.append(("mutation:" + kind, json.dumps(v).encode("utf-8"), None))

    # random values
    for _ in range(1000 if ctx.tier == "quick" else 40000):
        files.append(("random", json.dumps(random_file_value(rng)).encode("utf-8"), None))

    # special file states
    files.append(("undecodable", b"\xff\xfe{}", None))
    files.append(("undecodable", b'{"1": "\xe9"}', None))
    files.append(("undecodable", "é".encode("utf-8")[:1], None))
    files.append(("bom", b"\xef\xbb\xbf{}", None))
    files.append(("hugeInt", b'{"1": ' + b"9" * (MAXD + 1) + b"}", None))
    files.append(("hugeInt", b"1" * 5000, None))
    files.append(("deep", b"[" * 100000, None))
    files.append(("deep", b"[" * 100000 + b"]" * 100000, None))
    files.append(("deep", b'{"a":' * 100000, None))
    for d in (200, 400, 600):
        files.append(("nested", b"[" * d + b"]" * d, None))
        files.append(("nested", b'{"1":' * d + b"1" + b"}" * d, None))
        files.append(("nested", b'{"1":{"node_id":1,"node_type":1,"protocol_version":"","children":' + b'{"1":' * d + b"1" + b"}" * d + b"}}", None))
    files.append(("empty", b"", sample_registry()))
    files.append(("empty", b"", None))
    files.append(("whitespace", b" \n", None))
    files.append(("literal", b"{}", None))
    files.append(("literal", b"NaN", None))
    files.append(("literal", b'{"1": {"node_id": 1, "node_type": Infinity, "protocol_version": "x"}}', None))
    # loads into a registry that already holds nodes (a failing record leaves earlier ones loaded)
    two = json.dumps({"a": {"node_id": 5, "node_type": 1, "protocol_version": "p"}, "b": {"node_id": 0, "node_type": 2, "protocol_version": "q"},
                      "c": 5}).encode()
    files.append(("into-nonempty", two, sample_registry()))
    files.append(("into-nonempty", base_texts[0], sample_registry()))
    files.append(("into-nonempty", json.dumps({"b": {"node_id": 1, "node_type": 2, "protocol_version": "q"}}).encode(), sample_registry()))

    results = []

    # the same files in processes that are not the library's alone (persist_env.py): fresh interpreters in which an
    # application has defined classes of its own; started here, they run beside the rest of this run
    from . import persist_env

    env_started = persist_env.start(ctx, files, [describe(cur) if cur else None for _l, _d, cur in files], describe(sample_registry()))

    async def impl():
        for label, data, cur in files:
            p = fresh_path()
            with open(p, "wb") as f:
                f.write(data)
            before = render_nodes(cur) if cur is not None else "[]"
            out, nodes = await impl_load(p, cur)
            results.append((out, before))
            os.unlink(p)
        # missing file: created holding the current registry
        special = []
        for cur in ({}, sample_registry()):
            p = fresh_path()
            before = render_nodes(cur)
            out, nodes = await impl_load(p, cur)
            created = None
            if os.path.exists(p):
                created = snapshot(p).decode("utf-8", "replace")
                back, loaded = await impl_load(p)
                os.unlink(p)
            else:
                back, loaded = "no file", {}
            special.append(("missing", cur, before, out, created, back, loaded))
        # a directory as the path; a missing parent directory
        d = fresh_path(".dir")
        os.mkdir(d)
        out, _ = await impl_load(d, {})
        special.append(("unreadable", {}, "[]", out, None, None, None))
        out, _ = await impl_load(os.path.join(d, "no-such-dir", "x.json"), {})
        special.append(("missing-parent", {}, "[]", out, None, None, None))
        os.rmdir(d)
        return special

    special = asyncio.run(impl())

    # the directory around the file: sibling files (backup / temporary / lock / editor copies, and whatever the library's
    # own sessions leave behind) in every content class, next to a missing / empty / valid / damaged persistence file
    async def dirs():
        left: dict = {}
        for k, via in ((1, "load"), (2, "load"), (3, "load"), (2, "gateway"), (3, "gateway")):
            left.update(await sessions_leave(k, via, lambda i: sample_registry() if i % 2 == 0 else {2: Node(2, 17, "2.0")}))
        cases = dir_scenarios(lib.rng_for(ctx.seed, "c14-dir"), ctx.tier, base_texts[0], base_texts[1], left)
        for c in cases:
            await run_dir_case(c)
        return left, cases

    left, dir_cases = asyncio.run(dirs())
    corr.count("directory: files the library's own sessions left next to the persistence file", len(left))
    corr.notes.append("directory scenarios (sibling files next to the persistence file): judged by C14's oracle; the Lean model has no "
                      "operation for sibling files, so the model is asked for the outcome of the persistence file ALONE (file <state> / "
                      "loadinto) and the comparison says that sibling files do not change the outcome; files left by the library's own "
                      f"sessions on this tree: {sorted(left) or 'none'}")

    batch = Batch()
    # the same loads in a process with a past: several Persistence / Gateway objects on one path, loads overlapping saves,
    # repeated under several event loops of this process (persist_loops.py)
    from . import persist_loops

    loop_pending = persist_loops.loop_checks(ctx, corr, batch, base_texts[0])
    handles = []
    byte_handles = []
    for (label, data, cur), (out, before) in zip(files, results):
        bh = None
        corr.count(label)
        state, val = classify(data)
        corr.count("state:" + state)
        case = {"label": label, "bytes": (data[:400].decode("utf-8", "replace") + ("…" if len(data) > 400 else "")), "length": len(data),
                "into": before}
        # ---- oracle
        if not (out.startswith("ok ") or out.startswith("err persistenceRead")):
            corr.violate(f"load raised something other than PersistenceReadError: {out}", case)
        if state == "empty" and out != "ok " + before:
            corr.violate(f"an empty file did not load as an empty registry: {out}", case)
        corr.count("outcome:" + " ".join(out.split(" ")[:3]) if not out.startswith("ok") else "outcome:ok")
        corr.case((state, out) if state != "value" else data.decode("utf-8"), state == "value",
                  {"label": label, "file": case["bytes"][:160], "outcome": out[:160]})
        # ---- model
        h = None
        if ctx.model_ok:
            if state == "value":
                if json_has_surrogate(val):
                    corr.count("unmodelled: lone surrogate")
                elif json_depth(val) > 700:
                    corr.count("unmodelled: depth > 700 (harness encoder)")
                else:
                    pre = reg_ops(cur) if cur is not None else ["rnew"]
                    for op in pre:
                        batch.ask(op)
                    h = batch.ask("loadinto " + json_tokens(val))
            else:
                pre = reg_ops(cur) if cur is not None else ["rnew"]
                for op in pre:
                    batch.ask(op)
                h = batch.ask("file " + state)
            # the same file from its BYTES: the modelled UTF-8 decoder and JSON parser in place of the harness's classification
            if h is not None and state != "tooDeep" and len(data) <= 20000 and (ctx.tier == "thorough" or not (label.startswith("mutation") or label == "random") or len(handles) % 4 == 0):
                bh = batch.ask("bload " + hexb(data))
        handles.append((h, state))
        byte_handles.append(bh if ctx.model_ok else None)

    sp_handles = []
    for kind, cur, before, out, created, back, loaded in special:
        corr.count(kind)
        case = {"label": kind, "into": before}
        if kind == "missing":
            if out != "ok " + before:
                corr.violate(f"a missing file is an error or changed the registry: {out}", case)
            elif created is None:
                corr.violate("a missing file was not created", case)
            elif not back.startswith("ok ") or same_registry(cur, loaded):
                corr.violate("the file created for a missing path does not hold the current registry: "
                             + (back if not back.startswith("ok ") else str(same_registry(cur, loaded))), {**case, "file": created[:1500]})
        elif kind == "unreadable":
            if not out.startswith("err persistenceRead"):
                corr.violate(f"an unreadable path raised something other than PersistenceReadError: {out}", case)
        else:
            corr.notes.append(f"missing parent directory (the file cannot be created; outside C14's quantifier): load -> {out}")
        corr.case((kind, out, before), True, {"label": kind, "outcome": out[:160]})
        if ctx.model_ok and kind in ("missing", "unreadable"):
            for op in reg_ops(cur):
                batch.ask(op)
            sp_handles.append(batch.ask("file " + kind))
        else:
            sp_handles.append(None)

    dir_handles = []
    for c in dir_cases:
        mlabel, mdata = c["main"]
        out = c["out"]
        corr.count("directory:" + c["label"])
        corr.count("directory main:" + mlabel)
        corr.count("directory via:" + ("Persistence.load" if c["via"] == "load" else "Gateway.__aenter__"))
        for _kind, _name, clabel, _cdata in c["siblings"]:
            corr.count("directory sibling:" + clabel)
        corr.count("directory outcome:" + (" ".join(out.split(" ")[:3]) if not out.startswith("ok") else "ok"))
        # ---- oracle
        judge_dir_case(corr, c)
        rec = dir_case_record(c)
        corr.case(("directory", mlabel, tuple((name, clabel) for _k, name, clabel, _d in c["siblings"]), c["via"], c["into"], c["newer"]),
                  bool(c["siblings"]), {"label": rec["label"], "steps": rec["steps"]})
        # ---- model: the outcome of the persistence file alone
        h, state = None, None
        if ctx.model_ok:
            if mdata is None:
                state, val = "missing", None
            elif isinstance(mdata, str):
                state, val = "unreadable", None
            else:
                state, val = classify(mdata)
            if state == "value":
                if not (json_has_surrogate(val) or json_depth(val) > 700):
                    for op in c["pre_ops"]:
                        batch.ask(op)
                    h = batch.ask("loadinto " + json_tokens(val))
            else:
                for op in c["pre_ops"]:
                    batch.ask(op)
                h = batch.ask("file " + state)
        dir_handles.append((h, state))

    def expected_in_any_process(i: int):
        """What loading file i gives: the model's answer where it was asked, else what this process saw."""
        h, state = handles[i]
        if not ctx.model_ok or h is None:
            return results[i][0]
        return batch[h] if state == "value" else batch[h].split(" created=")[0]

    if not ctx.model_ok:
        persist_env.collect(corr, env_started, expected_in_any_process)
        return corr
    check_boolean_tables(corr)
    batch.run()
    persist_env.collect(corr, env_started, expected_in_any_process)
    persist_loops.loop_compare(corr, batch, loop_pending)
    for c, (h, state) in zip(dir_cases, dir_handles):
        if h is None:
            continue
        mo, _, mcreated = batch[h].partition(" created=")
        if mo != c["out"]:
            corr.disagree("load outcome with sibling files in the directory (model: the outcome of the persistence file alone)",
                          {**dir_case_record(c), "impl": c["out"][:800], "model": mo[:800]})
        elif state == "missing" and c["snap"] is not None:
            try:
                created = json.loads(c["snap"].decode("utf-8"))
            except ValueError:
                created = None
            if created is None or not jeq(parse_model_json(mcreated), created):
                corr.disagree("file created for a missing path (sibling files in the directory)",
                              {**dir_case_record(c), "impl": c["snap"][:800].decode("utf-8", "replace"), "model": mcreated[:800]})
    for (label, data, cur), (out, before), (h, state) in zip(files, results, handles):
        if h is None:
            continue
        mo = batch[h]
        if state != "value":
            mo = mo.split(" created=")[0]
        if mo != out:
            corr.disagree("load outcome", {"label": label, "state": state, "bytes": data[:600].decode("utf-8", "replace"), "into": before,
                                           "impl": out[:800], "model": mo[:800]})
    for (label, data, cur), (out, before), bh in zip(files, results, byte_handles):
        if bh is None:
            continue
        mo = batch[bh].split(" created=")[0]
        if mo == "unsupported":
            corr.count("bytes: outside the modelled text fragment")
            continue
        corr.count("bytes: load outcome through the modelled parser")
        if mo != out:
            corr.disagree("load outcome from the file's bytes (modelled decoder and parser)",
                          {"label": label, "bytes": data[:600].decode("utf-8", "replace"), "into": before, "impl": out[:800], "model": mo[:800]})
    for (kind, cur, before, out, created, back, loaded), h in zip(special, sp_handles):
        if h is None:
            continue
        mo, _, mcreated = batch[h].partition(" created=")
        if mo != out:
            corr.disagree("load outcome", {"label": kind, "into": before, "impl": out, "model": mo})
        if kind == "missing" and created is not None and not (py_loads(created)[0] == "ok" and jeq(parse_model_json(mcreated), json.loads(created))):
            corr.disagree("file created for a missing path", {"label": kind, "into": before, "impl": created[:800], "model": mcreated[:800]})
    return corr
