"""C15: a crash during save.  The real `Persistence.save` with an instrumented opener vs the Lean
operation-sequence model (`Model/FileOps.lean`) vs the property's oracle on every crash state.

What is executed for each pair (old registry, new registry):
  1. the real `save` of the old registry writes the live file (uninstrumented);
  2. the real `save` of the new registry runs with `aiofiles.threadpool.sync_open` (the patch point the
     repo's tests use), `os.replace`, `os.rename`, `os.remove`/`os.unlink` and `os.truncate` wrapped by
     loggers around the real functions -> the operation sequence the code performs;
  3. correspondence: that sequence must equal the model's `saveOps new`, and the crash states derived
     from it (a generic file-system simulation in this file: truncation, positional writes with every
     byte prefix, truncate, rename, remove) must equal the model's `crashStates`;
  4. oracle: every crash state (all byte prefixes in the thorough tier, a spread in the quick tier) is
     materialised as a real file in the scratch directory and the real `Persistence.load` is run on
     it into an empty dict; the result must be the old or the new registry.

  5. the same oracle on the directory as it REALLY was at every crash point: what is on disk when the process dies is
     what was flushed, not what was written.  While the instrumented save runs, an audit hook (`sys.addaudithook`) reads the
     directory immediately before every file-system operation the interpreter performs in it (open, rename/replace, remove,
     chmod, truncate, link, ... through whichever binding) and before every logged write / close; each distinct directory is
     rebuilt (live file and its siblings) and loaded by the real `Persistence.load` (`judge_observed`).  A rename / remove /
     chmod done while a handle with unflushed text is still open is thereby judged on the file the disk really holds.
     Each observed directory must also be a crash state of the buffered model (`crashStatesB`, Model/FileOpsBuffered.lean;
     driver `bdigest`) for the logged sequence.

A failing crash state is the *known finding* `truncate-in-place` only if the logged sequence is exactly
the in-place one (open "w", one write, close) and the content is "" or a strict prefix of the new
text; anything else is reported as a new violation.
"""

from __future__ import annotations

import asyncio
import builtins
import io
import json
import os
import shutil
import sys
import threading
from unittest import mock

from .. import lib
from ..lib import Corr

lib.use_repo()

import aiofiles.os  # noqa: E402
import aiofiles.threadpool  # noqa: E402

from aiomysensors.exceptions import PersistenceReadError  # noqa: E402
from aiomysensors.model.node import Child, Node, NodeSchema  # noqa: E402
from aiomysensors.persistence import Persistence  # noqa: E402

KNOWN = "truncate-in-place"
DRIVER = "DriverFileOps.lean"
TIMEOUT = 20


# ---- registries ------------------------------------------------------------------------------


def build_nodes(spec: list[dict]) -> dict[int, Node]:
    nodes: dict[int, Node] = {}
    for n in spec:
        children = {}
        for c in n.get("children", []):
            children[c["child_id"]] = Child(c["child_id"], c["child_type"], description=c.get("description", ""),
                                            values={int(k): v for k, v in c.get("values", {}).items()})
        nodes[n["node_id"]] = Node(
            n["node_id"], n["node_type"], n["protocol_version"], children=children,
            sketch_name=n.get("sketch_name", ""), sketch_version=n.get("sketch_version", ""),
            battery_level=n.get("battery_level", 0), heartbeat=n.get("heartbeat", 0), sleeping=n.get("sleeping", False))
    return nodes


def canon(nodes: dict[int, Node]) -> str:
    schema = NodeSchema()
    return json.dumps({str(k): schema.dump(v) for k, v in nodes.items()}, sort_keys=True)


ONE = [{"node_id": 1, "node_type": 17, "protocol_version": "2.0"}]
SEVERAL = [
    {"node_id": 0, "node_type": 18, "protocol_version": "2.3.2", "sketch_name": "Gateway", "sketch_version": "1.0"},
    {"node_id": 1, "node_type": 17, "protocol_version": "2.0", "sketch_name": "Relay", "sketch_version": "0.3",
     "battery_level": 87, "heartbeat": 123456, "sleeping": True,
     "children": [{"child_id": 0, "child_type": 3, "description": "relay a", "values": {"2": "1", "3": "55"}},
                  {"child_id": 1, "child_type": 6, "description": "temp", "values": {"0": "20.5"}},
                  {"child_id": 255, "child_type": 17}]},
    {"node_id": 254, "node_type": 17, "protocol_version": "1.4",
     "children": [{"child_id": 7, "child_type": 38, "values": {"49": "55.7;13.0;18"}}]},
]
NONASCII = [
    {"node_id": 9, "node_type": 17, "protocol_version": "2.2", "sketch_name": "Kök åäö 温度", "sketch_version": "\U0001f321 1",
     "children": [{"child_id": 3, "child_type": 6, "description": "t° \"quoted\" \\ back", "values": {"0": "21,5°C", "47": "☃\n\ttab"}}]},
]


def random_registry(rng) -> list[dict]:
    spec = []
    for node_id in sorted(rng.sample(range(0, 255), rng.randint(1, 5))):
        children = []
        for cid in sorted(rng.sample(range(0, 255), rng.randint(0, 3))):
            vals = {str(t): rng.choice(["0", "1", "23.5", "on", "x;y", "été", ""]) for t in rng.sample(range(0, 56), rng.randint(0, 3))}
            children.append({"child_id": cid, "child_type": rng.randint(0, 39), "description": rng.choice(["", "d", "door ø"]), "values": vals})
        spec.append({"node_id": node_id, "node_type": rng.choice([17, 18]), "protocol_version": rng.choice(["1.4", "2.0", "2.3.2"]),
                     "sketch_name": rng.choice(["", "S", "Sketch ü"]), "sketch_version": rng.choice(["", "1.0"]),
                     "battery_level": rng.randint(0, 100), "heartbeat": rng.randint(0, 10**6), "sleeping": rng.random() < 0.5,
                     "children": children})
    return spec


# ---- instrumentation -------------------------------------------------------------------------


class _LoggedMixin:
    """A file object that logs write/close/truncate/seek and forwards to the real file."""

    def _setup(self, f, log, role, hid):
        self._f, self._log, self._role, self._hid = f, log, role, hid
        self._close_logged = False

    def _bytes(self, data):
        if isinstance(data, str):
            return data.encode(getattr(self._f, "encoding", None) or "utf-8", errors="surrogatepass")
        return bytes(data)

    def write(self, data):
        self._log.append(("write", self._hid, self._role, self._bytes(data)))
        return self._f.write(data)

    def writelines(self, lines):
        for line in lines:
            self.write(line)

    def flush(self):
        if not self._f.closed:
            self._f.flush()

    def close(self):
        if not self._close_logged:
            self._close_logged = True
            self._log.append(("close", self._hid, self._role))
        self._f.close()

    def truncate(self, size=None):
        self._f.flush()
        if size is None:
            size = self._f.tell()
        self._log.append(("truncate", self._hid, self._role, int(size)))
        return self._f.truncate(size)

    def seek(self, offset, whence=0):
        r = self._f.seek(offset, whence)
        self._log.append(("seek", self._hid, self._role, int(self._f.tell())))
        return r

    def read(self, *a):
        return self._f.read(*a)

    def readline(self, *a):
        return self._f.readline(*a)

    def tell(self):
        return self._f.tell()

    def fileno(self):
        return self._f.fileno()

    def readable(self):
        return self._f.readable()

    def writable(self):
        return self._f.writable()

    def seekable(self):
        return self._f.seekable()

    def isatty(self):
        return False

    @property
    def closed(self):
        return self._f.closed

    @property
    def name(self):
        return self._f.name

    @property
    def mode(self):
        return self._f.mode

    def __del__(self):
        try:
            self._f.close()
        except Exception:  # noqa: BLE001
            pass


class LoggedText(_LoggedMixin, io.TextIOBase):   # dispatches to aiofiles' text wrapper
    @property
    def encoding(self):
        return self._f.encoding

    @property
    def errors(self):
        return self._f.errors

    @property
    def newlines(self):
        return self._f.newlines

    @property
    def buffer(self):
        return self._f.buffer

    @property
    def line_buffering(self):
        return self._f.line_buffering


class LoggedBin(_LoggedMixin, io.BufferedIOBase):  # dispatches to aiofiles' binary wrapper
    def read1(self, *a):
        return self._f.read1(*a)

    def readinto(self, b):
        return self._f.readinto(b)

    @property
    def raw(self):
        return self._f.raw


# ---- the real file system at every crash point -----------------------------------------------
#
# What survives the death of the process is what has reached the file, not what has been written: text
# handed to `write` sits in Python's buffers until a flush / the close (or until the buffer overflows).  The
# operation log above cannot know that, so the recorder also LOOKS: immediately before every file-system
# operation the interpreter audits inside the directory of the persistence file (open, rename/replace, remove,
# chmod, chown, truncate, link, mkdir, utime, ... - whatever the code does, through whichever binding) and before
# every logged write / close it reads the directory as it really is at that moment.  That is the directory a
# process killed at that point leaves behind (nothing buffered in the process is flushed by a kill); `load`
# judges it.

_AUDIT_ACTIVE: list = []          # the recorder that is observing, if any
_AUDIT_INSTALLED = False
_audit_tls = threading.local()
_AUDIT_PREFIXES = ("os.", "shutil.", "tempfile.", "pathlib.", "fcntl.", "glob.", "mmap.")


def _audit_hook(event: str, args: tuple) -> None:
    if not _AUDIT_ACTIVE:
        return
    if event != "open" and not event.startswith(_AUDIT_PREFIXES):
        return
    if getattr(_audit_tls, "busy", False):
        return
    _audit_tls.busy = True
    try:
        for rec in list(_AUDIT_ACTIVE):
            rec.audited(event, args)
    except Exception:  # noqa: BLE001  an observer must never change what the observed code does
        pass
    finally:
        _audit_tls.busy = False


def _install_audit_hook() -> None:
    global _AUDIT_INSTALLED
    if not _AUDIT_INSTALLED:
        _AUDIT_INSTALLED = True
        sys.addaudithook(_audit_hook)


class SnapLog(list):
    """The event log; every append also records what the live file really holds at that moment, so that
    a change made through a path the loggers do not see (another module's binding of os.replace, a
    subprocess, ...) shows up as a difference from the simulated file system."""

    def __init__(self, rec) -> None:
        super().__init__()
        self.rec = rec

    def append(self, e) -> None:
        rec = self.rec
        rec.pre.append((rec.handles, rec._snapshot(rec.live)))
        if e[0] in ("write", "close", "truncate", "seek"):      # operations on a handle: not audited by path
            rec.observe(f"{e[0]}({e[2]})")
        if e[0] == "open":
            rec.handles += 1
        elif e[0] == "close":
            rec.handles -= 1
        super().append(e)


class Recorder:
    """Logs the file operations performed while `patched()` is active."""

    def __init__(self, live: str) -> None:
        self.live = os.path.realpath(live)
        self.log: list[tuple] = SnapLog(self)
        self.pre: list[tuple[int, bytes | None]] = []   # (open handles, real content of the live file) before each logged event
        self.handles = 0
        self.roles: dict[str, str] = {self.live: "live"}
        self._n = 0
        self.dir = os.path.dirname(self.live)
        self.observed: list[tuple[dict, dict]] = []     # (crash point, {name relative to the live file: real content})
        self.touched: set[str] = set()
        self._obs_lock = threading.Lock()
        self._real = {"open": builtins.open, "replace": os.replace, "rename": os.rename, "remove": os.remove,
                      "unlink": os.unlink, "truncate": os.truncate}

    def role(self, path) -> str:
        try:
            p = os.path.realpath(os.fspath(path))
        except TypeError:
            p = f"<fd {path}>"
        if p not in self.roles:
            others = len(self.roles) - 1
            self.roles[p] = "tmp" if others == 0 else f"other{others}"
        return self.roles[p]

    def _open(self, file, mode="r", *args, **kwargs):
        self._n += 1
        role = self.role(file)
        self.log.append(("open", self._n, role, mode))      # logged (and the live file snapshotted) before it takes effect
        try:
            f = self._real["open"](file, mode, *args, **kwargs)
        except BaseException:
            self.log.pop()
            self.pre.pop()
            self.handles -= 1
            raise
        proxy = LoggedBin() if "b" in mode else LoggedText()
        proxy._setup(f, self.log, role, self._n)
        return proxy

    def _snapshot(self, path):
        busy = getattr(_audit_tls, "busy", False)
        _audit_tls.busy = True          # the harness's own look at a file is not an operation of the code
        try:
            with self._real["open"](path, "rb") as f:
                return f.read()
        except OSError:
            return None
        finally:
            _audit_tls.busy = busy

    # -- observation of the real directory -------------------------------------------------------

    def _rel(self, name: str) -> str:
        base = os.path.basename(self.live)
        return "live" + name[len(base):] if name.startswith(base) else name

    def observe(self, before: str) -> None:
        """The directory as it really is now = what a process killed before operation `before` leaves behind."""
        busy = getattr(_audit_tls, "busy", False)
        _audit_tls.busy = True
        try:
            with self._obs_lock:
                base = os.path.basename(self.live)
                try:
                    names = os.listdir(self.dir)
                except OSError:
                    names = []
                files = {}
                for n in sorted(names):
                    if n.startswith(base) or n in self.touched:
                        p = os.path.join(self.dir, n)
                        if os.path.isfile(p):
                            files[self._rel(n)] = self._snapshot(p)
                self.observed.append(({"point": len(self.observed), "killed_before": before, "logged_ops_done": len(self.log)}, files))
        finally:
            _audit_tls.busy = busy

    def audited(self, event: str, args: tuple) -> None:
        names = []
        for a in args[:3]:
            if isinstance(a, bytes):
                a = os.fsdecode(a)
            elif isinstance(a, os.PathLike):
                a = os.fspath(a)
            if not isinstance(a, str) or not a:
                continue
            p = os.path.realpath(a)
            if os.path.dirname(p) == self.dir:
                self.touched.add(os.path.basename(p))
                names.append(self._rel(os.path.basename(p)))
            if event == "open":
                break
        if not names:
            return
        detail = f", mode={args[1]!r}" if event == "open" and len(args) > 1 else ""
        self.observe(f"{event}({', '.join(names)}{detail})")

    def _rename(self, which):
        def wrapper(src, dst, *a, **k):
            content = self._snapshot(src)
            self.log.append(("rename", 0, self.role(src), self.role(dst), content, which))
            return self._real[which](src, dst, *a, **k)
        return wrapper

    def _remove(self, which):
        def wrapper(path, *a, **k):
            self.log.append(("remove", 0, self.role(path)))
            return self._real[which](path, *a, **k)
        return wrapper

    def _truncate(self, path, length):
        self.log.append(("ptruncate", 0, self.role(path), int(length)))
        return self._real["truncate"](path, length)

    def patched(self):
        stack = mock.patch.multiple(os, replace=self._rename("replace"), rename=self._rename("rename"),
                                    remove=self._remove("remove"), unlink=self._remove("unlink"), truncate=self._truncate)
        opener = mock.patch("aiofiles.threadpool.sync_open", self._open)

        def lifted(fn):
            async def call(*a, **k):
                return fn(*a, **k)
            return call

        # aiofiles.os binds the os functions when it is imported: wrap its coroutines as well
        aio = mock.patch.multiple(aiofiles.os, replace=lifted(self._rename("replace")), rename=lifted(self._rename("rename")),
                                  remove=lifted(self._remove("remove")), unlink=lifted(self._remove("unlink")))

        rec = self

        class Both:
            def __enter__(s):
                stack.__enter__()
                aio.__enter__()
                opener.__enter__()
                _install_audit_hook()
                _AUDIT_ACTIVE.append(rec)

            def __exit__(s, *exc):
                if rec in _AUDIT_ACTIVE:
                    _AUDIT_ACTIVE.remove(rec)
                rec.observe("(save returned)")
                opener.__exit__(*exc)
                aio.__exit__(*exc)
                stack.__exit__(*exc)

        return Both()


def hexb(b: bytes) -> str:
    return b.hex() if b else "-"


def canonical_ops(log) -> list[str]:
    """The logged sequence in the model driver's notation (seek/flush are not operations of the model)."""
    out = []
    for e in log:
        kind = e[0]
        if kind == "open":
            mode = e[3].replace("t", "")
            if mode in ("w", "wb"):
                out.append(f"openTrunc:{e[2]}")
            elif mode in ("r", "rb"):
                out.append(f"openRead:{e[2]}")
            else:
                out.append(f"open[{mode}]:{e[2]}")
        elif kind == "write":
            out.append(f"write:{e[2]}:{hexb(e[3])}")
        elif kind == "close":
            out.append(f"close:{e[2]}")
        elif kind == "rename":
            out.append(f"rename:{e[2]}:{e[3]}")
        elif kind == "remove":
            out.append(f"remove:{e[2]}")
        elif kind in ("truncate", "ptruncate"):
            out.append(f"truncate:{e[2]}:{e[3]}")
        elif kind == "seek":
            out.append(f"seek:{e[2]}:{e[3]}")
    return out


def simulate(log, old: bytes | None):
    """Crash states of a logged sequence, in the model's order: the state before every operation, for
    a write the state after each byte prefix (0..len), and the final state.
    Returns [(label, files)] with files = {role: bytes|None}."""
    files: dict[str, bytes | None] = {"live": old}
    pos: dict[int, int] = {}
    append: dict[int, bool] = {}
    states = []
    for i, e in enumerate(log):
        kind = e[0]
        if kind == "write":
            _, h, role, data = e
            content = files.get(role) or b""
            p = len(content) if append.get(h) else pos.get(h, 0)
            if p > len(content):
                content = content + b"\0" * (p - len(content))
            for k in range(len(data) + 1):
                snap = dict(files)
                snap[role] = content[:p] + data[:k] + content[p + k:]
                states.append(({"op": i, "kind": "write", "bytes": k, "of": len(data)}, snap))
            files[role] = content[:p] + data + content[p + len(data):]
            pos[h] = p + len(data)
            continue
        states.append(({"op": i, "kind": "before-" + kind}, dict(files)))
        if kind == "open":
            _, h, role, mode = e
            if "w" in mode:
                files[role] = b""
                pos[h] = 0
            elif "x" in mode:
                files[role] = b""
                pos[h] = 0
            elif "a" in mode:
                files[role] = files.get(role) or b""
                append[h] = True
            else:
                pos[h] = 0
        elif kind == "truncate" or kind == "ptruncate":
            role, size = e[2], e[3]
            content = files.get(role) or b""
            files[role] = content[:size] + b"\0" * max(0, size - len(content))
        elif kind == "seek":
            pos[e[1]] = e[3]
        elif kind == "rename":
            _, _, src, dst, content, _ = e
            files[dst] = files[src] if files.get(src) is not None else content
            files[src] = None
        elif kind == "remove":
            files[e[2]] = None
    states.append(({"op": len(log), "kind": "final"}, dict(files)))
    return states


def model_hash(b: bytes) -> int:
    h = 0
    for x in b:
        h = (h * 257 + x + 1) % 1000000007
    return h


def digest(files) -> str:
    def one(tag, b):
        return f"{tag}-" if b is None else f"{tag}{len(b)}:{model_hash(b)}"
    return one("L", files.get("live")) + "/" + one("T", files.get("tmp"))


def full(files) -> str:
    def one(b):
        return "missing" if b is None else hexb(b)
    return "live=" + one(files.get("live")) + "/tmp=" + one(files.get("tmp"))


def spread(n_states: int, write_span: tuple[int, int] | None, rng, tier: str, must: list[int]) -> list[int]:
    """Indexes of the crash states to materialise."""
    if tier == "thorough" or n_states <= 60:
        return list(range(n_states))
    idx = set(range(min(4, n_states))) | set(range(max(0, n_states - 5), n_states)) | {i for i in must if 0 <= i < n_states}
    if write_span:
        a, b = write_span          # state indexes of byte prefix 0 .. len
        idx |= {a, a + 1, a + 2, b - 2, b - 1, b}
        step = max(1, (b - a) // 30)
        idx |= set(range(a, b + 1, step))
        idx |= {rng.randint(a, b) for _ in range(14)}
    return sorted(i for i in idx if 0 <= i < n_states)


# ---- one pair --------------------------------------------------------------------------------


async def real_load(path: str):
    nodes: dict[int, Node] = {}
    try:
        await asyncio.wait_for(Persistence(nodes, path).load(), TIMEOUT)
    except PersistenceReadError:
        return ("readerror",)
    except BaseException as e:  # noqa: BLE001
        return ("foreign", type(e).__name__)
    return ("ok", canon(nodes))


def layout_text(spec: list[dict], layout: str) -> str:
    """The old file as another writer would have left it: every layout is one `load` accepts."""
    schema = NodeSchema()
    data = {str(k): schema.dump(v) for k, v in build_nodes(spec).items()}
    if layout in ("legacy", "legacy-compact", "mixed"):
        for j, node in enumerate(data.values()):
            if layout == "mixed" and j % 2:
                continue
            node["sensor_id"] = node.pop("node_id")
            node["type"] = node.pop("node_type")
            if node.get("sketch_name") == "":
                node["sketch_name"] = None
            if node.get("sketch_version") == "":
                node["sketch_version"] = None
            for child in node.get("children", {}).values():
                child["id"] = child.pop("child_id")
                child["type"] = child.pop("child_type")
    if layout in ("compact", "legacy-compact"):
        return json.dumps(data)
    if layout == "ascii-escaped":
        return json.dumps(data, sort_keys=True, indent=4, ensure_ascii=True)
    return json.dumps(data, sort_keys=True, indent=2)


def is_in_place(ops: list[str], new_bytes: bytes) -> bool:
    return ops == ["openTrunc:live", f"write:live:{hexb(new_bytes)}", "close:live"]


async def judge_observed(corr: Corr, rec: Recorder, label, want: set, in_place: bool, new_bytes: bytes, case: dict,
                         simulated: set | None = None) -> None:
    """The oracle on the directory as it REALLY was at every crash point of the instrumented save (`Recorder.observe`):
    each distinct directory is rebuilt next to the scratch file and loaded by the real `Persistence.load`; it must give
    the old or the new registry.  The recorded finding covers only today's sequence (open "w", one write, close) with a
    live file that holds a strict prefix of the new text."""
    base = os.path.basename(rec.live)
    crash_dir = rec.live + ".crashdir"
    seen = set()
    for point, files in rec.observed:
        key = tuple(sorted(files.items()))
        if key in seen:
            continue
        seen.add(key)
        shutil.rmtree(crash_dir, ignore_errors=True)
        os.makedirs(crash_dir)
        for name, content in files.items():
            if content is None:
                continue
            target = base + name[len("live"):] if name.startswith("live") else name
            with open(os.path.join(crash_dir, target), "wb") as f:
                f.write(content)
        obs = await real_load(os.path.join(crash_dir, base))
        content = files.get("live")
        ok = obs in want
        corr.count("observed-state:before " + (point["killed_before"].split("(")[0] or "save returns"))
        if simulated is not None and content not in simulated:
            corr.count("observed-state: live file differs from every write-through crash state")
        corr.count("observed-load:" + ("old-or-new" if ok else "empty-registry" if obs == ("ok", "{}") else obs[0]))
        corr.case((label, "observed", point["point"], obs[0]), point["killed_before"] != "(save returned)" and point["point"] > 0,
                  {"pair": label, "observed_crash_point": point, "content_len": None if content is None else len(content), "load": obs[0]})
        if ok:
            continue
        strict_prefix = content is not None and len(content) < len(new_bytes) and new_bytes.startswith(content)
        info = {**case, "crash": {"kind": "observed", **point},
                "crash_points": [pt["killed_before"] for pt, _ in rec.observed],
                "directory_at_crash": {n: None if b is None else {"len": len(b), "head": b[:120].decode("utf-8", "replace")} for n, b in files.items()},
                "content_len": None if content is None else len(content), "load": list(obs)}
        if in_place and strict_prefix:
            corr.count("known-finding:" + KNOWN)
            if corr.dist["known-finding:" + KNOWN] > 12:
                continue
            corr.violate("the directory as it really was at a crash point loads to neither the old nor the new registry: "
                         + ("empty file -> empty registry" if not content else "strict prefix of the new text -> read error"),
                         {"class": KNOWN, **info})
        else:
            corr.violate("the directory as it really was at a crash point of save (what a process killed before that operation leaves "
                         "on disk: text written but not yet flushed is lost) loads to neither the old nor the new registry (not the "
                         "recorded truncate-in-place class: "
                         + ("operation sequence differs from open-w/one-write/close" if not in_place else "the live file is not a prefix of the new text") + ")",
                         info)
    shutil.rmtree(crash_dir, ignore_errors=True)


async def run_chain(corr: Corr, ctx, label: str, steps: list) -> None:
    """Several saves by ONE Persistence object over a registry that is mutated IN PLACE between them (as a running
    gateway does): `steps` is a list of functions that mutate the registry.  After every step the registry is saved;
    the last save is instrumented.  "The registry as last successfully saved" is what the registry was when the
    previous save() returned - whatever that save did or did not write."""
    d = lib.scratch()
    live = os.path.join(d, f"c15-chain-{corr.evaluations}.json")
    if os.path.exists(live):
        os.unlink(live)
    registry: dict[int, Node] = {}
    persistence = Persistence(registry, live)
    last_saved = None
    history = []
    for i, step in enumerate(steps):
        step(registry)
        history.append(canon(registry))
        if i < len(steps) - 1:
            await asyncio.wait_for(persistence.save(), TIMEOUT)
            last_saved = canon(registry)
    being_saved = canon(registry)
    old_bytes = None
    if os.path.exists(live):
        with open(live, "rb") as f:
            old_bytes = f.read()
    rec = Recorder(live)
    case = {"chain": label, "registries": history}
    with rec.patched():
        try:
            await asyncio.wait_for(persistence.save(), TIMEOUT)
        except BaseException as e:  # noqa: BLE001
            corr.violate("save raised under the instrumented opener", {**case, "error": f"{type(e).__name__}: {e}"[:300]})
            return
    states = simulate(rec.log, old_bytes)
    want = {("ok", last_saved), ("ok", being_saved)}
    crash_path = live + ".crash"
    seen = set()
    for i, (lab, files) in enumerate(states):
        content = files.get("live")
        key = (lab["kind"], content if content is None or len(content) < 3 else (content[:1], len(content)))
        if lab["kind"] == "write" and 0 < lab["bytes"] < lab["of"]:
            continue        # torn writes of the in-place sequence are the known finding, judged by the pairs above
        if key in seen:
            continue
        seen.add(key)
        if content is None:
            if os.path.exists(crash_path):
                os.unlink(crash_path)
        else:
            with open(crash_path, "wb") as f:
                f.write(content)
        obs = await real_load(crash_path)
        corr.case(("chain", label, i), lab["kind"] != "final" and i > 0, None)
        corr.count("chain-state:" + lab["kind"])
        if obs in want:
            continue
        if content == b"" and lab["kind"] != "before-open":
            corr.count("known-finding:" + KNOWN)     # the truncated file of the in-place sequence
            continue
        corr.violate("a crash state of a later save by the same Persistence object loads to neither the registry as last "
                     "successfully saved nor the one being saved",
                     {**case, "crash": lab, "last_saved": last_saved[:300], "being_saved": being_saved[:300], "load": list(obs)[:2]})
        break
    final = rec._snapshot(live) or b""
    ops = canonical_ops(rec.log)
    await judge_observed(corr, rec, ("chain", label), want, is_in_place(ops, final), final,
                         {**case, "ops": [o if len(o) < 60 else o[:40] + "…" for o in ops],
                          "last_saved": (last_saved or "")[:300], "being_saved": being_saved[:300]})
    for path, role in rec.roles.items():
        if role != "live" and os.path.exists(path):
            os.unlink(path)
    for pth in (crash_path, live):
        if os.path.exists(pth):
            os.unlink(pth)


def chains():
    """In-place histories of one registry: what changes between two saves is only inside a node's children, only a
    value, only an attribute, a node added, a node removed."""
    def start(reg):
        reg[1] = Node(1, 17, "2.0")
        reg[2] = Node(2, 17, "2.2", sketch_name="S")

    def add_child(reg):
        reg[1].children[0] = Child(0, 6, description="temp", values={})

    def set_value(reg):
        reg[1].children[0].values[0] = "20.5"

    def change_value(reg):
        reg[1].children[0].values[0] = "21.0"

    def battery(reg):
        reg[1].battery_level = 87

    def add_node(reg):
        reg[3] = Node(3, 17, "2.1")

    def drop_child(reg):
        reg[1].children.pop(0, None)

    return [("children-only", [start, add_child, set_value]), ("value-only", [start, add_child, set_value, change_value]),
            ("value-then-attribute", [start, add_child, set_value, battery]), ("child-removed", [start, add_child, drop_child, battery]),
            ("node-added", [start, add_child, add_node, change_value if False else battery]),
            ("same-twice", [start, add_child, lambda reg: None, set_value])]


async def run_pair(corr: Corr, ctx, rng, label: str, old_spec, new_spec, must: list[int], model_lines: list,
                   session: dict | None = None):
    """`session`: the save under test is made by a Persistence object that first loaded the old file
    (written in `session["layout"]`), as a gateway does at start; `session["warm"]` saves once more
    before the instrumented save."""
    d = lib.scratch()
    live = os.path.join(d, f"c15-{corr.evaluations}-{len(model_lines)}.json")
    for leftover in (live,):
        if os.path.exists(leftover):
            os.unlink(leftover)
    case = {"pair": label, "old": old_spec, "new": new_spec}
    old_bytes = None
    if old_spec is not None:
        try:
            await asyncio.wait_for(Persistence(build_nodes(old_spec), live).save(), TIMEOUT)
        except BaseException as e:  # noqa: BLE001  e.g. a save that can no longer create the file
            corr.violate("save of the old registry into a fresh path raised", {**case, "error": f"{type(e).__name__}: {e}"[:300]})
            schema = NodeSchema()
            with open(live, "w", encoding="utf-8") as f:   # continue from the text today's save would have written
                f.write(json.dumps({k: schema.dump(v) for k, v in build_nodes(old_spec).items()}, sort_keys=True, indent=2))
        with open(live, "rb") as f:
            old_bytes = f.read()
    new_nodes = build_nodes(new_spec)
    persistence = Persistence(new_nodes, live)
    if session is not None:
        case["session"] = session
        with open(live, "w", encoding="utf-8") as f:
            f.write(layout_text(old_spec, session["layout"]))
        with open(live, "rb") as f:
            old_bytes = f.read()
        registry: dict[int, Node] = {}
        persistence = Persistence(registry, live)
        try:
            await asyncio.wait_for(persistence.load(), TIMEOUT)
        except BaseException as e:  # noqa: BLE001
            corr.disagree("harness: the old file in this layout does not load", {**case, "error": f"{type(e).__name__}: {e}"[:300]})
            return
        if canon(registry) != canon(build_nodes(old_spec)):
            corr.disagree("harness: the old file in this layout loads to a different registry", case)
            return
        if session.get("warm"):
            await asyncio.wait_for(persistence.save(), TIMEOUT)
            with open(live, "rb") as f:
                old_bytes = f.read()
        registry.clear()
        registry.update(new_nodes)
        corr.count("session:" + session["layout"] + (":warm" if session.get("warm") else ""))
    rec = Recorder(live)
    with rec.patched():
        try:
            await asyncio.wait_for(persistence.save(), TIMEOUT)
        except BaseException as e:  # noqa: BLE001
            corr.violate("save raised under the instrumented opener", {**case, "error": f"{type(e).__name__}: {e}"[:300]})
            return
    with open(live, "rb") as f:
        new_bytes = f.read()
    want = {("ok", canon(build_nodes(old_spec or []))), ("ok", canon(new_nodes))}
    ops = canonical_ops(rec.log)
    case["ops"] = [o if len(o) < 60 else o[:40] + "…" for o in ops]
    states = simulate(rec.log, old_bytes)
    corr.count("pairs")
    corr.count("opseq:" + " ".join(o.split(":")[0] + ":" + o.split(":")[1] for o in ops))

    # the simulation must end where the real file system ended
    if states[-1][1].get("live") != new_bytes:
        corr.disagree("harness file-system simulation does not reproduce the real final file content", case)
    # ... and agree with the real live file whenever no handle is open on it; a difference is a file
    # operation the loggers did not see: what the file really held is a crash state of its own
    before = {lab["op"]: f for lab, f in states if lab["kind"].startswith("before-")}
    unlogged = []
    for i, (handles, real) in enumerate(rec.pre):
        if handles == 0 and i in before and before[i].get("live") != real:
            unlogged.append(({"op": i, "kind": "unlogged-change"}, {"live": real}))
    if unlogged:
        corr.count("unlogged-change", len(unlogged))
        states = states[:-1] + unlogged + states[-1:]
        must = list(must) + list(range(len(states) - 1 - len(unlogged), len(states) - 1))
    leftovers = [r for r, b in states[-1][1].items() if r != "live" and b is not None]
    for path, role in rec.roles.items():
        if role != "live" and os.path.exists(path):
            os.unlink(path)
    if leftovers:       # not something the property forbids: recorded, and the crash states below decide
        corr.count("leftover-files", len(leftovers))
        case["leftovers"] = leftovers

    # correspondence with the model
    in_place = is_in_place(ops, new_bytes)
    atomic = ops == ["openTrunc:tmp", f"write:tmp:{hexb(new_bytes)}", "close:tmp", "rename:tmp:live"]
    case["sequence"] = "in-place" if in_place else "atomic" if atomic else "other"
    corr.count("sequence:" + case["sequence"])
    if ctx.model_ok:
        # the model has two operation sequences: today's in-place one (refuted: not_crash_safe) and temp-file + rename
        # (proved safe: atomic_if_renamed).  An implementation that performs the latter is compared with the latter.
        model_lines.append((f"{'opsatomic' if atomic else 'ops'} {hexb(new_bytes)}", "ops", " ".join(ops), case))
        if old_bytes is not None and len(new_bytes) <= 3000:     # the model enumerates every byte prefix: small texts only
            dg = " ".join(digest(f) for _, f in states)
            if in_place or not atomic:
                model_lines.append((f"digest {hexb(old_bytes)} {hexb(new_bytes)}", "crash states (digest)", dg, case))
            else:
                model_lines.append((f"adigest {hexb(old_bytes)} {hexb(new_bytes)}", "crash states of saveOpsAtomic (digest)", dg, case))

    # which crash states to materialise
    wspan = None
    for i, (lab, _) in enumerate(states):
        if lab["kind"] == "write" and lab["of"] > 0:
            wspan = (i - lab["bytes"], i - lab["bytes"] + lab["of"]) if wspan is None or lab["of"] > wspan[1] - wspan[0] else wspan
    chosen = spread(len(states), wspan, rng, ctx.tier, must)
    if ctx.model_ok and old_bytes is not None and (in_place or atomic) and len(new_bytes) <= 3000:
        cmd = "crashat" if in_place else "acrashat"
        sample = chosen if len(chosen) <= 64 else [chosen[(len(chosen) - 1) * j // 63] for j in range(64)]
        model_lines.append((f"{cmd} {hexb(old_bytes)} {hexb(new_bytes)} {','.join(map(str, sample))}",
                            "crash states (full content)", " ".join(full(states[i][1]) for i in sample), case))

    # oracle on every chosen crash state
    crash_path = live + ".crash"
    for i in chosen:
        lab, files = states[i]
        content = files.get("live")
        if content is None:
            if os.path.exists(crash_path):
                os.unlink(crash_path)
        else:
            with open(crash_path, "wb") as f:
                f.write(content)
        obs = await real_load(crash_path)
        if ctx.model_ok and content is not None:
            TEXT_LINES.append((content, obs, {"pair": label, "crash": lab}))
        ok = obs in want
        kind = lab["kind"] if lab["kind"] != "write" else ("write:0" if lab["bytes"] == 0 else "write:full" if lab["bytes"] == lab["of"] else "write:torn")
        corr.count("state:" + kind)
        corr.count("load:" + ("old-or-new" if ok else "empty-registry" if obs == ("ok", "{}") else obs[0]))
        corr.case((label, i, obs[0]), lab["kind"] not in ("final",) and i > 0,
                  {"pair": label, "crash": lab, "content_len": None if content is None else len(content), "load": obs[0]})
        if ok:
            continue
        strict_prefix = content is not None and len(content) < len(new_bytes) and new_bytes.startswith(content)
        info = {**case, "crash": lab, "state_index": i,
                "content": None if content is None else content[:200].decode("utf-8", "replace"),
                "content_len": None if content is None else len(content), "load": list(obs)}
        if in_place and strict_prefix:
            corr.count("known-finding:" + KNOWN)
            if corr.dist["known-finding:" + KNOWN] > 12:     # keep room in the capped list for new violations
                continue
            corr.violate("crash state loads to neither the old nor the new registry: "
                         + ("empty file -> empty registry" if not content else "strict prefix of the new text -> read error"),
                         {"class": KNOWN, **info})
        else:
            corr.violate("crash state loads to neither the old nor the new registry (not the recorded truncate-in-place class: "
                         + ("operation sequence differs from open-w/one-write/close" if not in_place else "content is not a prefix of the new text") + ")",
                         info)
    if os.path.exists(crash_path):
        os.unlink(crash_path)
    # the buffered model (Model/FileOpsBuffered.lean, crashStatesB): every directory really observed at a crash point must be
    # one of the model's crash states of the logged sequence (any prefix of each handle's unflushed text on disk)
    modelled_op = all(o.split(":")[0] in ("openTrunc", "write", "close", "rename") and set(o.split(":")[1:3 if o.startswith("rename") else 2]) <= {"live", "tmp"}
                      for o in ops)
    if ctx.model_ok and rec.observed and len(new_bytes) <= 1500:
        by_name = {rec._rel(os.path.basename(pth)): role for pth, role in rec.roles.items()}
        if modelled_op and all(by_name.get(n) in ("live", "tmp") for _, fl in rec.observed for n in fl):
            seen_dg = []
            for point, fl in rec.observed:
                dg = digest({by_name[n]: b for n, b in fl.items()})
                if dg not in [d for d, _ in seen_dg]:
                    seen_dg.append((dg, point))
            BUF_LINES.append((f"bdigest {'missing' if old_bytes is None else hexb(old_bytes)} {' '.join(ops)}", seen_dg, dict(case)))
        else:
            corr.count("buffered model: sequence or files outside the modelled operations")
    # ... and the oracle on the directory as it really was at every crash point (buffered text is not on disk)
    await judge_observed(corr, rec, label, want, in_place, new_bytes, case, {f.get("live") for _, f in states})
    if os.path.exists(live):
        os.unlink(live)


def replay(case: dict) -> int:
    """Re-execute the case of a C15 replay: the same old / new registries (or chain of in-place changes) are saved by the
    real `Persistence.save` under the recorder, and every crash state - simulated from the operation log and observed in
    the real directory before every file-system operation - is loaded again by the real `Persistence.load`."""
    class Ctx:
        model_ok, tier, seed = False, "quick", 0

    corr = Corr("C15", "replay")
    if "chain" in case:
        steps = dict(chains()).get(case["chain"])
        if steps is None:
            print("unknown chain", case["chain"])
            return 0
        asyncio.run(run_chain(corr, Ctx, case["chain"], steps))
    else:
        must = [case["state_index"]] if isinstance(case.get("state_index"), int) else []
        asyncio.run(run_pair(corr, Ctx, lib.rng_for(0, "c15-replay"), case.get("pair", "replay"), case.get("old"), case["new"], must, [],
                             session=case.get("session")))
    new = [v for v in corr.violations if v.get("class") != KNOWN]
    for v in (new or corr.violations)[:3]:
        print("operation sequence of save:", v.get("ops"))
        if "crash_points" in v:
            print("crash points observed (the process is killed before ...):", v["crash_points"])
        print("crash:", v.get("crash"))
        if "directory_at_crash" in v:
            print("directory at the crash:", v["directory_at_crash"])
        else:
            print("live file at the crash:", repr(v.get("content"))[:200], "len", v.get("content_len"))
        print("Persistence.load on it:", str(v.get("load"))[:300])
        print("  ->", v["what"][:400], "" if v in new else f"[known finding {KNOWN}]")
    if new:
        print(f"reproduced: {len(new)} crash state(s) outside the recorded class {KNOWN} load to neither the old nor the new registry")
    else:
        print(f"NOT reproduced: every crash state loads to the old or the new registry, or is of the recorded class {KNOWN} "
              f"({len(corr.violations)} listed)")
    return 0


BUF_LINES: list = []       # (driver line, [(digest of an observed directory, crash point)], case)
TEXT_LINES: list = []      # (content of a materialised crash state, what the real load made of it, case)


def obs_of_model(line: str):
    """DriverPersist's `bload` outcome in the shape of `real_load`'s observation (registries order-insensitive)."""
    from . import persist
    line = line.split(" created=")[0]
    if line.startswith("ok "):
        return ("ok", persist.parse_reg(line[3:]))
    if line.startswith("err persistenceRead"):
        return ("readerror",)
    return tuple(line.split(" "))


def obs_comparable(obs):
    from . import persist
    if obs[0] != "ok":
        return obs
    reg = {}
    for k, n in json.loads(obs[1]).items():
        children = {int(ck): (c["child_id"], c["child_type"], persist.enc(c["description"]), {int(t): persist.enc(v) for t, v in c["values"].items()})
                    for ck, c in n["children"].items()}
        reg[int(k)] = ((str(n["node_type"]), persist.enc(n["protocol_version"]), persist.enc(n["sketch_name"]), persist.enc(n["sketch_version"]),
                        str(n["battery_level"]), str(n["heartbeat"]), "0", persist.B(n["sleeping"])), children)
    return ("ok", reg)


def check_crash_loads(corr: Corr) -> None:
    """Every materialised crash state through the MODELLED loader (C15.realLoad = UTF-8 decoding, JsonText.parse,
    the schema load; driver `bload`): same outcome as the real Persistence.load had on the real file."""
    lines, seen = ["rnew"], {}
    for content, obs, case in TEXT_LINES:
        if content not in seen:
            seen[content] = len(lines)
            lines.append("bload " + hexb(content))
    outs = lib.run_model(lines, driver="DriverPersist.lean")
    for content, obs, case in TEXT_LINES:
        out = outs[seen[content]]
        if out == "unsupported":
            corr.count("model load: outside the modelled text fragment")
            continue
        corr.count("model load: " + out.split(" ")[0])
        if obs_of_model(out) != obs_comparable(obs):
            corr.disagree("load of a crash state: real Persistence.load vs the modelled loader (decode, parse, schema)",
                          {**case, "content": content[:300].decode("utf-8", "replace"), "impl": list(obs)[:1] + [str(obs[1:])[:300]], "model": out[:300]})


def run_c15(ctx) -> Corr:
    corr = Corr("C15", "pairs (old registry, new registry) over {no file, empty, one node, several nodes with children/values, "
                "non-ASCII, random}; for each pair the real save runs under an instrumented opener (sync_open, os.replace/"
                "rename/remove/truncate logged), its operation sequence and crash states are compared with the Lean model "
                "(saveOps/crashStates), and every crash state (thorough: every byte prefix; quick: >= 40 prefixes incl. 0, 1, "
                "len-1) is materialised as a real file and loaded by the real Persistence.load, and its content is also loaded by "
                "the modelled loader of C15.realLoader (UTF-8 decoding, JsonText.parse, schema load; driver bload) with the same "
                "outcome required; additionally the directory as it really is immediately before every audited file-system operation "
                "and every logged write/close of that save (unflushed text is not on disk) is rebuilt and loaded by the real load, and "
                "must be a crash state of the buffered model crashStatesB; one case = one crash state; "
                "non-trivial = the crash is strictly inside the operation sequence")
    rng = lib.rng_for(ctx.seed, "c15")
    kinds = {"empty": [], "one": ONE, "several": SEVERAL, "nonascii": NONASCII}
    pairs: list[tuple[str, list | None, list, list[int]]] = []
    for c in lib.load_corpus("C15"):
        pairs.append(("corpus:" + c["_file"], c.get("old"), c["new"], c.get("state_indexes", [])))
    for a in kinds:
        for b in kinds:
            pairs.append((f"{a}->{b}", kinds[a], kinds[b], []))
    # a save that makes the file grow across several file-system blocks (and back): 12 nodes, a little over one 4 KiB block
    big = [{"node_id": i, "node_type": 17, "protocol_version": "2.3.2", "sketch_name": f"Sensor {i}", "sketch_version": "1.0",
            "battery_level": i % 101, "heartbeat": i * 1000,
            "children": [{"child_id": c, "child_type": 6, "description": f"child {c} of {i}", "values": {"0": f"{i}.{c}", "2": "1"}} for c in range(3)]}
           for i in range(1, 13)]
    pairs.append(("one->big", ONE, big, []))
    pairs.append(("big->one", big, ONE, []))
    pairs.append(("nofile->one", None, ONE, []))
    pairs.append(("nofile->several", None, SEVERAL, []))
    for j in range(4 if ctx.tier == "quick" else 12):
        pairs.append((f"random{j}", random_registry(rng), random_registry(rng), []))
    model_lines: list = []
    # the save a running gateway makes: by the Persistence object that loaded the old file, whoever wrote it
    sessions: list[tuple[str, list, list, dict]] = []
    for layout in ("own", "legacy", "legacy-compact", "mixed", "compact", "ascii-escaped"):
        for warm in (False, True):
            if warm and ctx.tier == "quick" and layout not in ("own", "legacy"):
                continue
            old = NONASCII + ONE if layout == "ascii-escaped" else SEVERAL
            sessions.append((f"session:{layout}{':warm' if warm else ''}", old, SEVERAL + NONASCII, {"layout": layout, "warm": warm}))
    for j in range(2 if ctx.tier == "quick" else 10):
        layout = rng.choice(["own", "legacy", "legacy-compact", "mixed", "compact"])
        sessions.append((f"session:random{j}:{layout}", random_registry(rng), random_registry(rng), {"layout": layout, "warm": rng.random() < 0.3}))

    async def main():
        for label, old, new, must in pairs:
            await run_pair(corr, ctx, rng, label, old, new, must, model_lines)
        for label, old, new, sess in sessions:
            await run_pair(corr, ctx, rng, label, old, new, [], model_lines, session=sess)
        for label, steps in chains():
            await run_chain(corr, ctx, label, steps)

    TEXT_LINES.clear()
    BUF_LINES.clear()
    asyncio.run(main())

    if ctx.model_ok and BUF_LINES:
        outs = lib.run_model([b[0] for b in BUF_LINES], driver=DRIVER)
        for (line, seen_dg, case), out in zip(BUF_LINES, outs):
            have = set(out.split(" "))
            for dg, point in seen_dg:
                corr.count("model:bdigest " + ("observed directory is a buffered crash state" if dg in have else "MISSING"))
                if dg not in have:
                    corr.disagree("the directory really observed at a crash point is not a crash state of the buffered model (crashStatesB) "
                                  "for the logged operation sequence", {**case, "observed_crash_point": point, "digest": dg, "model": out[:300]})

    if ctx.model_ok and TEXT_LINES:
        check_crash_loads(corr)
    if ctx.model_ok and model_lines:
        outs = lib.run_model([m[0] for m in model_lines], driver=DRIVER)
        for (line, what, impl, case), out in zip(model_lines, outs):
            corr.count("model:" + line.split(" ")[0])
            if out != impl:
                extra = {}
                if what == "ops":
                    extra = {"model_saveOps": out[:160], "implementation": impl[:160],
                             "note": "the model says save truncates the live file in place (openTrunc live, one write, close)"
                                     + ("; the implementation now performs the temp-file-and-rename sequence = the model's saveOpsAtomic: "
                                        "switch the model to saveOpsAtomic (theorem atomic_if_renamed) and retire the known finding"
                                        if case.get("sequence") == "atomic" else "")}
                corr.disagree(f"{what}: implementation differs from the model", {**case, **extra})
    known = corr.dist.get("known-finding:" + KNOWN, 0)
    corr.notes.append(f"{known} crash state(s) of class {KNOWN} (the first 12 are listed as violations); "
                      f"empty-registry loads: {corr.dist.get('load:empty-registry', 0)}, read errors: {corr.dist.get('load:readerror', 0)}")
    return corr
