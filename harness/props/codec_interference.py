"""C02 under process-level interference: decoding must not depend on what ELSE the library did in the process.

The property says which lines are accepted and what they decode to; it gives the decoder no memory.  A received line is
a function of its text alone, so no other use of the library's public API in the same process - a controller restart on
a persistence file that exists, saves, other Gateway / MessageSchema / NodeSchema objects created and used, failed
loads, version switches, handlers of every kind running - may change the outcome for any line.  marshmallow fields are
class-level objects shared by every instance of a schema (and `const.NODE_ID_FIELD` by two schema classes), protocol
modules hold module-level sets: this is where such a dependency would live, and a per-object test never sees it.

This module runs *blocks* of interference steps (below) in ONE process and, before the first and after EVERY step
(also while gateway sessions are still open), sends probe lines - the boundary lines of the statement: node id
0/254/255/256, child id 0/254/255/256, every command, ack and short / non-numeric lines - through four decoders for
each of the five protocol versions:

  schema-fresh   a MessageSchema created for this probe
  schema-kept    a MessageSchema created before any interference
  listen-fresh   Gateway.listen of a Gateway created for this probe
  listen-kept    Gateway.listen of a Gateway created before any interference

Oracle: `codec.ref_accepts` / `codec.listen_verdict`, i.e. the property's own predicate - the same for every probe, since
the statement knows no history.  Model: `Codec.decode` (driver op `dec`) is a pure function of version and line, so
the interference steps are not operations of the driver; every probe is compared with `dec` at the protocol active at
that step, and the steps themselves (what a load or a session does) are not judged here (C13-C16 do that).

On a violation the history is minimised by re-executing candidate step lists each in a FRESH interpreter (this module
run as a script): first the current block up to the failing step, greedily without single steps, else the whole prefix.
The replay (`./check C02 --replay <file>`) re-executes the recorded steps and the probe, with the same probe before any
step as the control.

Step kinds (JSON lists; files live in a scratch directory):
  ["file", name, text|None]        write / remove a persistence file (the harness, not the library)
  ["enter", key, name|None]        Gateway(transport, Config(persistence_file=...)).__aenter__(); an existing key is the
                                   same object entered again (a reconnect); name None: no persistence
  ["traffic", key, [line...]]      lines read through that gateway's listen()
  ["send", key, [fields...]]       Gateway.send of Message(*fields) for each
  ["exit", key]                    __aexit__()
  ["persist-load", name]           Persistence({}, path).load()
  ["persist-save", name, [id...]]  Persistence(nodes, path).save()
  ["node-schema", [record...], [id...]]   NodeSchema().load(record) for each, NodeSchema().dump(Node(id)) for each
  ["child-schema", [record...]]    ChildSchema().load(record) for each
  ["msg-schema", version, [line...], [fields...]]   a new MessageSchema: load each line, dump each Message
  ["gateways", [version...], [line...]]   that many Gateways alive at once, lines dealt round-robin, versions rotated halfway
  ["sweep", version]               a populated Gateway under that version receives one line of every command x type of
                                   the version's tables and sends one message of every kind
"""

from __future__ import annotations

import asyncio
import json
import os
import subprocess
import sys

from .. import gw, lib
from . import codec

from aiomysensors.model.message import Message, MessageSchema  # noqa: E402
from aiomysensors.model.node import Child, ChildSchema, Node, NodeSchema  # noqa: E402
from aiomysensors.model.protocol import get_protocol  # noqa: E402
from aiomysensors.persistence import Persistence  # noqa: E402

Gateway, Config = gw.Gateway, gw.Config
VERSIONS = lib.VERSIONS
PATHS = ("schema-fresh", "schema-kept", "listen-fresh", "listen-kept")
VIA = {"schema-fresh": "MessageSchema.load (object created for this probe)",
       "schema-kept": "MessageSchema.load (object created before the other activity)",
       "listen-fresh": "Gateway.listen (Gateway created for this probe)",
       "listen-kept": "Gateway.listen (Gateway created before the other activity)"}

EDGE_IDS = (0, 254, 255, 256)


def _registry(nodes=(0, 1, 254, 255), children=(0, 254)):
    return [p for n in nodes for p in [("node", n, 17, "2.0", "", "", 0, 0, False, False)]
            + [("child", n, c, c, 6, "c") for c in children]]


PROBE_REGISTRY = _registry()


# ---- probe lines ------------------------------------------------------------------------------------


def core_lines() -> list[str]:
    """The statement's boundaries, one carrier line per (edge value, command); decoded after every step."""
    out = []
    for n in EDGE_IDS:
        out += [f"{n};255;0;0;17;2.0", f"{n};0;1;0;2;1", f"{n};0;2;0;2;", f"{n};255;3;0;3;", f"{n};255;4;0;0;0102"]
    for c in EDGE_IDS:
        out += [f"1;{c};0;0;6;x", f"1;{c};1;0;0;x", f"1;{c};3;0;3;x", f"1;{c};3;0;0;x"]
    out += ["1;0;5;0;0;x", "1;0;1;2;0;x", "1;0;1;0;x;x", "x;0;1;0;0;x", "1;2;3", "", "255;255;3;0;3", "255;255;3;0;3;\n"]
    return list(dict.fromkeys(out))


def full_lines() -> list[str]:
    """... and the product of the edge values with every command; decoded after every block."""
    out = core_lines()
    for n in EDGE_IDS:
        out += [f"{n};0;0;0;6;d", f"{n};255;3;0;0;50"]
        for c in EDGE_IDS:
            out += [f"{n};{c};{cmd};0;{3 if cmd == 3 else 0};p" for cmd in range(5)] + [f"{n};{c};3;0;0;p"]
    for c in EDGE_IDS:
        out += [f"1;{c};2;0;0;x", f"1;{c};4;0;0;x", f"255;{c};3;0;4;7"]
    for n in (1, 127, 253, -1, 257, 10**20):
        out += [f"{n};255;3;0;3;", f"{n};1;1;1;0;v"]
    out += ["1;0;-1;0;0;x", "1;0;1;1;0;x", "-1;0;1;0;0;x", "1;-1;1;0;0;x", "0255;0255;3;0;3;", " 255 ;255;3;1;3;a;b"]
    return list(dict.fromkeys(out))


# ---- records and files --------------------------------------------------------------------------------


def record(nid, layout="aiomysensors", children=(0, 254)):
    if layout == "pymysensors":
        return {"sensor_id": nid, "type": 17, "protocol_version": "2.0", "sketch_name": None, "sketch_version": None,
                "battery_level": 0, "heartbeat": 0,
                "children": {str(c): {"id": c, "type": 6, "description": f"c{c}", "values": {"0": "20.5"}} for c in children}}
    return {"node_id": nid, "node_type": 17, "protocol_version": "2.0", "sketch_name": "sk", "sketch_version": "1.0",
            "battery_level": 55, "heartbeat": 3, "sleeping": False,
            "children": {str(c): {"child_id": c, "child_type": 6, "description": f"c{c}", "values": {"0": "20.5"}} for c in children}}


def file_text(ids, layout="aiomysensors", children=(0, 254)) -> str:
    return json.dumps({str(i): record(i, layout, children) for i in ids}, sort_keys=True, indent=2)


def _node(nid) -> Node:
    n = Node(nid, 17, "2.0", sketch_name="sk", sketch_version="1.0", battery_level=55, heartbeat=3)
    n.children[0] = Child(0, 6, description="c0", values={0: "20.5"})
    n.children[254] = Child(254, 6, description="c254")
    return n


# ---- executing steps -----------------------------------------------------------------------------------


def _tally(outs) -> str:
    seen: dict[str, int] = {}
    for o in outs:
        seen[o] = seen.get(o, 0) + 1
    return " ".join(f"{k}*{n}" for k, n in seen.items()) or "-"


def _name(e: BaseException) -> str:
    return type(e).__name__


async def _feed(g, tr, lines) -> list[str]:
    outs, listener = [], None
    for line in lines:
        tr.attempts, tr.faults, tr.lines = [], [], [line]
        if listener is None:
            listener = g.listen()
        try:
            await anext(listener)
            outs.append("ok")
        except Exception as e:  # noqa: BLE001  what the traffic does is not judged here
            outs.append(_name(e))
            listener = None
    if listener is not None:
        await listener.aclose()
    return outs


async def _send(g, tr, msgs) -> list[str]:
    outs = []
    for f in msgs:
        tr.attempts, tr.faults = [], []
        try:
            await g.send(Message(*f))
            outs.append("ok")
        except Exception as e:  # noqa: BLE001
            outs.append(_name(e))
    return outs


def sweep_lines(version: str) -> list[str]:
    v = gw.T["versions"][version]
    out = []
    for t in sorted({int(x) for x in v["internal"]} | {-1, 40}):
        out.append(f"1;255;3;0;{t};1")
    for t in sorted({int(x) for x in v["stream"]} | {-1, 9}):
        out.append(f"1;255;4;0;{t};0102")
    for t in (0, 2, 17, 49, 60):
        out += [f"1;0;1;0;{t};v", f"1;0;2;0;{t};", f"1;0;0;0;{t};d"]
    out += ["1;255;0;0;17;2.0", "0;255;0;0;18;" + version, "255;255;3;0;3;", "255;0;3;0;3;", "255;255;0;0;17;2.0",
            "9;0;1;0;0;v", "1;9;1;0;0;v", "0;255;3;0;2;" + version]
    return out


SWEEP_SENDS = [(1, 0, 1, 0, 2, "on"), (1, 0, 1, 1, 2, "on"), (1, 0, 2, 0, 2, ""), (1, 255, 3, 0, 13, ""), (1, 255, 3, 0, 18, ""),
               (255, 255, 3, 0, 4, "7"), (0, 255, 3, 0, 2, ""), (1, 255, 4, 0, 1, "fw"), (9, 0, 1, 0, 2, "x"), (1, 255, 0, 0, 17, "2.0")]


class World:
    """The process-level state the steps act on, plus the decoders kept from before any step."""

    def __init__(self, root: str) -> None:
        self.root = root
        os.makedirs(root, exist_ok=True)
        self.gws: dict[str, list] = {}          # key -> [gateway, transport, entered]
        self.kept_schemas = {v: codec.schema_for(v) for v in VERSIONS}
        self.kept_gws = {v: gw.build_gateway(gw.Hist(v, True, list(PROBE_REGISTRY))) for v in VERSIONS}
        self.probe_no = 0

    def path(self, name: str) -> str:
        return os.path.join(self.root, "".join(ch for ch in name if ch.isalnum() or ch in "-_") + ".json")

    async def do(self, step) -> str:
        kind = step[0]
        try:
            if kind == "file":
                p = self.path(step[1])
                if step[2] is None:
                    if os.path.exists(p):
                        os.unlink(p)
                    return "removed"
                with open(p, "w", encoding="utf-8") as f:
                    f.write(step[2])
                return "written"
            if kind == "enter":
                key, name = step[1], step[2]
                if key not in self.gws:
                    cfg = Config(persistence_file=self.path(name)) if name is not None else Config()
                    self.gws[key] = [Gateway(gw.FaultTransport(), cfg), None, False]
                    self.gws[key][1] = self.gws[key][0].transport
                ent = self.gws[key]
                if ent[2]:
                    return "skipped (already entered)"
                existed = name is not None and os.path.exists(self.path(name))
                how = "no persistence" if name is None else ("the persistence file exists: loaded" if existed else "no persistence file yet: created")
                try:
                    await ent[0].__aenter__()
                except Exception as e:  # noqa: BLE001
                    return f"raised {_name(e)} ({how.split(':')[0]})"
                ent[2] = True
                return f"ok ({how}) nodes={sorted(ent[0].nodes)}"
            if kind in ("traffic", "send", "exit"):
                ent = self.gws.get(step[1])
                if ent is None:
                    return "skipped (no such gateway)"
                if kind == "traffic":
                    return _tally(await _feed(ent[0], ent[1], step[2]))
                if kind == "send":
                    return _tally(await _send(ent[0], ent[1], step[2]))
                if not ent[2]:
                    return "skipped (not entered)"
                ent[2] = False
                await ent[0].__aexit__(None, None, None)
                return "ok"
            if kind == "persist-load":
                nodes: dict = {}
                await Persistence(nodes, self.path(step[1])).load()
                return f"ok nodes={sorted(nodes)}"
            if kind == "persist-save":
                await Persistence({i: _node(i) for i in step[2]}, self.path(step[1])).save()
                return "ok"
            if kind == "node-schema":
                outs = []
                for r in step[1]:
                    try:
                        NodeSchema().load(json.loads(json.dumps(r)))
                        outs.append("ok")
                    except Exception as e:  # noqa: BLE001
                        outs.append(_name(e))
                sch = NodeSchema()
                for i in step[2]:
                    try:
                        sch.load(sch.dump(_node(i)))
                        outs.append("ok")
                    except Exception as e:  # noqa: BLE001
                        outs.append(_name(e))
                return _tally(outs)
            if kind == "child-schema":
                outs = []
                for r in step[1]:
                    try:
                        ChildSchema().load(json.loads(json.dumps(r)))
                        outs.append("ok")
                    except Exception as e:  # noqa: BLE001
                        outs.append(_name(e))
                return _tally(outs)
            if kind == "msg-schema":
                s = MessageSchema()
                s.set_protocol(get_protocol(step[1]))
                outs = [codec.impl_load(s, line)[0] for line in step[2]]
                outs += [codec.impl_dump(s, Message(*f))[0] for f in step[3]]
                return _tally(outs)
            if kind == "gateways":
                versions, lines = step[1], step[2]
                gs = []
                for v in versions:
                    g, tr = gw.build_gateway(gw.Hist(v, True, list(PROBE_REGISTRY)))
                    gs.append((g, tr))
                outs = []
                for k, line in enumerate(lines):
                    if k == len(lines) // 2:
                        for j, (g, _) in enumerate(gs):
                            g.protocol_version = versions[(j + 1) % len(versions)]
                    g, tr = gs[k % len(gs)]
                    outs += await _feed(g, tr, [line])
                return _tally(outs)
            if kind == "sweep":
                g, tr = gw.build_gateway(gw.Hist(step[1], True, _registry((0, 1, 2), (0, 1)) + [("node", 3, 17, "2.0", "", "", 0, 0, False, True)]))
                outs = await _feed(g, tr, sweep_lines(step[1]))
                g.protocol_version = step[1]
                outs += await _send(g, tr, SWEEP_SENDS)
                return _tally(outs)
            return "unknown step"
        except Exception as e:  # noqa: BLE001  a step that fails (unreadable file, ...) is still a step that happened
            return "raised " + _name(e)

    async def close(self) -> None:
        for key, ent in self.gws.items():
            if ent[2]:
                await self.do(["exit", key])

    # -- probes

    async def probe_one(self, path: str, version: str, lines, fresh_listener: bool = False):
        """[(line, got, verdict, active protocol)] for the lines through one decoder."""
        if path.startswith("schema"):
            s = codec.schema_for(version) if path == "schema-fresh" else self.kept_schemas[version]
            out = []
            for line in lines:
                got = codec.impl_load(s, line)
                out.append((line, got, load_verdict(line, got), version, None))
            return out
        if path == "listen-fresh":
            g, tr = gw.build_gateway(gw.Hist(version, True, list(PROBE_REGISTRY)))
        else:
            g, tr = self.kept_gws[version]
        ops = [("recv", line, (), gw.DEFAULT_TIME) for line in lines]
        trace = await codec._listen_on(g, tr, ops, fresh_listener, keep_version=version)
        return [(line, t["obs"], codec.listen_verdict(line, t), t["proto"], t["how"]) for line, t in zip(lines, trace)]


def load_verdict(line: str, got) -> str | None:
    """C02 restated at MessageSchema.load (the three conditions of run_c02)."""
    want = codec.ref_accepts(line)
    if got[0] not in ("ok", "invalid"):
        return "decoder failed with something other than a validation error"
    if want is None and got[0] == "ok":
        return "decoder accepted a line the property rejects"
    if want is not None and got != ("ok", want):
        return "decoder rejected or mis-decoded a well-formed line"
    return None


# ---- blocks of steps --------------------------------------------------------------------------------------

FIRST_RUN = ["0;255;3;0;14;Gateway startup complete.", "0;255;0;0;18;2.2", "0;255;3;0;2;2.2", "1;255;0;0;17;2.2", "1;0;0;0;6;temp",
             "1;0;1;0;0;20.5", "255;255;3;0;3;", "254;255;0;0;17;2.2", "254;254;0;0;6;edge", "254;254;1;0;2;1", "1;0;2;0;0;",
             "1;255;3;0;0;57", "invalid", "256;0;1;0;0;1", "1;2"]
SECOND_RUN = ["0;255;3;0;2;2.1", "255;255;3;0;3;", "255;7;3;0;3;", "255;255;0;0;17;2.0", "1;0;1;0;0;21", "254;254;1;0;2;0",
              "0;255;3;0;9;log;with;delims", "255;255;4;0;0;x", "255;255;3;0;4;12"]
BAD_RECORDS = [{**record(256)}, {**record(-1)}, {**record(1), "node_id": "x"}, {**record(1), "node_id": None},
               {k: v for k, v in record(1).items() if k != "node_id"}, {**record(1), "battery_level": 101},
               {**record(1), "node_id": 1.5}, {**record(1), "children": {"x": {}}}, [], "node", None]
MSGS = [(0, 0, 1, 0, 0, "a"), (254, 254, 1, 1, 2, "b"), (255, 255, 3, 0, 3, ""), (255, 0, 3, 0, 4, "9"), (256, 0, 1, 0, 0, "x"),
        (1, 256, 1, 0, 0, "x"), (1, 0, 5, 0, 0, "x"), (1, 255, 4, 0, 0, "fw")]


def systematic_blocks() -> list[tuple[str, list]]:
    blocks = []
    # the controller's first start (no file yet), a restart (the file exists and is loaded), a reconnect, a third start
    blocks.append(("first-start-restart-reconnect", [
        ["file", "p1", None], ["enter", "a", "p1"], ["traffic", "a", FIRST_RUN], ["exit", "a"],
        ["enter", "b", "p1"], ["traffic", "b", SECOND_RUN], ["send", "b", [list(m) for m in MSGS[:4]]], ["exit", "b"],
        ["enter", "b", "p1"], ["traffic", "b", ["255;255;3;0;3;", "1;0;1;0;0;22"]], ["exit", "b"],
        ["enter", "c", "p1"], ["exit", "c"]]))
    # a restart on files holding the edge node ids, in both layouts
    for k, ids in enumerate(([0], [254], [255], [0, 1, 254, 255], [1, 127, 253])):
        layout = "pymysensors" if k % 2 else "aiomysensors"
        blocks.append((f"restart-on-file-with-nodes-{'-'.join(map(str, ids))}", [
            ["file", "p2", file_text(ids, layout)], ["enter", "d", "p2"],
            ["traffic", "d", [f"{i};0;1;0;0;1" for i in ids] + ["255;255;3;0;3;"]], ["exit", "d"]]))
    # files a load refuses
    bad = [json.dumps({"256": record(256)}), json.dumps({"-1": record(-1)}), json.dumps({"1": {**record(1), "node_id": "x"}}),
           "{not json", json.dumps([record(1)]), "", json.dumps({"1": None}), json.dumps({"1": {"sensor_id": 255, "type": None}})]
    steps = []
    for k, text in enumerate(bad):
        steps += [["file", "p3", text], ["enter", f"bad{k}", "p3"], ["exit", f"bad{k}"]]
    blocks.append(("restart-on-unreadable-files", steps))
    # the persistence object used directly
    blocks.append(("persistence-direct", [
        ["persist-save", "p4", [0, 254, 255]], ["persist-load", "p4"], ["persist-save", "p4", []], ["persist-load", "p4"],
        ["file", "p4", file_text([255], "pymysensors", (255,))], ["persist-load", "p4"], ["file", "p4", None], ["persist-load", "p4"]]))
    # the schemas used directly
    blocks.append(("schemas-direct", [
        ["node-schema", [record(i, lay) for i in (0, 254, 255) for lay in ("aiomysensors", "pymysensors")], [0, 254, 255]],
        ["node-schema", BAD_RECORDS, []],
        ["child-schema", [{"child_id": c, "child_type": 6} for c in (0, 254, 255, 256, -1)]
         + [{"id": 255, "type": 6, "description": "d", "values": {"0": "1"}}, {"child_id": "x"}, {}, None]],
    ] + [["msg-schema", v, core_lines()[:40] + ["1;2;3", "", "x"], [list(m) for m in MSGS]] for v in VERSIONS]))
    # several gateways alive at once, versions switched while others decode; two sessions open at the same time
    blocks.append(("several-gateways", [
        ["gateways", list(VERSIONS), core_lines()[:50]], ["gateways", ["2.2", "1.4"], FIRST_RUN + SECOND_RUN],
        ["file", "p5", file_text([0, 255])], ["file", "p6", None], ["enter", "e", "p5"], ["enter", "f", "p6"], ["enter", "g", "p5"],
        ["traffic", "e", SECOND_RUN], ["traffic", "f", FIRST_RUN], ["exit", "e"], ["traffic", "g", ["255;255;3;0;3;"]],
        ["exit", "g"], ["exit", "f"]]))
    # every handler of every version runs once
    blocks.append(("handler-sweep", [["sweep", v] for v in VERSIONS]))
    return blocks


def random_block(rng, k: int) -> tuple[str, list]:
    ids_pool = [0, 1, 2, 7, 127, 253, 254, 255]
    steps, open_keys = [], []
    name = f"r{k}"
    for j in range(rng.randint(4, 9)):
        r = rng.random()
        if r < 0.22:
            ids = rng.sample(ids_pool, rng.randint(0, 4)) + ([256] if rng.random() < 0.1 else [])
            steps.append(["file", name, None if rng.random() < 0.15 else
                          file_text(ids, rng.choice(["aiomysensors", "pymysensors"]), tuple(rng.sample([0, 1, 254, 255], 2)))])
            key = f"{name}g{j}"
            steps.append(["enter", key, name if rng.random() < 0.9 else None])
            open_keys.append(key)
        elif r < 0.45 and open_keys:
            lines = [gw.gen_line(rng, rng.choice(VERSIONS), nodes=[0, 1, 254, 255]) for _ in range(rng.randint(1, 8))]
            steps.append(["traffic", rng.choice(open_keys), lines])
        elif r < 0.55 and open_keys:
            steps.append(["exit", open_keys.pop(rng.randrange(len(open_keys)))])
        elif r < 0.63:
            steps.append(["persist-save", name, rng.sample(ids_pool, rng.randint(0, 3))])
            steps.append(["persist-load", name])
        elif r < 0.73:
            recs = [record(rng.choice(ids_pool + [256, -1]), rng.choice(["aiomysensors", "pymysensors"])) for _ in range(rng.randint(1, 4))]
            steps.append(["node-schema", recs + ([rng.choice(BAD_RECORDS)] if rng.random() < 0.5 else []), rng.sample(ids_pool, 2)])
        elif r < 0.83:
            steps.append(["msg-schema", rng.choice(VERSIONS), rng.sample(full_lines(), 12), [list(m) for m in rng.sample(MSGS, 3)]])
        elif r < 0.92:
            vs = rng.sample(VERSIONS, rng.randint(2, 4))
            steps.append(["gateways", vs, [gw.gen_line(rng, vs[0], nodes=[0, 1, 254, 255]) for _ in range(rng.randint(4, 12))]])
        else:
            steps.append(["sweep", rng.choice(VERSIONS)])
    for key in open_keys:
        steps.append(["exit", key])
    return (f"random-{k}", steps)


# ---- a fresh interpreter ----------------------------------------------------------------------------------------


async def _fresh_main(steps, probe):
    w = World(os.path.join(lib.scratch(), "interference"))

    async def one():
        line, got, what, proto, how = (await w.probe_one(probe["path"], probe["version"], [probe["line"]],
                                                         bool(probe.get("fresh_listener"))))[0]
        return {"got": repr(got), "what": what, "observed": how}

    res = {"before": await one(), "log": []}
    for s in steps:
        res["log"].append(await w.do(s))
    res["after"] = await one()
    await w.close()
    return res


def run_fresh(steps, probe, timeout: int = 120):
    """Execute steps + probe in a new interpreter (same tree, own scratch directory); None if that failed."""
    env = dict(os.environ, PYTHONDONTWRITEBYTECODE="1")
    p = subprocess.run([sys.executable, "-m", "harness.props.codec_interference"], cwd=lib.VERIF, env=env, timeout=timeout,
                       input=json.dumps({"steps": steps, "probe": probe}).encode(), capture_output=True, check=False)
    try:
        return json.loads(p.stdout.decode().strip().split("\n")[-1])
    except (ValueError, IndexError):
        return None


def minimise(prefix, block_start: int, probe, what: str):
    """(steps, reproduced in a fresh interpreter?, result) - see the module docstring."""
    def holds(steps):
        r = run_fresh(steps, probe)
        return r if r is not None and r["after"]["what"] == what and r["before"]["what"] is None else None

    for cand in (prefix[block_start:], prefix):
        r = holds(cand)
        if r is None:
            continue
        steps = list(cand)
        j = 0
        while j < len(steps) and len(steps) > 1 and len(steps) <= 24:
            r2 = holds(steps[:j] + steps[j + 1:])
            if r2 is not None:
                steps, r = steps[:j] + steps[j + 1:], r2
            else:
                j += 1
        return steps, True, r
    return list(prefix), False, None


# ---- the run ------------------------------------------------------------------------------------------------


def run(corr, ctx, model_of) -> None:
    rng = lib.rng_for(ctx.seed, "c02-interference")
    blocks = systematic_blocks() + [random_block(rng, k) for k in range(3 if ctx.tier == "quick" else 60)]
    core, full = core_lines(), full_lines()
    pending = []          # (model key, case, got, accepted-only?)
    state = {"stop": False}

    async def main():
        w = World(os.path.join(lib.scratch(), "interference"))
        prefix: list = []

        def versions_for(level, path, no):
            """Quick tier: all four decoders under all five versions before the first and after the last step; after a block
            the MessageSchema created for the probe under all five; otherwise one version each (two for that schema) in rotation."""
            if level == "all" or ctx.tier != "quick" or (path == "schema-fresh" and level == "full"):
                return list(VERSIONS)
            k = (no + PATHS.index(path)) % 5
            return [VERSIONS[k], VERSIONS[(k + 2) % 5]] if path == "schema-fresh" else [VERSIONS[k]]

        async def probe(level, block_start, block_name):
            lines = core if level == "core" else full
            w.probe_no += 1
            fails = []
            for path in PATHS:
                for version in versions_for(level, path, w.probe_no):
                    fresh_listener = (w.probe_no + VERSIONS.index(version)) % 2 == 1
                    corr.count(f"interference:probe:{path}", len(lines))
                    for line, got, what, proto, how in await w.probe_one(path, version, lines, fresh_listener):
                        corr.case(("interference", len(prefix), path, version, line), bool(prefix),
                                  {"version": version, "line": line, "class": "interference-probe", "via": VIA[path], "got": repr(got),
                                   "after_steps": len(prefix), "block": block_name} if prefix and len(corr.samples) < 8 else None)
                        corr.count(f"interference:probe-outcome:{got[0]}")
                        pending.append(((proto, line), path, version, got, len(prefix)))
                        if what is not None:
                            want = codec.ref_accepts(line)
                            case = {"version": version, "line": line, "class": "interference-probe", "via": VIA[path],
                                    "got": repr(got), "want": repr(want) if want is not None
                                    else ("ValidationError" if path.startswith("schema") else "InvalidMessageError")}
                            if how is not None:
                                case["observed"] = how
                            fails.append((what, case, {"path": path, "version": version, "line": line, "fresh_listener": fresh_listener}))
            if fails:
                state["stop"] = True
                what, case, pr = fails[0]
                if prefix:
                    steps, fresh_ok, r = minimise(prefix, block_start, pr, what)
                else:
                    steps, fresh_ok, r = [], False, None
                note = ("re-executed in a fresh interpreter: the probe is decoded as the property says before these steps and not after them"
                        if fresh_ok else "all interference steps executed in this process before the probe (the shorter candidates did not "
                        "reproduce it in a fresh interpreter; the main stream of run_c02 ran before them)")
                firsts = {}
                for f in fails:
                    firsts.setdefault(f[2]["path"], f)          # one failing probe per decoder first, then the others
                shown = [fails[0]] + [f for f in firsts.values() if f is not fails[0]]
                shown += [f for f in fails if not any(f is g for g in shown)]
                for what_k, case_k, pr_k in shown[:8]:
                    first = pr_k is pr
                    corr.violate(("after other activity of the library in the same process: " if prefix else "") + what_k,
                                 {**case_k, "interference": {"steps": steps if first else f"as in the first violation ({len(steps)} steps)",
                                                             "probe": pr_k, "fresh_interpreter": fresh_ok if first else None,
                                                             "step_outcomes": r["log"] if (first and r) else None,
                                                             "block": block_name, "note": note,
                                                             "failing_probes_in_this_round": len(fails)}})
            return not fails

        if await probe("all", 0, "(before any step)"):
            for name, steps in blocks:
                start = len(prefix)
                corr.count("interference:block")
                for s in steps:
                    out = await w.do(s)
                    prefix.append(s)
                    corr.count(f"interference:step:{s[0]}")
                    if s[0] == "file":
                        continue          # the harness wrote a file: nothing of the library has run
                    if s[0] == "enter" and s[2] is not None:
                        corr.count("interference:enter:" + ("refused" if out.startswith("raised") else
                                                            "file-exists-loaded" if "exists" in out else "file-missing-created"))
                    if not await probe("core", start, name):
                        break
                if state["stop"]:
                    break
                await w.close()
                if not await probe("all" if name == blocks[-1][0] else "full", start, name):
                    break
        await w.close()

    asyncio.run(main())
    corr.notes.append(
        "interference part (harness/props/codec_interference.py): blocks of other uses of the library in the same process "
        "(gateway sessions on persistence files that exist / do not exist / are refused, saves and loads, NodeSchema / ChildSchema / "
        "MessageSchema objects used directly, several gateways alive at once, every handler of every version) with probe lines "
        "(node id and child id 0/254/255/256, every command) decoded before the first and after every step by a MessageSchema and a "
        "Gateway created for the probe and by ones created before any step, for the five versions.  The steps are not operations of the "
        "Lean driver (the model's decode is a pure function of version and line, which is exactly what the property demands): each "
        "probe is judged by the property's predicate and compared with `dec`; what the steps themselves do is not judged here.")
    if not ctx.model_ok:
        return
    extra = [k for k in dict.fromkeys(p[0] for p in pending) if k not in model_of]
    for key, o in zip(extra, lib.run_model([codec.model_dec(v, l) for v, l in extra])):
        model_of[key] = codec.parse_model_dec(o)
    seen = set()
    for key, path, version, got, nsteps in pending:
        md = model_of[key]
        same = md[0] == "ok" if got[0] == "accepted" else md == got
        if not same and (key, path) not in seen:
            seen.add((key, path))
            corr.disagree("decode after other activity of the library in the same process",
                          {"version": version, "line": key[1], "class": "interference-probe", "via": VIA[path], "impl": repr(got),
                           "model": repr(md), "after_steps": nsteps})


# ---- replay -------------------------------------------------------------------------------------------------


def replay(case) -> None:
    inter = case["interference"]
    steps, pr = inter["steps"], inter["probe"]
    if not isinstance(steps, list):
        print("steps:", steps)
        return
    print(f"probe: {pr['line']!r} under protocol {pr['version']} via {VIA[pr['path']]}; the property wants {case.get('want')}")
    res = asyncio.run(_fresh_main(steps, pr))
    print(f"before any step: got {res['before']['got']}" + (f"  <-- {res['before']['what']}" if res["before"]["what"] else "  (as the property says)"))
    for i, (s, o) in enumerate(zip(steps, res["log"])):
        text = json.dumps(s)
        print(f"step {i + 1}: {text if len(text) < 300 else text[:300] + ' ...'}\n   -> {o}")
    print(f"after the steps: got {res['after']['got']}" + (f"  <-- {res['after']['what']}" if res["after"]["what"] else "  (as the property says)"))


if __name__ == "__main__":
    _req = json.loads(sys.stdin.read())
    print(json.dumps(asyncio.run(_fresh_main(_req["steps"], _req["probe"]))))
